"""Behaviour-preserving refactorings used to test the robustness of the C14 pack (round 3).
usage: /venv/bin/python tools/harmless_edits_C14.py <R1..R41 | X40..X45 (breaking: exit 1 expected)>   (applies one edit to the scratch tree /tmp/wt_C14;
then `VERIF_REPO=/tmp/wt_C14 ./check C14` must exit 0; undo with `git -C /tmp/wt_C14 checkout -- .`)"""
import re, sys
E = "/tmp/wt_C14/sharepoint2text/parsing/extractors/"
def sub(path, old, new, count=1):
    s = open(path).read()
    assert s.count(old) == count, (path, old[:60], s.count(old))
    open(path, "w").write(s.replace(old, new))
def fn_region(path, start, end):
    s = open(path).read(); a = s.index(start); b = s.index(end, a); return s, a, b

def R1():  # docx sniffer: rename param, JPEG branch extracted into a helper with the loop
    p = E + "ms_modern/docx_extractor.py"
    s, a, b = fn_region(p, "def _get_image_pixel_dimensions(", "# ====")
    body = s[a:b]
    j = body.index("    # JPEG\n")
    jpeg = body[j:body.index("    return None, None", j)]
    lines = jpeg.splitlines()[2:]   # drop comment and the `if startswith` line
    helper = "def _jpeg_frame_size(data: bytes) -> tuple[int | None, int | None]:\n    \"\"\"Size from the first SOFn segment.\"\"\"\n" + \
        "\n".join(l[4:] if l.startswith("    ") else l for l in lines).replace("image_data", "data") + "\n    return None, None\n\n\n"
    newbody = body[:j] + "    # JPEG\n    if image_data.startswith(b\"\\xff\\xd8\"):\n        return _jpeg_frame_size(image_data)\n\n" + body[body.index("    return None, None", j):]
    newbody = newbody.replace("image_data", "payload")
    open(p, "w").write(s[:a] + helper + newbody + s[b:])

def R2():  # resolver: continue guards, renamed locals
    p = E + "util/zip_utils.py"
    sub(p, '''    resolved: List[str] = []
    for part in parts:
        if part == "..":
            if resolved:
                resolved.pop()
        elif part and part != ".":
            resolved.append(part)
    return "/".join(resolved)''', '''    stack: List[str] = []
    for segment in parts:
        if not segment or segment == ".":
            continue
        if segment != "..":
            stack.append(segment)
            continue
        if len(stack) > 0:
            stack.pop()
    return "/".join(stack)''')

def R3():  # docx images: temp variable, counter = counter + 1, renamed target, from io import BytesIO
    p = E + "ms_modern/docx_extractor.py"
    s, a, b = fn_region(p, "def _extract_images_from_context(", "def _extract_hyperlinks_from_context(")
    body = s[a:b]
    body = body.replace("            image_counter += 1\n            ext = target", "            image_counter = image_counter + 1\n            ext = target")
    body = re.sub(r"\btarget\b", "rel_target", body).replace('rel_info.get("rel_target", "")', 'rel_info.get("target", "")')
    body = body.replace("            images.append(\n                DocxImage(\n                    rel_id=rel_id,\n                    filename", "            image = DocxImage(\n                    rel_id=rel_id,\n                    filename")
    i = body.index("            image = DocxImage(")
    j = body.index("                )\n            )\n", i)
    body = body[:j] + "                )\n            images.append(image)\n" + body[j + len("                )\n            )\n"):]
    body = body.replace("data=io.BytesIO(img_data)", "data=BytesIO(img_data)")
    s2 = s[:a] + body + s[b:]
    s2 = s2.replace("import io\n", "import io\nfrom io import BytesIO\n", 1)
    open(p, "w").write(s2)

def R4():  # pptx: guard inversion + content-type helper
    p = E + "ms_modern/pptx_extractor.py"
    s = open(p).read()
    i = s.index("                blob = ctx.get_image_data(image_path)\n                if blob is not None:\n")
    j = s.index("            except Exception as e:\n                logger.debug(f\"Failed to extract image on slide", i)
    block = s[i:j]
    lines = block.splitlines(keepends=True)
    out = [lines[0], "                if blob is None:\n                    continue\n"]
    for l in lines[2:]:
        out.append(l[4:] if l.startswith("                    ") else l)
    nb = "".join(out)
    nb = nb.replace('                content_type = _CONTENT_TYPE_MAP.get(ext, f"image/{ext}")\n', '                content_type = _content_type_of_extension(ext)\n')
    s = s[:i] + nb + s[j:]
    s = s.replace("def _normalize_relative_path(", 'def _content_type_of_extension(ext: str) -> str:\n    """MIME type for a lower-cased file extension."""\n    return _CONTENT_TYPE_MAP.get(ext, f"image/{ext}")\n\n\ndef _normalize_relative_path(', 1)
    open(p, "w").write(s)

def R5():  # data_types: yield from, .copy(), enumerate removed
    p = E + "data_types.py"
    s = open(p).read()
    a = s.index("class PdfContent(")
    old = "        for page in self.pages:\n            for img in page.images:\n                yield img\n"
    i = s.index(old, a)
    s = s[:i] + "        for page in self.pages:\n            yield from page.images\n" + s[i + len(old):]
    a = s.index("class PptxContent(")
    i = s.index("                images=list(slide.images),", a)
    s = s[:i] + "                images=slide.images.copy()," + s[i + len("                images=list(slide.images),"):]
    a = s.index("class OdsContent(")
    old = "        for sheet in self.sheets:\n            for img in sheet.images:\n                yield img\n"
    i = s.index(old, a)
    s = s[:i] + "        for current in self.sheets:\n            images_of_sheet = current.images\n            for image in images_of_sheet:\n                yield image\n" + s[i + len(old):]
    open(p, "w").write(s)

def R6():  # image_utils: one unpack for both PNG fields, nested ifs
    p = E + "util/image_utils.py"
    sub(p, '''                width = struct.unpack(">I", data[16:20])[0]
                height = struct.unpack(">I", data[20:24])[0]
                return (width, height)''', '''                width, height = struct.unpack(">II", data[16:24])
                return (width, height)''')
    sub(p, '''            width = struct.unpack_from("<H", data, 6)[0]
            height = struct.unpack_from("<H", data, 8)[0]''', '''            width, height = struct.unpack_from("<HH", data, 6)''')

def R7():  # odp: helper renamed, keyword call
    p = E + "open_office/odp_extractor.py"
    s = open(p).read()
    s = s.replace("_extract_image(", "_image_of_frame(")
    open(p, "w").write(s)

def R8():  # xlsx: sniffer fallback condition flipped, filename via rpartition, counter renamed
    p = E + "ms_modern/xlsx_extractor.py"
    s = open(p).read()
    s = s.replace('filename = image_path.rsplit("/", 1)[-1]', 'filename = image_path.rpartition("/")[2]')
    s = s.replace("image_counter", "n_images")
    open(p, "w").write(s)

def R9():  # epub/ods/odt: logging added, locals renamed
    p = E + "epub_extractor.py"
    s, a, b = fn_region(p, "def _extract_images(ctx", "def _extract_toc(")
    body = s[a:b].replace("image_counter", "count").replace("            data = ctx.read_bytes(href)", "            logger.debug(\"reading %s\", href)\n            data = ctx.read_bytes(href)")
    open(p, "w").write(s[:a] + body + s[b:])

def R10():  # docx: image construction extracted into a statement helper, called inside append(...)
    p = E + "ms_modern/docx_extractor.py"
    s, a, b = fn_region(p, "def _extract_images_from_context(", "def _extract_hyperlinks_from_context(")
    body = s[a:b]
    i = body.index("            image_counter += 1\n            ext = target")
    j = body.index("        except Exception as e:", i)
    new_call = ("            image_counter += 1\n            caption, description = image_metadata.get(rel_id, (\"\", \"\"))\n"
                "            images.append(\n                _build_docx_image(\n                    rel_id, target, img_data, image_counter, caption, description,\n"
                "                    sorted(image_anchor_paragraph_indices.get(rel_id, set())),\n                )\n            )\n")
    helper = '''def _build_docx_image(rel_id, target, img_data, number, caption, description, anchors) -> DocxImage:
    """DocxImage for one embedded media part."""
    ext = target.rsplit(".", 1)[-1].lower()
    width, height = _get_image_pixel_dimensions(img_data)
    return DocxImage(
        rel_id=rel_id,
        filename=target.rsplit("/", 1)[-1],
        content_type=_CONTENT_TYPE_MAP.get(ext, f"image/{ext}"),
        data=io.BytesIO(img_data),
        size_bytes=len(img_data),
        width=width,
        height=height,
        image_index=number,
        caption=caption,
        description=description,
        anchor_paragraph_indices=anchors,
    )


'''
    open(p, "w").write(s[:a] + helper + body[:i] + new_call + body[j:] + s[b:])

def R15():  # data_types: identity comprehension, full slice, tuple
    p = E + "data_types.py"
    s = open(p).read()
    a = s.index("class PdfContent(")
    i = s.index("                images=list(page.images),", a)
    s = s[:i] + "                images=[image for image in page.images]," + s[i + len("                images=list(page.images),"):]
    a = s.index("class OdpContent(")
    i = s.index("                images=list(slide.images),", a)
    s = s[:i] + "                images=slide.images[:]," + s[i + len("                images=list(slide.images),"):]
    open(p, "w").write(s)

def R18():  # docx sniffer: hoisted signature constants, inverted length guards
    p = E + "ms_modern/docx_extractor.py"
    s = open(p).read()
    s = s.replace('    if image_data.startswith(b"\\x89PNG\\r\\n\\x1a\\n") and len(image_data) >= 24:', '    if image_data[:8] == _PNG_SIGNATURE and not len(image_data) < 24:')
    s = s.replace('    if image_data[:6] in (b"GIF87a", b"GIF89a") and len(image_data) >= 10:', '    if len(image_data) >= 10 and image_data[:6] in _GIF_SIGNATURES:')
    s = s.replace("def _get_image_pixel_dimensions(", '_PNG_SIGNATURE = b"\\x89PNG\\r\\n\\x1a\\n"\n_GIF_SIGNATURES = (b"GIF87a", b"GIF89a")\n\n\ndef _get_image_pixel_dimensions(', 1)
    assert "_PNG_SIGNATURE and not" in s and "_GIF_SIGNATURES:" in s
    open(p, "w").write(s)

def R20():  # ods: continue guards -> nested ifs
    p = E + "open_office/ods_extractor.py"
    s, a, b = fn_region(p, "def _extract_images(", "def _extract_sheet(")
    body = s[a:b]
    old = "        image_elem = frame.find(_DRAW_IMAGE_TAG)\n        if image_elem is None:\n            continue\n\n        href = image_elem.get(_ATTR_XLINK_HREF, \"\")\n        if not href:\n            continue\n"
    assert body.count(old) == 1, body.count(old)
    i = body.index(old); j = body.index("    return images, image_counter", i)
    rest = body[i + len(old):j]
    rest = "".join(("        " + l if l.strip() else l) for l in rest.splitlines(keepends=True))
    new = "        image_elem = frame.find(_DRAW_IMAGE_TAG)\n        if image_elem is not None:\n            href = image_elem.get(_ATTR_XLINK_HREF, \"\")\n            if href:\n" + rest
    open(p, "w").write(s[:a] + body[:i] + new + body[j:] + s[b:])

def R22():  # pptx: relationship looked up with .get and an early continue
    p = E + "ms_modern/pptx_extractor.py"
    sub(p, '''                if not r_embed or r_embed not in slide_rels:
                    continue

                target = slide_rels[r_embed].get("target", "")''', '''                relationship = slide_rels.get(r_embed) if r_embed else None
                if relationship is None:
                    continue

                target = relationship.get("target", "")''')

def R23():  # xlsx: table.get + combined guard
    p = E + "ms_modern/xlsx_extractor.py"
    sub(p, '''                        if not embed_rid or embed_rid not in rid_to_image:
                            continue

                        image_path = rid_to_image[embed_rid]
                        if image_path not in namelist:
                            continue''', '''                        image_path = rid_to_image.get(embed_rid) if embed_rid else None
                        if image_path is None or image_path not in namelist:
                            continue''')

def R11():  # pptx: picture extraction moved into a helper that returns the image or None; the caller counts
    p = E + "ms_modern/pptx_extractor.py"
    s = open(p).read()
    i = s.index("                blip = next(elem.iter(A_BLIP), None)\n")
    j = s.index("                    if description:\n                        ordered_content.append(\n                            (position, \"image_caption\"", i)
    block = s[i:j]
    helper_body = block.replace("                    continue\n", "                    return None\n")
    helper_body = helper_body.replace("                    image_counter += 1\n", "")
    helper_body = helper_body.replace("                    images.append(\n                        PptxImage(", "                    return PptxImage(")
    helper_body = helper_body.replace("                            image_index=image_counter,", "                            image_index=number,")
    k = helper_body.rindex("                        )\n                    )\n")
    helper_body = helper_body[:k] + "                        )\n" + helper_body[k + len("                        )\n                    )\n"):]
    helper_body = "".join((l[12:] if l.startswith("            ") else l) for l in helper_body.splitlines(keepends=True))
    helper = "def _picture_of_shape(ctx, elem, slide_rels, slide_dir, slide_number, number):\n    \"\"\"PptxImage for a p:pic shape, None when it has no readable embedded image.\"\"\"\n" + helper_body + "    return None\n\n\n"
    call = ("                image = _picture_of_shape(ctx, elem, slide_rels, slide_dir, slide_number, image_counter + 1)\n"
            "                if image is not None:\n                    image_counter += 1\n                    images.append(image)\n                    description = image.description\n")
    s2 = s[:i] + call + s[j:]
    s2 = s2.replace("def _process_slide_from_context(", helper + "def _process_slide_from_context(", 1)
    open(p, "w").write(s2)

def R30():  # odg: fields set after construction, dict() for the shared ones
    p = E + "open_office/odg_extractor.py"
    s, a, b = fn_region(p, "def _extract_images(", "def read_odg(")
    body = s[a:b]
    old = body[body.index("                img_data = ctx.read_bytes(href)\n"):body.index("            else:\n", body.index("                img_data = ctx.read_bytes(href)\n"))]
    new = ("                img_data = ctx.read_bytes(href)\n"
           "                common = dict(href=href, width=width, height=height, caption=caption, description=description, unit_name=None)\n"
           "                record = OpenDocumentImage(name=name or href.split(\"/\")[-1], **common)\n"
           "                record.content_type = guess_content_type(href)\n"
           "                record.data = io.BytesIO(img_data)\n"
           "                record.size_bytes = len(img_data)\n"
           "                record.image_index = image_counter\n"
           "                images.append(record)\n")
    open(p, "w").write(s[:a] + body.replace(old, new) + s[b:])

def R31():  # pptx: the located picture travels as a dict
    p = E + "ms_modern/pptx_extractor.py"
    s = open(p).read()
    i = s.index("                blob = ctx.get_image_data(image_path)\n                if blob is not None:\n")
    s = s[:i] + "                found = {\"blob\": ctx.get_image_data(image_path), \"target\": target}\n                blob = found[\"blob\"]\n                if blob is not None:\n" + s[i + len("                blob = ctx.get_image_data(image_path)\n                if blob is not None:\n"):]
    s = s.replace('                    ext = target.rsplit(".", 1)[-1].lower()\n                    content_type = _CONTENT_TYPE_MAP', '                    ext = found.get("target").rsplit(".", 1)[-1].lower()\n                    content_type = _CONTENT_TYPE_MAP', 1)
    open(p, "w").write(s)

def R34():  # epub: number by len(images) + 1, no counter
    p = E + "epub_extractor.py"
    s, a, b = fn_region(p, "def _extract_images(ctx", "def _extract_toc(")
    body = s[a:b]
    body = body.replace("    image_counter = 0\n", "").replace("            image_counter += 1\n", "").replace("image_index=image_counter,", "image_index=len(images) + 1,")
    assert "image_counter" not in body
    open(p, "w").write(s[:a] + body + s[b:])

def R35():  # pdf: enumerate -> counter, helper call inline, keyword arguments
    p = E + "pdf/pdf_extractor.py"
    s = open(p).read()
    old = "    for image_index, (obj_name, obj, caption) in enumerate(candidates, start=1):\n        try:\n            image_data = _extract_image(obj, obj_name, image_index, page_num, caption)\n            found_images.append(image_data)\n"
    assert s.count(old) == 1
    s = s.replace(old, "    position = 0\n    for obj_name, obj, caption in candidates:\n        position += 1\n        try:\n            found_images.append(_extract_image(obj, obj_name, caption=caption, page_num=page_num, index=position))\n")
    s = s.replace('"Failed to extract image [%s] [%d]: %s", obj_name, image_index, e', '"Failed to extract image [%s] [%d]: %s", obj_name, position, e')
    open(p, "w").write(s)

# ---- round 7: observation accessors and content-type helpers.  R4x must keep exit 0; X4x are BREAKING variants that must give exit 1 ----
DTP = E + "data_types.py"
def _in_class(cls, old, new):
    s = open(DTP).read(); i = s.index(f"class {cls}(ImageInterface):"); j = s.index("\n@dataclass", i)
    assert s[i:j].count(old) >= 1, (cls, old[:50])
    open(DTP, "w").write(s[:i] + s[i:j].replace(old, new, 1) + s[j:])

def R40():  # accessors: metadata built step by step through the attribute view, get_bytes restructured, redundant seek dropped
    _in_class("PptxImage", """        return ImageMetadata(
            image_number=self.image_index,
            content_type=self.content_type,
            unit_number=self.slide_number,
            width=self.width if self.width is not None and self.width > 0 else None,
            height=self.height if self.height is not None and self.height > 0 else None,
        )""", """        w, h = self.width, self.height
        if w is None or w <= 0:
            w = None
        if not (h is not None and h > 0):
            h = None
        md = ImageMetadata(unit_number=self.slide_number, image_number=self.image_index, content_type=self.get_content_type())
        md.width = w
        md.height = h
        return md""")
    _in_class("DocxImage", """        if self.data is None:
            return io.BytesIO()
        self.data.seek(0)
        return self.data""", """        stream = self.data
        if stream is not None:
            stream.seek(0)
            return stream
        return io.BytesIO(b"")""")
    _in_class("PdfImage", """        fl = io.BytesIO(self.data)
        fl.seek(0)
        return fl""", """        return io.BytesIO(self.data)""")
    _in_class("OpenDocumentImage", """        width_px = _odf_length_to_px(self.width)
        height_px = _odf_length_to_px(self.height)
""", """        width_px, height_px = (_odf_length_to_px(v) for v in (self.width, self.height))
""")

def R41():  # content-type helpers: rpartition, membership test + subscript, unpacked guess_type
    p = E + "ms_modern/xlsx_extractor.py"
    sub(p, 'ext = filename.rsplit(".", 1)[-1].lower() if "." in filename else ""', '_, dot, tail = filename.rpartition(".")\n    ext = tail.lower() if dot else ""')
    sub(p, '    return _CONTENT_TYPE_MAP.get(ext, "image/unknown")', '    if ext in _CONTENT_TYPE_MAP:\n        return _CONTENT_TYPE_MAP[ext]\n    return "image/unknown"')
    sub(E + "open_office/_shared.py", '    return mimetypes.guess_type(path)[0] or "application/octet-stream"',
        '    guessed, _encoding = mimetypes.guess_type(path)\n    if guessed:\n        return guessed\n    return "application/octet-stream"')

def X40():  # BREAKING: the slide of a picture is reported as its running number
    _in_class("PptxImage", "unit_number=self.slide_number", "unit_number=self.image_index")
def X41():  # BREAKING: the stored stream is handed out where the last reader left it
    _in_class("DocxImage", "        self.data.seek(0)\n", "")
def X42():  # BREAKING: ODF height computed from the width
    _in_class("OpenDocumentImage", "height_px = _odf_length_to_px(self.height)", "height_px = _odf_length_to_px(self.width)")
def X43():  # BREAKING: extension not lower-cased (image1.PNG -> image/unknown)
    sub(E + "ms_modern/xlsx_extractor.py", 'ext = filename.rsplit(".", 1)[-1].lower() if "." in filename else ""', 'ext = filename.rsplit(".", 1)[-1] if "." in filename else ""')
def X44():  # BREAKING: the encoding component of guess_type is returned
    sub(E + "open_office/_shared.py", 'mimetypes.guess_type(path)[0] or', 'mimetypes.guess_type(path)[1] or')
def X45():  # BREAKING: RTF kind table maps jpg to a type that does not exist
    s = open(DTP).read(); i = s.index("class RtfImage(ImageInterface):")
    open(DTP, "w").write(s[:i] + s[i:].replace('"jpg": "image/jpeg",', '"jpg": "image/jpg",', 1))

def R42():  # units: page counter instead of enumerate; slide number through a local; metadata built in two steps
    sub(DTP, """        for page_number, page in enumerate(self.pages, start=1):
            yield PdfUnit(""", """        page_number = 0
        for page in self.pages:
            page_number += 1
            yield PdfUnit(""")
    sub(DTP, """            yield PptxUnit(
                slide_number=slide.slide_number,""", """            number = slide.slide_number
            yield PptxUnit(
                slide_number=number,""")
    sub(DTP, "        return PptxUnitMetadata(unit_number=self.slide_number)", "        md = PptxUnitMetadata(unit_number=0)\n        md.unit_number = self.slide_number\n        return md")
def X46():  # BREAKING: pages are numbered from 0
    sub(DTP, "for page_number, page in enumerate(self.pages, start=1):\n            yield PdfUnit(", "for page_number, page in enumerate(self.pages):\n            yield PdfUnit(")
def X47():  # BREAKING: ODP units are numbered by position although the slide (and its pictures) carry the stored slide number
    sub(DTP, """            yield OdpUnit(
                slide_number=slide.slide_number,""", """            yield OdpUnit(
                slide_number=len(parts),""")
def X48():  # BREAKING: the sheet unit reports the 0-based index
    sub(DTP, "        return XlsxUnitMetadata(\n            unit_number=self.sheet_index,", "        return XlsxUnitMetadata(\n            unit_number=self.sheet_index - 1,")

def R43():  # ImageMetadata: only the optional entries are (re)written by __post_init__ (the others are mirrored by __setattr__ already)
    sub(DTP, """            unit_number=self.unit_number,
            image_number=self.image_number,
            content_type=self.content_type,
            width=self.width,
            height=self.height,
        )

    def __setattr__""", """            unit_number=self.unit_number,
            width=self.width,
            height=self.height,
        )

    def __setattr__""")
def X49():  # BREAKING: the dict view shows width and height swapped
    sub(DTP, """            width=self.width,
            height=self.height,
        )

    def __setattr__""", """            width=self.height,
            height=self.width,
        )

    def __setattr__""")

globals()[sys.argv[1]]()
print("applied", sys.argv[1])
