"""Regenerates proposed_fixes/C14_*.diff against the current /repo HEAD.

usage: /venv/bin/python tools/make_fix_C14.py <scratch worktree of /repo> [resolution] [fill]
(applies the named edits in place; `git diff` in the worktree is the patch)."""
import sys

root = sys.argv[1].rstrip("/") + "/"
which = sys.argv[2:] or ["resolution", "fill"]
E = root + "sharepoint2text/parsing/extractors/"


def sub(path, old, new, count=1):
    s = open(path).read()
    assert s.count(old) == count, (path, old[:50], s.count(old))
    open(path, "w").write(s.replace(old, new))


HELPER = '''def resolve_part_name(base_dir: str, target: str) -> str:
    """Resolve a relationship target / manifest href to a ZIP member name.

    OPC rules (EPUB manifest hrefs follow the same scheme): a target starting
    with "/" is relative to the package root, any other target is relative to
    ``base_dir`` (the directory of the part holding the reference); empty and
    "." segments are dropped and ".." removes the previous segment without
    ever climbing above the package root.
    """
    if target.startswith("/"):
        parts = target.split("/")
    else:
        parts = base_dir.split("/") + target.split("/")
    resolved: List[str] = []
    for part in parts:
        if part == "..":
            if resolved:
                resolved.pop()
        elif part and part != ".":
            resolved.append(part)
    return "/".join(resolved)


'''
IMP_OLD = "from sharepoint2text.parsing.extractors.util.zip_utils import parse_relationships\n"
IMP_NEW = "from sharepoint2text.parsing.extractors.util.zip_utils import (\n    parse_relationships,\n    resolve_part_name,\n)\n"

if "resolution" in which:
    sub(E + "util/zip_utils.py", "def find_relationship_elements(", HELPER + "def find_relationship_elements(")
    p = E + "ms_modern/pptx_extractor.py"
    s = open(p).read()
    a, b = s.index("def _normalize_relative_path("), s.index("def _process_slide_from_context(")
    s = s[:a] + '''def _normalize_relative_path(base_dir: str, target: str) -> str:
    """Resolve a relationship target against the directory of the source part."""
    return resolve_part_name(base_dir, target)


''' + s[b:]
    old = "from sharepoint2text.parsing.extractors.util.zip_utils import (\n    parse_relationships,\n)"
    assert s.count(old) == 1
    s = s.replace(old, "from sharepoint2text.parsing.extractors.util.zip_utils import (\n    parse_relationships,\n    resolve_part_name,\n)")
    open(p, "w").write(s)
    sub(E + "ms_modern/docx_extractor.py", IMP_OLD, IMP_NEW)
    sub(E + "ms_modern/docx_extractor.py", '        image_path = "word/" + target\n', '        image_path = resolve_part_name("word", target)\n')
    sub(E + "ms_modern/xlsx_extractor.py", IMP_OLD, IMP_NEW)
    sub(E + "ms_modern/xlsx_extractor.py", '''    """Normalize drawing relationship targets to ZIP paths."""
    if target.startswith("/"):
        return target[1:]
    if target.startswith(".."):
        return "xl/" + target[3:]
    return "xl/worksheets/" + target
''', '''    """Normalize drawing relationship targets to ZIP paths."""
    return resolve_part_name("xl/worksheets", target)
''')
    sub(E + "ms_modern/xlsx_extractor.py", '''def _resolve_image_path(target: str) -> str:
    """Normalize image relationship targets to ZIP paths."""
    if target.startswith("/"):
        return target[1:]
    return "xl/media/" + target.rsplit("/", 1)[-1]
''', '''def _resolve_image_path(target: str, drawing_path: str) -> str:
    """Normalize image relationship targets (relative to the drawing part) to ZIP paths."""
    return resolve_part_name(drawing_path.rpartition("/")[0], target)
''')
    sub(E + "ms_modern/xlsx_extractor.py", '_resolve_image_path(rel["target"])', '_resolve_image_path(\n                            rel["target"], drawing_path\n                        )')
    sub(E + "epub_extractor.py", "from sharepoint2text.parsing.extractors.util.zip_context import ZipContext\n",
        "from sharepoint2text.parsing.extractors.util.zip_context import ZipContext\nfrom sharepoint2text.parsing.extractors.util.zip_utils import resolve_part_name\n")
    sub(E + "epub_extractor.py", '''        if href.startswith("/"):
            return href[1:]
        return self._opf_dir + href
''', '''        return resolve_part_name(self._opf_dir, href)
''')

if "fill" in which:
    fill = "            if marker == 0xFF:  # fill byte before a marker (ITU T.81 B.1.1.2)\n                i += 1\n                continue\n"
    for f in ("docx_extractor.py", "pptx_extractor.py", "xlsx_extractor.py"):
        old = "            marker = image_data[i + 1]\n"
        sub(E + "ms_modern/" + f, old, old + fill)
print("applied", which)
