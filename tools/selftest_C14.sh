#!/bin/bash
# Self-test of the C14 pack: hand-made breaking edits must be caught (exit 1), harmless edits must still verify (exit 0).
# Base tree = /repo (or $1) with proposed_fixes/C14_*.diff applied (the state in which ./check C14 exits 0).
set -u
ROOT=$(cd "$(dirname "$0")/.." && pwd)
SRC=${1:-/repo}
W=/tmp/c14_selftest
rm -rf $W; mkdir -p $W/base
cp -r $SRC/sharepoint2text $W/base/
for d in $ROOT/proposed_fixes/C14_resolution.diff $ROOT/proposed_fixes/C14_jpeg_fill_bytes.diff; do
  # (the proposed fixes are part of /repo since round 2: apply only where they still apply)
  (cd $W/base && patch -p1 -s --forward --dry-run < $d > /dev/null 2>&1 && patch -p1 -s --forward < $d) || true
done
E=sharepoint2text/parsing/extractors
run() {   # name expected-exit python-edit
  name=$1; want=$2; shift 2
  if [ "$name" != base ]; then rm -rf $W/$name; cp -r $W/base $W/$name; fi
  (cd $W/$name && /venv/bin/python -c "$1") || { echo "$name: EDIT FAILED"; return; }
  out=$(cd $ROOT && VERIF_REPO=$W/$name timeout 1500 ./check C14 2>&1); code=$?
  n=$(echo "$out" | grep -c "^VIOLATION")
  first=$(echo "$out" | grep "^VIOLATION\|^UNDECIDED\|^ENGINE" | head -2 | cut -c1-230)
  if [ "$code" = "$want" ]; then verdict=OK; else verdict=UNEXPECTED; fi
  echo "$name: exit=$code expected=$want violations=$n $verdict"
  [ -n "$first" ] && echo "$first" | sed 's/^/     /'
  if [ "$name" != base ]; then (cd $W && diff -ru base/$E $name/$E > $ROOT/seeded/C14_selftest/$name.diff); fi
}
ED='
import re,sys
def sub(path, old, new, count=1):
    s = open(path).read()
    assert s.count(old) == count, (path, old, s.count(old))
    open(path, "w").write(s.replace(old, new))
E = "sharepoint2text/parsing/extractors/"
'
ONLY=${2:-}
run0() { if [ -z "$ONLY" ] || [[ "$1" == $ONLY* ]]; then run "$@"; fi; }
run0 base 0 "pass"
# ---- breaking edits ----
run0 B1_png_height_offset 1 "$ED
sub(E+'util/image_utils.py', 'height = struct.unpack(\">I\", data[20:24])[0]', 'height = struct.unpack(\">I\", data[21:25])[0]')"
run0 B2_resolver_keeps_dotdot 1 "$ED
sub(E+'util/zip_utils.py', '            if resolved:\n                resolved.pop()\n', '            pass\n')"
run0 B3_pptx_payload_truncated 1 "$ED
sub(E+'ms_modern/pptx_extractor.py', 'blob = ctx.get_image_data(image_path)\n', 'blob = ctx.get_image_data(image_path)\n                blob = blob[:-1] if blob else blob\n')"
run0 B4_pptx_document_view_drops_last_slide 1 "$ED
s = open(E+'data_types.py').read()
a = s.index('class PptxContent(')
b = s.index('def iterate_images', a)
c = s.index('for slide in self.slides:', b)
s = s[:c] + 'for slide in self.slides[:-1]:' + s[c+len('for slide in self.slides:'):]
open(E+'data_types.py','w').write(s)"
run0 B5_docx_number_before_increment 1 "$ED
s = open(E+'ms_modern/docx_extractor.py').read()
old = '            image_counter += 1\n            ext = target.rsplit'
assert s.count(old) == 1
s = s.replace(old, '            ext = target.rsplit', 1)
old2 = '                    image_index=image_counter,\n'
assert s.count(old2) == 1
s = s.replace(old2, '                    image_index=image_counter + 0,\n', 1)
old3 = '        except Exception as e:\n            logger.debug(f\"Image extraction failed'
assert s.count(old3) == 1
s = s.replace(old3, '            image_counter += 1\n' + old3, 1)
open(E+'ms_modern/docx_extractor.py','w').write(s)"
run0 B6_xlsx_bmp_big_endian 1 "$ED
sub(E+'ms_modern/xlsx_extractor.py', 'w = int.from_bytes(image_data[18:22], \"little\", signed=True)', 'w = int.from_bytes(image_data[18:22], \"big\", signed=True)')"
run0 B7_docx_site_bypasses_resolver 1 "$ED
sub(E+'ms_modern/docx_extractor.py', 'image_path = resolve_part_name(\"word\", target)', 'image_path = \"word/media/\" + target.rsplit(\"/\", 1)[-1]')"
run0 B8_jpeg_height_width_swapped 1 "$ED
sub(E+'ms_modern/docx_extractor.py', 'h = int.from_bytes(image_data[i + 5 : i + 7], \"big\")\n                w = int.from_bytes(image_data[i + 7 : i + 9], \"big\")', 'w = int.from_bytes(image_data[i + 5 : i + 7], \"big\")\n                h = int.from_bytes(image_data[i + 7 : i + 9], \"big\")')"
run0 B9_units_lose_images_of_xlsx 1 "$ED
s = open(E+'data_types.py').read()
a = s.index('class XlsxContent(')
c = s.index('images=list(sheet.images),', a)
s = s[:c] + 'images=[],' + s[c+len('images=list(sheet.images),'):]
open(E+'data_types.py','w').write(s)"
run0 B10_pptx_copy_resyncs_after_truncated_sof 1 "$ED
sub(E+'ms_modern/pptx_extractor.py', '                    return (width or None, height or None)\n                break\n', '                    return (width or None, height or None)\n                i += 1\n                continue\n')"
# ---- harmless edits ----
run0 H1_rename_locals 0 "$ED
s = open(E+'util/zip_utils.py').read()
a = s.index('def resolve_part_name'); b = s.index('def find_relationship_elements')
body = s[a:b].replace('resolved', 'stack').replace('parts', 'segments').replace('part ', 'seg ').replace('part:', 'seg:').replace('part)', 'seg)').replace('for part', 'for seg')
open(E+'util/zip_utils.py','w').write(s[:a] + body + s[b:])
s = open(E+'ms_modern/xlsx_extractor.py').read()
a = s.index('def _extract_images_from_zip'); b = s.index('def _read_content(')
open(E+'ms_modern/xlsx_extractor.py','w').write(s[:a] + s[a:b].replace('image_counter', 'img_no') + s[b:])
s = open(E+'ms_modern/docx_extractor.py').read()
a = s.index('def _get_image_pixel_dimensions'); b = s.index('# Text extraction helpers')
body = re.sub(r'\\bi\\b', 'pos', s[a:b])
open(E+'ms_modern/docx_extractor.py','w').write(s[:a] + body + s[b:])"
run0 H2_reorder_independent 0 "$ED
s = open(E+'ms_modern/pptx_extractor.py').read()
old = '                    image_counter += 1\n                    ext = target.rsplit(\".\", 1)[-1].lower()\n'
assert s.count(old) == 1
s = s.replace(old, '                    ext = target.rsplit(\".\", 1)[-1].lower()\n                    image_counter += 1\n')
open(E+'ms_modern/pptx_extractor.py','w').write(s)
s = open(E+'util/image_utils.py').read()
old1 = '                width = struct.unpack(\">I\", data[16:20])[0]\n                height = struct.unpack(\">I\", data[20:24])[0]\n'
assert s.count(old1) == 1
s = s.replace(old1, '                height = struct.unpack(\">I\", data[20:24])[0]\n                width = struct.unpack(\">I\", data[16:20])[0]\n')
open(E+'util/image_utils.py','w').write(s)
s = open(E+'data_types.py').read()
a = s.index('class PdfContent('); c = s.index('                images=list(page.images),\n                tables=[TableData(data=table) for table in page.tables],\n', a)
old2 = '                images=list(page.images),\n                tables=[TableData(data=table) for table in page.tables],\n'
s = s[:c] + '                tables=[TableData(data=table) for table in page.tables],\n                images=list(page.images),\n' + s[c+len(old2):]
open(E+'data_types.py','w').write(s)"
