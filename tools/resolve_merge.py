"""tools/resolve_merge.py <Cxx> <branch>: resolve the usual conflicts of a pack merge (union of lock / known findings,
both sides of additive edits in ENGINE.md / pyvc/contracts.py)."""
import json, re, subprocess, sys
prop, branch = sys.argv[1], sys.argv[2]
def show(n, f):
    return subprocess.check_output(["git", "show", f":{n}:{f}"], text=True)
status = subprocess.check_output(["git", "status", "--short"], text=True).splitlines()
conf = [l[3:] for l in status if l.startswith(("UU", "AA"))]
for f in conf:
    if f == "obligations.lock.json":
        o, t = json.loads(show(2, f)), json.loads(show(3, f))
        for k, v in t.items():
            if k not in o or k == prop:
                o[k] = v
        json.dump(o, open(f, "w"), indent=1, sort_keys=True)
    elif f == "known_findings.json":
        o, t = json.loads(show(2, f)), json.loads(show(3, f))
        ids = {x["id"] for x in o["findings"]}
        o["findings"] += [x for x in t["findings"] if x["id"] not in ids and x["property"] == prop]
        json.dump(o, open(f, "w"), indent=1)
    elif f in ("ENGINE.md", "pyvc/contracts.py", "DESIGN.md"):
        s = open(f).read()
        s = re.sub(r"(?m)^(<<<<<<< HEAD|=======|>>>>>>> " + re.escape(branch) + r")\n", "", s)
        open(f, "w").write(s)
    elif f in ("MANIFEST.json",):
        open(f, "w").write(show(2, f))
    elif f == "tools_manifest.py":
        ours, theirs = show(2, f), show(3, f)
        m = re.search(r'CLAIMED\["' + prop + r'"\] = dict\(.*?design="[^"]*"\)\n', theirs, flags=re.S)
        if m and f'CLAIMED["{prop}"]' not in ours:
            ours = ours.replace("PENDING = {}", m.group(0) + "\nPENDING = {}", 1)
        open(f, "w").write(ours)
    else:
        print("UNRESOLVED", f)
print("resolved", conf)
