"""Regenerates MANIFEST.json from the table below (keeps it schema-valid at all times)."""
import json

CLAIMED = {
    "C11": dict(
        text="Deductive proof, for all entry vectors of every length and all limit settings, that validate_zipfile "
             "(real AST, re-read each run) rejects with the zip-bomb error iff the spec predicate written from the "
             "statement holds (loop invariant + induction lemma), plus policy/typestate obligations that containers "
             "are validated before any member read.",
        note="Assumed: zipfile.ZipFile.infolist() returns the finite entry list with non-negative integer sizes; "
             "float ratio comparison treated as real arithmetic (PY-FLOAT-REAL); limits non-negative; pyvc engine, z3, cvc5.",
        technique="contract-based deductive verification: AST->VC generation over the real source, loop invariants, z3/cvc5",
        design="DESIGN.md §3 C11"),
}

PENDING = {}

ALL = [f"C{i:02d}" for i in range(1, 21)]


def main():
    checks = []
    for pid, d in sorted(CLAIMED.items()):
        checks.append({
            "property_id": pid,
            "quick_cmd": f"./check {pid} --tier quick",
            "thorough_cmd": f"./check {pid} --tier thorough",
            "evidence_file": f"/verif/evidence/{pid}.json",
            "replay_cmd_template": f"./check {pid} --replay {{path}}",
            "engine": "pyvc",
            "level_claimed": {"category": "proof", "text": d["text"], "design_ref": d["design"]},
            "level_note": d["note"],
            "technique": d["technique"],
        })
    na = []
    for pid in ALL:
        if pid not in CLAIMED:
            na.append({"property_id": pid, "reason": PENDING.get(pid, "contract pack not built yet in this session; "
                                                                 "no check is claimed (see DESIGN.md §3 for the plan)")})
    m = {
        "version": 1,
        "setup_cmd": "python3-vt -c 'import z3' && test -x /venv/bin/python && mkdir -p out/replays evidence",
        "hooks": {"guard": "SHAREPOINT2TEXT_VERIF", "enable": "none needed: sidecar contracts, /repo is read, never edited by checks",
                  "baseline_off_cmd": "cd /repo && /venv/bin/python -m pytest -ra -q -p no:cacheprovider --timeout=900 --continue-on-collection-errors",
                  "source_commits": [], "add_only": True},
        "engines": [{"name": "pyvc", "path": "/verif/pyvc", "serves_properties": sorted(CLAIMED),
                     "kind_free_text": "VC generator from the Python AST of the real source + sidecar contracts; z3/cvc5 back ends; native replay under /venv"}],
        "checks": checks,
        "not_applicable": na,
        "notes": "Exit codes of ./check: 0 held, 1 VIOLATION, 2 UNDECIDED (never a violation), 3 engine error / vacuity guard.",
    }
    json.dump(m, open("MANIFEST.json", "w"), indent=1)


if __name__ == "__main__":
    main()
