"""Regenerates MANIFEST.json from the table below (keeps it schema-valid at all times)."""
import json

CLAIMED = {
    "C11": dict(
        text="Deductive proof, for all entry vectors of every length and all limit settings, that validate_zipfile "
             "(real AST, re-read each run) rejects with the zip-bomb error iff the spec predicate written from the "
             "statement holds (loop invariant + induction lemma), plus policy/typestate obligations that containers "
             "are validated before any member read.",
        note="Assumed: zipfile.ZipFile.infolist() returns the finite entry list with non-negative integer sizes; "
             "float ratio comparison treated as real arithmetic (PY-FLOAT-REAL); limits non-negative; pyvc engine, z3, cvc5.",
        technique="contract-based deductive verification: AST->VC generation over the real source, loop invariants, z3/cvc5",
        design="DESIGN.md §3 C11"),
}

CLAIMED["C07"] = dict(
    text="Deductive proof over a symbolic path string: both router entry points (real AST) equal one spec predicate built "
         "from the statement, with os.path.splitext and mimetypes.guess_type uninterpreted (so: for every MIME database); "
         "alias=base, per-extension routing and documentation tables as lemmas / ground table invariants.",
    note="Assumed: splitext A5 instances in the alias/extension lemmas (A1-A3 are discharged on the host interpreter's "
         "genericpath._splitext / posixpath.splitext source; os.path taken to be posixpath), str.rfind by definition, "
         "guess_type total/deterministic, importlib succeeds for registry modules; "
         "str.lower uninterpreted (idempotent); pyvc engine, z3 sequence solver, cvc5.",
    technique="contract-based deductive verification: AST->VC generation over the real source, string VCs in z3/cvc5",
    design="DESIGN.md §3 C07")
CLAIMED["C20"] = dict(
    text="Deductive proof that every table, GF(2^8) helper, round function, the key expansion for Nk=4,6,8 and block "
         "encrypt/decrypt of the real module equal an independently written FIPS-197 specification over 8-bit vectors, "
         "for all keys and blocks; inverse lemmas; known-answer vectors guard the spec.",
    note="Assumed: spec transcription (checked on FIPS-197 App. A/C and SP 800-38A vectors each run); bytes are immutable ints in [0,256); "
         "secrets.token_bytes freshness not expressible; pyvc engine, z3.",
    technique="contract-based deductive verification: AST->VC generation over the real source, bit-vector VCs in z3",
    design="DESIGN.md §3 C20")

CLAIMED["C01"] = dict(
    text="Exceptional postcondition proved by symbolic execution of the real bodies under EXC-ANY (every un-contracted call may "
         "raise any Exception subclass): only the ExtractionError family can leave any of the 21 registered extractor generators, "
         "read_file (plus the documented OSError from stat/open), nothing leaves the archive-member wrapper; the CLI returns 0 with "
         "output or 1 with clean stdout and exactly one stderr line. A `decreases` obligation is generated for every own `while` loop "
         "(26 of 29 discharged by variant rules over the real AST; the other three are listed as not decided).",
    note="Assumed: third-party parsers terminate (known to be false for olefile's property parser on a damaged SummaryInformation stream: recorded finding with its own bounded scope obligation); BaseException-only classes and MemoryError/RecursionError not modelled; argparse raises only "
         "SystemExit; sys.stdout.write is atomic w.r.t. encoding errors; merge mode widens values (over-approximation, sound for this safety property).",
    technique="contract-based deductive verification: exceptional postconditions by symbolic execution of the real AST under EXC-ANY, z3",
    design="DESIGN.md §3 C01")

CLAIMED["C09"] = dict(
    text="_safe_join is proved (string VCs, os.path functions uninterpreted) to return only paths inside its base or raise; every "
         "file-system call reached when re-reading extracted 7z members carries a discharged confinement obligation for arbitrary member "
         "names; the skip predicate equals its spec; policy obligations from the AST: file-system calls only at allow-listed sites, ZIP/TAR "
         "loops have no file-system effect, only regular tar members are read, skip rules dominate every dispatch, the temp dir is a with-block.",
    note="Assumed: a normalised absolute path under abspath(base)+sep is inside base (no symlinks created by the reader); OS-level races; what "
         "third-party extractors do with member bytes; policy obligations are decided by AST dataflow (back end 'dataflow'), not SMT.",
    technique="contract-based deductive verification: string VCs over the real AST + file-system effect obligations, z3; AST dominance analysis",
    design="DESIGN.md §3 C09")

CLAIMED["C12"] = dict(
    text="The explicit limits are proved as exact contracts on the real code (read_file refuses size > max_file_size > 0 before open(), "
         "0 disables; 7z archives above 100 MB refused before parsing, the boundary accepted; per-member size checks dominate every "
         "member read) and every repetition whose count comes from the input carries a bound obligation. Four such obligations fail on "
         "the unchanged tree and are recorded known findings (ODS repeat attributes, text:s count, 7z oversize members decompressed).",
    note="NOT decided: peak memory / run time as quantities; amplification inside olefile, lzma/deflate, openpyxl (out of reach of contracts on "
         "this repository). Assumed: stat().st_size, BytesIO seek/tell model, defusedxml forbids entity expansion; dominance by AST dataflow.",
    technique="contract-based deductive verification: exact limit contracts + amplification-site obligations over the real AST, z3; AST dominance analysis",
    design="DESIGN.md §3 C12")

CLAIMED["C06"] = dict(
    text="The relational statement is reduced to per-function effect/qualifier obligations decided on the real AST for every function "
         "of the parsing package: no order-exposing iteration of a set reaches a value, observers of result objects store nothing into "
         "objects reachable from self, extractors only read their input buffer, nondeterministic primitives (clock, id(), secrets) are "
         "contained; plus a bounded native validation of the purity assumption (fixtures, two fresh processes, two hash seeds).",
    note="Fresh-process equality follows only under the assumption that third-party parsers are deterministic functions of the bytes "
         "(validated boundedly, which already exposed two defects, now fixed); aliasing tracked by names rooted at self; decided by AST "
         "dataflow analysis, not SMT.",
    technique="contract-based verification of frame / effect / order-qualifier obligations per function by AST dataflow analysis; bounded native validation of assumed purity",
    design="DESIGN.md §3 C06")

CLAIMED["C17"] = dict(
    text="Coupling-invariant proof over all event sequences: each html.parser callback of the two real state machines (HTML tree builder, "
         "EPUB XHTML extractor) preserves the invariant between its fields and the spec region (None | (tag, depth)) written from the "
         "statement, for every tag string; hidden data and comments are never stored, visible data is always stored in exactly one place; "
         "reuse sites (mhtml, msg) and tag tables as ground obligations.",
    note="Assumed: html.parser's event contract (tokenisation); str.lower uninterpreted; the walker emitting every stored text is C02's; "
         "call-site obligations are syntactic (UNDECIDED when the shape is not recognised).",
    technique="contract-based deductive verification: coupling invariant per handler over the real AST, z3",
    design="DESIGN.md §3 C17")

CLAIMED["C03"] = dict(
    text="For every page/slide/sheet/chapter content type the real iterate_units is proved, over a list of symbolic length, to yield exactly "
         "one unit per element, in order, numbered by 1-based position (loop invariant over the yielded prefix), and get_full_text equals the "
         "stripped newline-join of the unit texts for the eleven formats of the statement; construction sites (PPT slide building, RTF pages) "
         "by symbolic execution, the others and the heading-section numbering by AST dataflow.",
    note="Assumed: fields of the content dataclasses hold values of their declared types; str.strip/join over symbolic sequences and re.sub "
         "uninterpreted; PPT record parsers return anything well-typed. Coverage of the body by heading-section units (docx/doc/odt) is NOT claimed; "
         "'unit k holds page k's text' for PDF/EPUB only as dataflow from the library call.",
    technique="contract-based deductive verification: loop invariants over yielded prefixes of symbolic-length lists on the real AST, z3; AST dataflow for construction sites",
    design="DESIGN.md §3 C03")

CLAIMED["C05"] = dict(
    text="The real serializer / deserializer bodies are symbolically executed against spec functions SER / DESER written from the "
         "statement (markers, binary -> null), with the recursion applied through the functions' own contracts; JSON-serialisability, "
         "round trip with the same type name and exact binary nulling are lemmas by structural induction over an SMT datatype of Python "
         "values; the dataclass registry (118 classes, 643 fields) is re-derived from the AST each run and every field hint shape must be "
         "covered by the lemmas. One format-level defect (marker keys from document content) is a recorded known finding; the round-trip "
         "theorem is proved outside it.",
    note="Assumed: base64 and json are inverse pairs, dataclass __init__, value kinds delivered by openpyxl/xlrd. 'from_json raises nothing on "
         "to_json output' is only checked natively (bounded: 580 type-directed instances + fixtures).",
    technique="contract-based deductive verification: symbolic execution of the real AST against spec functions + induction lemmas over an SMT datatype, z3",
    design="DESIGN.md §3 C05")

CLAIMED["C08"] = dict(
    text="Each encryption detector of the real code is proved equal to a spec predicate over an assumed container view (BIFF FILEPASS on "
         "the record chain with loop invariant and variant, DOC FIB flag, OLE stream names, ZIP flag bit before any read, 7z AES coder "
         "prefix, ODF manifest element, EPUB encryption.xml / rights.xml, PDF decrypt('') result) in both directions, and in 13 extractors "
         "plus read_file every path to the first yield passes the detector and a positive result escapes as the encrypted error.",
    note="Assumed: container views presented by olefile / zipfile / pypdf / ElementTree; an XML-name axiom; 'same content as the unencrypted "
         "original' for empty-password PDFs only checked natively; record-chain spec = explicit chain only BOUNDED for short streams.",
    technique="contract-based deductive verification: detector = spec predicate over assumed container views, typestate before first yield, z3 + AST dataflow",
    design="DESIGN.md §3 C08")

CLAIMED["C15"] = dict(
    text="HISTORIES ONLY. Frame conditions on process-global state: the PDF char-map patch is proved (symbolic execution of the real "
         "generator, exceptions thrown at the yield and close() included) to restore every patched attribute on every exit; the permanent "
         "AES patch installs only stateless functions; every module-level cache stores a value that depends on its key alone; _config has one "
         "writer; module-level mutable state matches the reviewed inventory; every handle opened by own code is closed on all paths; plus a "
         "bounded native validation (fixtures in isolation vs in long sequences).",
    note="SCHEDULES (thread interleavings) are NOT decided: per-call contracts cannot express interleavings and no tool of this family exists "
         "for Python threads -- that half of C15 is not claimed. Assumed: the with-body leaves patched attributes as found (= this obligation, "
         "for nested uses); the mimetypes database is constant; memo soundness is an AST parameter-dependency analysis.",
    technique="contract-based verification of frame conditions on module state: symbolic execution of the context-manager generator (z3) + AST dependency / typestate analysis",
    design="DESIGN.md §3 C15")

PENDING = {"C15": None}
CLAIMED["C19"] = dict(
    text="The recursive converter (nested process_element, verified modularly against its own contract at every recursive call, with a "
         "decreases measure on subtree size) is proved total (no exception for any OMML tree over the abstract ElementTree model), "
         "brace-balanced for brace-free trees (count homomorphism), and to render each structural tag by its documented template; symbol "
         "table invariants are ground obligations. Run order / exactly-once is only checked natively at small scope (BOUNDED).",
    note="Assumed: ElementTree API total over a finite tree (validated natively against xml.etree); tag is a str; axiom instances for "
         "uninterpreted character counts; RecursionError on very deep trees not modelled.",
    technique="contract-based deductive verification: modular recursion + homomorphism lemmas over the real AST, z3",
    design="DESIGN.md §3 C19")

CLAIMED["C13"] = dict(
    text="Proved for row lists of every length: get_dim() == (len(get_table()), max row length) and get_table() for all six table classes "
         "(symbolic lists, prefix invariants); typed values (xlsx _get_cell_value, xls _get_cell_value(s), _format_date_tuple: number->int when integral, "
         "bool, date->ISO text); the pptx table walker against the grid spec for a tree of symbolic shape (any rows x any ragged cells). All other walkers / "
         "sheet builders (docx, odt, odp, html, epub, xlsx, xls, ods, iterate_tables) are checked only as BOUNDED enumerations of a stated grammar "
         "(never counted as proved). 13 recorded known findings with native witnesses (nested tables in docx/odt/odp/html/epub, html paragraphs run "
         "together, epub inline markup, xlsx first row / title row, XLS dict rows F14, ods header-rows wrapper, xls time-only / unconvertible dates).",
    note="Assumed: ElementTree / html.parser / openpyxl / xlrd models (contracts/etree_model.py, C13.py ASSUMED_MODELS), paragraph-text helpers (C02), "
         "PY-COMP, PY-MAX, PY-FLOAT-REAL; ISO = RFC 3339 profile. Not decided: RTF tables, merged cells, ODS repeats > 100, docx tables in content controls.",
    technique="contract-based deductive verification: symbolic-length lists with prefix invariants over the real AST, z3; bounded exhaustive symbolic "
              "execution over tree shapes for the walkers (labelled BOUNDED)",
    design="DESIGN.md §3 C13")

from contracts.C18 import MANIFEST_ENTRY as _C18_ENTRY  # noqa: E402
CLAIMED["C18"] = dict(_C18_ENTRY)

CLAIMED["C14"] = dict(
    text="Target resolution: the shared helper is proved equal to the OPC resolution function for all strings (segment-fold loop invariant "
         "over z3 sequences) and every OOXML / EPUB read site is proved to go through it; the pixel-dimension sniffers are proved against "
         "the PNG / GIF / BMP / JPEG format specifications over a symbolic byte string (JPEG marker chain by a chain invariant, unbounded) "
         "and the three OOXML copies are proved to agree; numbering, payload dataflow, content type and the coincidence of unit and "
         "document views by loop invariants / AST dataflow. 22 obligations fail as recorded known findings (numbering restarts per "
         "slide/page, gaps after unreadable images, frame extent reported instead of pixel size, ordering by relationship file).",
    note="Assumed: split('/') / join uninterpreted, zip member reads, pypdf image decoding, mimetypes; behaviour outside each finding's "
         "exclusion only swept natively (bounded); content-type checks are syntactic.",
    technique="contract-based deductive verification: sequence/bit-vector VCs over the real AST (z3, cvc5) + AST dataflow at construction sites",
    design="DESIGN.md §3 C14")

CLAIMED["C16"] = dict(
    text="The glue between the e-mail libraries and the result objects is proved on the real AST: the mbox split returns exactly the "
         "slices between consecutive separator matches, in order (loop invariant over the processed prefix); a postcondition per "
         "EmailContent field for the mbox, eml and msg mappings; body selection = first text/plain and first text/html non-attachment part "
         "in walk() order; attachment routing through the C07 router; only the encrypted error escapes attachment iteration. One "
         "recorded known finding: mbox results carry no attachments.",
    note="Assumed (uninterpreted, listed in evidence): stdlib email API, mailparser attribute shapes, msg_parser properties, re.finditer, "
         "bytes.decode raising only LookupError. RFC 2047 / MIME decoding correctness itself lives in those libraries and is NOT decided.",
    technique="contract-based deductive verification: glue contracts over assumed library contracts, loop invariants on the real AST, z3",
    design="DESIGN.md §3 C16")

CLAIMED["C04"] = dict(
    text="Interface obligations over the real AST: get_dim() equals the shape of get_table() for all table classes (symbolic rows); "
         "get_bytes() of every image class returns a stream at position 0 over the stored payload and every image constructor call site "
         "passes size_bytes == len(payload) and a positive number; populate_from_path; about 110 accessors raise nothing on well-typed "
         "objects; well-formed Unicode as a refinement predicate with an obligation at every chr() / decode() site of own code; metadata "
         "readers copy each documented property unchanged. Two recorded known findings (document-chosen codecs that decode to surrogates).",
    note="Assumed: fields hold their declared types; models of io.BytesIO, pathlib, float/round, CPython codecs; strings produced inside "
         "third-party libraries are well-formed (stdlib email is an open case); the fixture sweep of all accessors is a validation, not a proof.",
    technique="contract-based deductive verification: accessor contracts + refinement-predicate obligations at character sources over the real AST, z3; AST dataflow at constructor sites",
    design="DESIGN.md §3 C04")

CLAIMED["C02"] = dict(
    text="GIVEN the parsed tree / cell grid (bytes -> tree parsing by third-party parsers is out of reach), the library's own walkers are "
         "proved to emit exactly the text the statement prescribes: the recursive ODF text walker equals a spec function (modular recursion, "
         "loop invariant over a symbolic-length child list), the DOCX paragraph / body walk, the HTML node walk, slide text assembly and the "
         "XLS sheet formatter against spec functions using a whitespace-erasing homomorphism. 137 further obligations (table text, ODT/ODG "
         "full text, ODS/XLSX formatters, PPTX paragraphs, 35 document features per format through the public entry points) are only BOUNDED "
         "checks and are not counted. 13 recorded known findings (e.g. DOCX tab/break runs merge neighbours, nested lists/tables duplicated).",
    note="Assumed: ElementTree model (validated boundedly against xml.etree), str / regex / join models, w:tab/br/cr are empty elements. "
         "NOT decided: fidelity of zip / XML / OLE / PDF parsing, RTF stripping, PPT record walk, PDF text reconstruction.",
    technique="contract-based deductive verification: walkers = spec functions over an abstract tree (modular recursion, loop invariants), z3; bounded enumeration for the rest (labelled)",
    design="DESIGN.md §3 C02")

CLAIMED["C10"] = dict(
    text="Layered contracts on the real 7z reader and the archive member loops: _read_number equals the 7z NUMBER spec for every byte "
         "stream (bit-vectors); _build_file_list maps the r-th stream-bearing file to the folder k with cum(k) <= r < cum(k+1) for any number "
         "of files / folders; extractall hands every folder the slice archive[pack_pos + sum(pack_sizes[:k]) : +pack_sizes[k]] through the "
         "coder chain (fails on the unfixed tree: F10, fix proposed); member j of a folder is the slice at the sum of the earlier sizes; the "
         "ZIP / TAR / 7z loops select the visible supported members in container order and dispatch each with its own bytes, name, base-name "
         "extractor and archive!/member path, a failing member affecting only itself; magic-byte table and tar modes. Header parsers "
         "(_read_boolean_vector, PackInfo, UnpackInfo, Folder, SubStreamsInfo) are BOUNDED checks against the format grammar (never counted as proved). "
         "Three recorded known findings (7z empty file taken for a directory; plain TAR whose first name starts with another magic; empty plain TAR).",
    note="Assumed: decode (copy/LZMA/LZMA2), zipfile/tarfile member reads, the member extractors and the file system are uninterpreted (Trust); "
         "lists built by append are the appended values in order (PY-LIST-ORDER); writers' invariants of the 7z format as preconditions; the "
         "end-to-end statement is the composition of the layer contracts. Native replay: zipfile / tarfile / an independent minimal 7z writer.",
    technique="contract-based deductive verification: bit-vector and integer-sequence VCs with prefix-sum lemmas over the real AST, "
              "per-iteration ghost-event loop invariants, z3; native differential replay",
    design="DESIGN.md §3 C10")

PENDING = {}

ALL = [f"C{i:02d}" for i in range(1, 21)]


def main():
    checks = []
    for pid, d in sorted(CLAIMED.items()):
        checks.append({
            "property_id": pid,
            "quick_cmd": f"./check {pid} --tier quick",
            "thorough_cmd": f"./check {pid} --tier thorough",
            "evidence_file": f"/verif/evidence/{pid}.json",
            "replay_cmd_template": f"./check {pid} --replay {{path}}",
            "engine": "pyvc",
            "level_claimed": {"category": "proof", "text": d["text"], "design_ref": d["design"]},
            "level_note": d["note"],
            "technique": d["technique"],
        })
    na = []
    for pid in ALL:
        if pid not in CLAIMED:
            na.append({"property_id": pid, "reason": PENDING.get(pid, "contract pack not built yet in this session; "
                                                                 "no check is claimed (see DESIGN.md §3 for the plan)")})
    m = {
        "version": 1,
        "setup_cmd": "python3-vt -c 'import z3' && test -x /venv/bin/python && mkdir -p out/replays evidence",
        "hooks": {"guard": "SHAREPOINT2TEXT_VERIF", "enable": "none needed: sidecar contracts, /repo is read, never edited by checks",
                  "baseline_off_cmd": "cd /repo && /venv/bin/python -m pytest -ra -q -p no:cacheprovider --timeout=900 --continue-on-collection-errors",
                  "source_commits": [], "add_only": True},
        "engines": [{"name": "pyvc", "path": "/verif/pyvc", "serves_properties": sorted(CLAIMED),
                     "kind_free_text": "VC generator from the Python AST of the real source + sidecar contracts; z3/cvc5 back ends; native replay under /venv"}],
        "checks": checks,
        "not_applicable": na,
        "notes": "Exit codes of ./check: 0 held, 1 VIOLATION, 2 UNDECIDED (never a violation), 3 engine error / vacuity guard.",
    }
    json.dump(m, open("MANIFEST.json", "w"), indent=1)


if __name__ == "__main__":
    main()
