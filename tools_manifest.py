"""Regenerates MANIFEST.json from the table below (keeps it schema-valid at all times)."""
import json

CLAIMED = {
    "C11": dict(
        text="Deductive proof, for all entry vectors of every length and all limit settings, that validate_zipfile "
             "(real AST, re-read each run) rejects with the zip-bomb error iff the spec predicate written from the "
             "statement holds (loop invariant + induction lemma), plus policy/typestate obligations that containers "
             "are validated before any member read.",
        note="Assumed: zipfile.ZipFile.infolist() returns the finite entry list with non-negative integer sizes; "
             "float ratio comparison treated as real arithmetic (PY-FLOAT-REAL); limits non-negative; pyvc engine, z3, cvc5.",
        technique="contract-based deductive verification: AST->VC generation over the real source, loop invariants, z3/cvc5",
        design="DESIGN.md §3 C11"),
}

CLAIMED["C07"] = dict(
    text="Deductive proof over a symbolic path string: both router entry points (real AST) equal one spec predicate built "
         "from the statement, with os.path.splitext and mimetypes.guess_type uninterpreted (so: for every MIME database); "
         "alias=base, per-extension routing and documentation tables as lemmas / ground table invariants.",
    note="Assumed: splitext axioms A1-A3 (+A5 instances), guess_type total/deterministic, importlib succeeds for registry modules; "
         "str.lower uninterpreted; pyvc engine, z3 sequence solver, cvc5.",
    technique="contract-based deductive verification: AST->VC generation over the real source, string VCs in z3/cvc5",
    design="DESIGN.md §3 C07")
CLAIMED["C20"] = dict(
    text="Deductive proof that every table, GF(2^8) helper, round function, the key expansion for Nk=4,6,8 and block "
         "encrypt/decrypt of the real module equal an independently written FIPS-197 specification over 8-bit vectors, "
         "for all keys and blocks; inverse lemmas; known-answer vectors guard the spec.",
    note="Assumed: spec transcription (checked on FIPS-197 App. A/C and SP 800-38A vectors each run); bytes are immutable ints in [0,256); "
         "secrets.token_bytes freshness not expressible; pyvc engine, z3.",
    technique="contract-based deductive verification: AST->VC generation over the real source, bit-vector VCs in z3",
    design="DESIGN.md §3 C20")

CLAIMED["C01"] = dict(
    text="Exceptional postcondition proved by symbolic execution of the real bodies under EXC-ANY (every un-contracted call may "
         "raise any Exception subclass): only the ExtractionError family can leave any of the 21 registered extractor generators, "
         "read_file (plus the documented OSError from stat/open), nothing leaves the archive-member wrapper; the CLI returns 0 with "
         "output or 1 with clean stdout and exactly one stderr line. Termination (decreases) obligations are not yet claimed.",
    note="Assumed: third-party parsers terminate; BaseException-only classes and MemoryError/RecursionError not modelled; argparse raises only "
         "SystemExit; sys.stdout.write is atomic w.r.t. encoding errors; merge mode widens values (over-approximation, sound for this safety property).",
    technique="contract-based deductive verification: exceptional postconditions by symbolic execution of the real AST under EXC-ANY, z3",
    design="DESIGN.md §3 C01")

CLAIMED["C09"] = dict(
    text="_safe_join is proved (string VCs, os.path functions uninterpreted) to return only paths inside its base or raise; every "
         "file-system call reached when re-reading extracted 7z members carries a discharged confinement obligation for arbitrary member "
         "names; the skip predicate equals its spec; policy obligations from the AST: file-system calls only at allow-listed sites, ZIP/TAR "
         "loops have no file-system effect, only regular tar members are read, skip rules dominate every dispatch, the temp dir is a with-block.",
    note="Assumed: a normalised absolute path under abspath(base)+sep is inside base (no symlinks created by the reader); OS-level races; what "
         "third-party extractors do with member bytes; policy obligations are decided by AST dataflow (back end 'dataflow'), not SMT.",
    technique="contract-based deductive verification: string VCs over the real AST + file-system effect obligations, z3; AST dominance analysis",
    design="DESIGN.md §3 C09")

CLAIMED["C12"] = dict(
    text="The explicit limits are proved as exact contracts on the real code (read_file refuses size > max_file_size > 0 before open(), "
         "0 disables; 7z archives above 100 MB refused before parsing, the boundary accepted; per-member size checks dominate every "
         "member read) and every repetition whose count comes from the input carries a bound obligation. Four such obligations fail on "
         "the unchanged tree and are recorded known findings (ODS repeat attributes, text:s count, 7z oversize members decompressed).",
    note="NOT decided: peak memory / run time as quantities; amplification inside olefile, lzma/deflate, openpyxl (out of reach of contracts on "
         "this repository). Assumed: stat().st_size, BytesIO seek/tell model, defusedxml forbids entity expansion; dominance by AST dataflow.",
    technique="contract-based deductive verification: exact limit contracts + amplification-site obligations over the real AST, z3; AST dominance analysis",
    design="DESIGN.md §3 C12")

CLAIMED["C10"] = dict(
    text="Layered contracts on the real 7z reader and the archive member loops: _read_number equals the 7z NUMBER spec for every byte "
         "stream (bit-vectors); _build_file_list maps the r-th stream-bearing file to the folder k with cum(k) <= r < cum(k+1) for any number "
         "of files / folders; extractall hands every folder the slice archive[pack_pos + sum(pack_sizes[:k]) : +pack_sizes[k]] through the "
         "coder chain (fails on the unfixed tree: F10, fix proposed); member j of a folder is the slice at the sum of the earlier sizes; the "
         "ZIP / TAR / 7z loops select the visible supported members in container order and dispatch each with its own bytes, name, base-name "
         "extractor and archive!/member path, a failing member affecting only itself; magic-byte table and tar modes. Header parsers "
         "(_read_boolean_vector, PackInfo, UnpackInfo, Folder, SubStreamsInfo) are BOUNDED checks against the format grammar (never counted as proved). "
         "Three recorded known findings (7z empty file taken for a directory; plain TAR whose first name starts with another magic; empty plain TAR).",
    note="Assumed: decode (copy/LZMA/LZMA2), zipfile/tarfile member reads, the member extractors and the file system are uninterpreted (Trust); "
         "lists built by append are the appended values in order (PY-LIST-ORDER); writers' invariants of the 7z format as preconditions; the "
         "end-to-end statement is the composition of the layer contracts. Native replay: zipfile / tarfile / an independent minimal 7z writer.",
    technique="contract-based deductive verification: bit-vector and integer-sequence VCs with prefix-sum lemmas over the real AST, "
              "per-iteration ghost-event loop invariants, z3; native differential replay",
    design="DESIGN.md §3 C10")

PENDING = {}

ALL = [f"C{i:02d}" for i in range(1, 21)]


def main():
    checks = []
    for pid, d in sorted(CLAIMED.items()):
        checks.append({
            "property_id": pid,
            "quick_cmd": f"./check {pid} --tier quick",
            "thorough_cmd": f"./check {pid} --tier thorough",
            "evidence_file": f"/verif/evidence/{pid}.json",
            "replay_cmd_template": f"./check {pid} --replay {{path}}",
            "engine": "pyvc",
            "level_claimed": {"category": "proof", "text": d["text"], "design_ref": d["design"]},
            "level_note": d["note"],
            "technique": d["technique"],
        })
    na = []
    for pid in ALL:
        if pid not in CLAIMED:
            na.append({"property_id": pid, "reason": PENDING.get(pid, "contract pack not built yet in this session; "
                                                                 "no check is claimed (see DESIGN.md §3 for the plan)")})
    m = {
        "version": 1,
        "setup_cmd": "python3-vt -c 'import z3' && test -x /venv/bin/python && mkdir -p out/replays evidence",
        "hooks": {"guard": "SHAREPOINT2TEXT_VERIF", "enable": "none needed: sidecar contracts, /repo is read, never edited by checks",
                  "baseline_off_cmd": "cd /repo && /venv/bin/python -m pytest -ra -q -p no:cacheprovider --timeout=900 --continue-on-collection-errors",
                  "source_commits": [], "add_only": True},
        "engines": [{"name": "pyvc", "path": "/verif/pyvc", "serves_properties": sorted(CLAIMED),
                     "kind_free_text": "VC generator from the Python AST of the real source + sidecar contracts; z3/cvc5 back ends; native replay under /venv"}],
        "checks": checks,
        "not_applicable": na,
        "notes": "Exit codes of ./check: 0 held, 1 VIOLATION, 2 UNDECIDED (never a violation), 3 engine error / vacuity guard.",
    }
    json.dump(m, open("MANIFEST.json", "w"), indent=1)


if __name__ == "__main__":
    main()
