"""Native replay for C09: member names / member kinds that try to redirect I/O, on the real functions and on real archives.

`find` runs (a) function-level checks of the 7z read-back loop, `_safe_join` and the skip rule, (b) the archive-level probes of
`replay/C09_probe.py` (hostile ZIP / TAR / 7z corpus under a file-system observer, temp dir lifetime under every consumer history,
skip rules in every format, oversize members).  The obligation that asked for the replay only decides which probe runs first.
Round 5: sibling directories whose names extend the private directory's name (character-wise prefix tests); the two BOUNDED collision scopes
(`name_collisions_7z`, `name_collisions_7z_known_temp_name` with tempfile's name sequence pinned) run only for their own obligations.
Round 6: nested-archive names with decoration after the extension (trailing dots / blanks, URL / version marks) in the skip-rule corpus; 7z entries
that are left out (unsafe names) followed by ordinary members of the same folder (`rejected_entries_7z`); extraction failing with neither
Bad7zFile nor OSError (directory levels beyond the recursion limit) in `histories`; `nested_alias_members` only for its own obligation."""
import os
import sys
import tempfile

sys.path.insert(0, os.path.dirname(os.path.abspath(__file__)))

NAMES = ("/etc/passwd", "../x", "a/../../x", "..", "a/../..", "\\\\x", "C:\\x", "a/b", "", ".", "a/./b", "a//b", "..\\x.txt", "..\\..\\x.txt",
         "a\\..\\..\\..\\x.txt", "..\\../x.txt", "a/..\\..\\x", "~/x", "a/../b", "./../x", "a/b/../../../x", "\\x", "//x", "x" * 300)


def _real_inside(base, r):
    rb = os.path.realpath(os.path.abspath(base))
    rr = os.path.realpath(os.path.abspath(r))
    return rr == rb or rr.startswith(rb + os.sep)


def function_level():
    from sharepoint2text.parsing.extractors import archive_extractor as ae
    from sharepoint2text.parsing.extractors.util import sevenzip
    with tempfile.TemporaryDirectory() as host, tempfile.TemporaryDirectory() as temp_dir:
        canary = os.path.join(host, "canary.txt")
        with open(canary, "w") as fh:
            fh.write("HOST-SECRET-CONTENT")
        rel = os.path.relpath(canary, temp_dir)
        # directories NEXT TO the private one whose names extend its name (a character-wise prefix test lets them through)
        bn = os.path.basename(temp_dir)
        siblings = []
        for suffix in ("_sib", "x", ".bak", "-2"):
            d = temp_dir + suffix
            os.mkdir(d)
            siblings.append(d)
            with open(os.path.join(d, "canary.txt"), "w") as fh:
                fh.write("HOST-SECRET-CONTENT")
        near = tuple(f"../{bn}{sfx}/canary.txt" for sfx in ("_sib", "x", ".bak", "-2")) + (f"a/../../{bn}x/canary.txt", f"../{bn.upper()}/canary.txt")
        try:
            return _function_level(ae, sevenzip, temp_dir, canary, rel, near, bn)
        finally:
            import shutil
            for d in siblings:
                shutil.rmtree(d, ignore_errors=True)


def _function_level(ae, sevenzip, temp_dir, canary, rel, near, bn):
    if True:
        seq = getattr(ae, "_process_7z_files_sequential", None)
        if seq is not None:
            for name in (canary, rel, "sub/../" + rel, "/" + canary, rel.replace("/", "\\"), "..\\" + rel) + near:
                try:
                    res = list(seq([(None, name, "canary.txt")], temp_dir, "a.7z"))
                except Exception as e:  # noqa   the read-back loop handles every per-member failure itself
                    return {"reproduced": True, "target": "archive_extractor.py::_process_7z_files_sequential",
                            "inputs": {"member_name": name, "temp_dir": "<private temp dir>"},
                            "expected": "no exception leaves the read-back loop", "observed": f"{type(e).__name__}: {e}"}
                for r in res:
                    if "HOST-SECRET-CONTENT" in r.get_full_text():
                        return {"reproduced": True, "target": "archive_extractor.py::_process_7z_files_sequential",
                                "inputs": {"member_name": name, "temp_dir": "<private temp dir>", "host_file": "<file outside it>"},
                                "expected": "no content of a host file outside the private temporary directory appears in results",
                                "observed": "result text = content of the host file"}
        # _safe_join on a hostile name grammar
        sj = getattr(sevenzip, "_safe_join", None)
        if sj is not None:
            for base in (temp_dir, os.path.relpath(temp_dir), temp_dir + "/"):
                for name in NAMES + (canary, rel) + near + (f"../{bn}x", f"../{bn}_sib/new/file.txt", f"../{bn}", f"../{bn}/inner.txt", f"../{bn}x/../{bn}/ok.txt"):
                    try:
                        r = sj(base, name)
                    except sevenzip.Bad7zFile:
                        continue
                    except Exception as e:  # noqa
                        return {"reproduced": True, "target": "sevenzip.py::_safe_join", "inputs": {"base_dir": base, "relative_path": name},
                                "expected": "path inside base or Bad7zFile", "observed": f"{type(e).__name__}: {e}"}
                    if not _real_inside(base, r):
                        return {"reproduced": True, "target": "sevenzip.py::_safe_join", "inputs": {"base_dir": base, "relative_path": name},
                                "expected": "path inside base or Bad7zFile", "observed": r}
        # skip rules
        skip = getattr(ae, "_should_skip_file", None)
        if skip is not None:
            table = ((".hidden.txt", ".hidden.txt", True), ("__MACOSX/a.txt", "a.txt", True), ("d/a.zip", "a.zip", True),
                     ("d/a.tar.gz", "a.tar.gz", True), ("a.exe", "a.exe", True), ("d/a.txt", "a.txt", False), ("A.TXT", "A.TXT", False),
                     ("x.7Z", "x.7Z", True), ("b.tar.bz2", "b.tar.bz2", True), ("c.TAR.XZ", "c.TAR.XZ", True), ("t.tgz", "t.tgz", True), ("t.tbz2", "t.tbz2", True),
                     ("t.txz", "t.txz", True), ("t.tar", "t.tar", True), ("docs/r.md", "r.md", False), ("__MACOSX/r.md", "r.md", True), ("e/r.md", "r.md", False),
                     ("sub/.r.md", ".r.md", True), ("__MACOSX/d/a.txt", "a.txt", True), ("d/a.txt", "a.txt", False))
            for fn, bn, want in table:
                try:
                    got = skip(fn, bn)
                except Exception as e:  # noqa
                    got = f"{type(e).__name__}: {e}"
                if got is not want:
                    return {"reproduced": True, "target": "archive_extractor.py::_should_skip_file", "inputs": {"filename": fn, "basename": bn},
                            "expected": f"skip == {want}", "observed": f"skip == {got!r}"}
    return None


def find(req):
    import archive_probe
    import C09_probe as P
    oid = (req or {}).get("obligation") or ""
    if "read-back-path-identifies-one-member-when-the-temp-dir-name-is-known" in oid or (req or {}).get("known_finding") == "C09-7z-read-back-collision-through-temp-dir-name":
        # a recorded defect of the unchanged tree: probed only for its own obligation, never as a witness for another one
        r = P.name_collisions_7z_known_temp_name()
        return r if r is not None else {"reproduced": False, "note": "7z entries re-entering the private directory through its name: no selected member gave another entry's bytes"}
    if "read-back-path-identifies-one-member" in oid or (req or {}).get("known_finding") == "C09-7z-read-back-by-path-collisions":
        # a recorded defect of the unchanged tree: probed only for its own obligation, never as a witness for another one
        r = P.name_collisions_7z()
        return r if r is not None else {"reproduced": False, "note": "7z entries sharing one path: no selected member gave another entry's bytes"}
    if "names-routed-to-the-archive-reader" in oid or (req or {}).get("known_finding") == "C09-nested-archive-aliases-are-dispatched":
        # a recorded defect of the unchanged tree: probed only for its own obligation, never as a witness for another one
        r = P.nested_alias_members()
        return r if r is not None else {"reproduced": False, "note": "members named .gz / .bz2 / .xz / .taz / .tz (router: archive reader) gave no result"}
    hint = (req or {}).get("extra") or {}
    first = tuple(hint.get("first", ())) if isinstance(hint, dict) else ()
    probes = [("function-level", function_level), ("confinement", lambda: P.confinement(first)), ("histories", P.histories), ("skip-rules", P.skip_rules),
              ("oversize", archive_probe.oversize_members), ("oversize-7z", P.oversize_7z), ("declared-sizes", P.declared_sizes),
              ("rejected-entries", P.rejected_entries_7z)]
    pref = []
    if "skip" in oid or "router" in oid or "routing" in oid:
        pref = ["skip-rules", "function-level"] if "rout" in oid else ["function-level", "skip-rules"]
    elif "declared" in oid or "bytes-written" in oid:
        pref = ["declared-sizes", "rejected-entries"]
    elif "oversize" in oid or "size" in oid:
        pref = ["oversize", "oversize-7z", "declared-sizes"]
    elif "temp-dir" in oid:
        pref = ["histories"]
    elif "regular" in oid or "file-system" in oid or "fs-confined" in oid or "path" in oid:
        pref = ["confinement"]
    probes.sort(key=lambda p: pref.index(p[0]) if p[0] in pref else len(pref))
    notes = []
    import shutil
    scratch = tempfile.mkdtemp(prefix="c09replay_cwd_")       # broken code under test may write relative to the cwd: keep that out of /verif
    home = os.getcwd()
    os.chdir(scratch)
    try:
        return _run(probes, notes)
    finally:
        os.chdir(home)
        shutil.rmtree(scratch, ignore_errors=True)


def _run(probes, notes):
    for name, fn in probes:
        try:
            r = fn()
        except Exception as e:  # noqa  a probe that breaks is not a reproduction
            import traceback
            notes.append(f"probe {name} crashed: {traceback.format_exc()[-400:]}")
            continue
        if r is not None:
            r["probe"] = name
            return r
    return {"reproduced": False, "note": "hostile member names / member kinds could not redirect I/O natively; temp dir gone after every consumer history; "
                                         "hidden / nested / unsupported / oversize / non-regular members gave no result", "probe_notes": notes}


def rerun(stored):
    return find({"obligation": (stored or {}).get("obligation")})
