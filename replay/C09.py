"""Native replay for C09: member names that try to redirect I/O, on the real functions."""
import os
import sys
import tempfile

sys.path.insert(0, os.path.dirname(os.path.abspath(__file__)))


def find(req):
    from sharepoint2text.parsing.extractors import archive_extractor as ae
    from sharepoint2text.parsing.extractors.util import sevenzip
    with tempfile.TemporaryDirectory() as host, tempfile.TemporaryDirectory() as temp_dir:
        canary = os.path.join(host, "canary.txt")
        open(canary, "w").write("HOST-SECRET-CONTENT")
        rel = os.path.relpath(canary, temp_dir)
        for name in (canary, rel, "sub/../" + rel):
            try:
                res = list(ae._process_7z_files_sequential([(None, name, "canary.txt")], temp_dir, "a.7z"))
            except Exception as e:  # noqa
                res = []
            for r in res:
                if "HOST-SECRET-CONTENT" in r.get_full_text():
                    return {"reproduced": True, "target": "archive_extractor.py::_process_7z_files_sequential",
                            "inputs": {"member_name": name, "temp_dir": "<private temp dir>", "host_file": "<file outside it>"},
                            "expected": "no content of a host file outside the private temporary directory appears in results",
                            "observed": "result text = content of the host file"}
        # _safe_join on a hostile name grammar
        base = temp_dir
        for name in ("/etc/passwd", "../x", "a/../../x", "..", "a/../..", "\\\\x", "C:\\x", "a/b", "", ".", "a/./b", "a//b"):
            try:
                r = sevenzip._safe_join(base, name)
            except sevenzip.Bad7zFile:
                continue
            ab = os.path.abspath(base)
            if not (r == base or r == ab or r.startswith(ab + os.sep)):
                return {"reproduced": True, "target": "sevenzip.py::_safe_join", "inputs": {"relative_path": name},
                        "expected": "path inside base or Bad7zFile", "observed": r}
        # skip rules
        for fn, bn, want in ((".hidden.txt", ".hidden.txt", True), ("__MACOSX/a.txt", "a.txt", True), ("d/a.zip", "a.zip", True),
                             ("d/a.tar.gz", "a.tar.gz", True), ("a.exe", "a.exe", True), ("d/a.txt", "a.txt", False), ("A.TXT", "A.TXT", False),
                             ("x.7Z", "x.7Z", True)):
            if ae._should_skip_file(fn, bn) != want:
                return {"reproduced": True, "target": "archive_extractor.py::_should_skip_file", "inputs": {"filename": fn, "basename": bn},
                        "expected": f"skip == {want}", "observed": f"skip == {not want}"}
    import archive_probe
    r = archive_probe.oversize_members()
    if r is not None:
        return r
    return {"reproduced": False, "note": "hostile member names could not redirect I/O natively; oversize members (incl. records sharing a name) gave no result"}


def rerun(stored):
    return find({})
