"""Native replay for C17 (runs under /venv/bin/python on the REAL code; no z3).

1. A witness of a refuted handler obligation (ghost region rho, event) is turned
   into an event sequence: reach the pre-state by Start(T) x (n+1), deliver the
   witness event, then probe -- data that the spec says is hidden / visible, close
   the region as the spec says, data that must be visible again.  The sequence is
   replayed (a) by calling the real handler methods directly and (b) as markup
   (Start(t) -> <t>, End(t) -> </t>, Data(d) -> d; html.parser's tokenisation is
   checked to reproduce the events) through read_html, read_mhtml, the MSG body
   converter and an EPUB chapter.
2. Otherwise / additionally: a small grammar of visible blocks interleaved with
   removable elements (void children, self-closing forms, unclosed / mis-nested /
   stray end tags, nested removable elements, comments, CDATA) is enumerated; the
   expected hidden / visible token sets come from html.parser's own event stream
   classified by the region spec of the property (transcribed here in Python).
"""
import io
import itertools
import re
import zipfile
from html.parser import HTMLParser

REMOVE = frozenset({"script", "style", "noscript", "iframe", "object", "embed", "applet"})
VOID = frozenset({"area", "base", "br", "col", "embed", "hr", "img", "input", "link", "meta", "param", "source", "track", "wbr"})


# ---------------------------------------------------------------- native spec --
def step(rho, ev):
    kind, t = ev
    if kind == "S":
        t = t.lower()
        if rho is None:
            return (t, 0) if (t in REMOVE and t not in VOID) else None
        return (rho[0], rho[1] + 1) if t == rho[0] else rho
    if kind == "E":
        t = t.lower()
        if rho is not None and t == rho[0]:
            return None if rho[1] == 0 else (rho[0], rho[1] - 1)
        return rho
    return rho


def classify(events):
    """-> (visible data list, hidden data list) by the spec; comments are always hidden."""
    rho, vis, hid = None, [], []
    for ev in events:
        if ev[0] == "D":
            (hid if rho is not None else vis).append(ev[1])
        elif ev[0] == "C":
            hid.append(ev[1])
        else:
            rho = step(rho, ev)
    return vis, hid


class Recorder(HTMLParser):
    def __init__(self):
        super().__init__(convert_charrefs=True)
        self.ev = []

    def handle_starttag(self, tag, attrs):
        self.ev.append(("S", tag))

    def handle_endtag(self, tag):
        self.ev.append(("E", tag))

    def handle_data(self, data):
        if self.ev and self.ev[-1][0] == "D":
            self.ev[-1] = ("D", self.ev[-1][1] + data)
        else:
            self.ev.append(("D", data))

    def handle_comment(self, data):
        self.ev.append(("C", data))

    def unknown_decl(self, data):
        self.ev.append(("C", data))


def tokenise(markup):
    """Reference event stream: html.parser's feed() with its default configuration.  close() is NOT called (the library
    never calls it: call-site obligation); an unterminated construct at the end of the input stays buffered, i.e. hidden."""
    r = Recorder()
    r.feed(markup)
    return r.ev


def expected(markup):
    """(visible data, hidden data) of a document: reference events classified by the region spec; every token of the
    markup that is not visible data (comment text, buffered remainder, attribute values) is expected to be absent."""
    try:
        ev = tokenise(markup)
    except Exception as e:  # noqa
        # html.parser itself refuses the document (malformed marked section): there is no reference event stream, hence no
        # visible text to insist on -- but whatever the reader returns must still not contain the content written as removed
        return [("X", f"{type(e).__name__}: {e}")], [], sorted(t for t in tokens([markup]) if t.startswith("HID"))
    vis, hid = classify(ev)
    rest = sorted(tokens([markup]) - tokens(vis) - tokens(hid))
    return ev, vis, hid + rest


TOKEN = re.compile(r"(?:VIS|HID)[a-z0-9]+")      # VISaVISb (inline neighbours) splits into two tokens


def tokens(texts):
    out = set()
    for t in texts:
        out |= set(TOKEN.findall(t))
    return out


# ------------------------------------------------------------------- observers --
def run_handlers(cls_name, events):
    """Call the real handler methods directly (function-level replay)."""
    if cls_name == "html":
        from sharepoint2text.parsing.extractors.html_extractor import _HtmlTreeBuilder, _HtmlTextExtractor
        p = _HtmlTreeBuilder()
    else:
        from sharepoint2text.parsing.extractors.epub_extractor import _XhtmlTextExtractor
        p = _XhtmlTextExtractor()
    for ev in events:
        if ev[0] == "S":
            p.handle_starttag(ev[1], [])
        elif ev[0] == "E":
            p.handle_endtag(ev[1])
        elif ev[0] == "D":
            p.handle_data(ev[1])
        elif ev[0] == "C":
            p.handle_comment(ev[1])
    if cls_name == "html":
        stored = []

        def walk(n):
            stored.append(n["text"])
            for ch in n["children"]:
                walk(ch)
            stored.append(n["tail"])
        walk(p.get_tree())
        return "\n".join(stored) + "\n" + _HtmlTextExtractor(p.get_tree()).extract()
    return p.get_text() + "\n" + p.get_title() + "\n" + repr(p.get_tables())


def via_html(markup):
    from sharepoint2text.parsing.extractors.html_extractor import read_html
    return next(read_html(io.BytesIO(markup.encode("utf-8")))).content


def via_mhtml(markup):
    from sharepoint2text.parsing.extractors.mhtml_extractor import read_mhtml
    body = ("From: <Saved by Test>\r\nSubject: t\r\nMIME-Version: 1.0\r\n"
            "Content-Type: multipart/related; type=\"text/html\"; boundary=\"----=_B\"\r\n\r\n"
            "------=_B\r\nContent-Type: text/html; charset=\"utf-8\"\r\nContent-Transfer-Encoding: 8bit\r\n"
            "Content-Location: http://x/\r\n\r\n" + markup + "\r\n------=_B--\r\n")
    return next(read_mhtml(io.BytesIO(body.encode("utf-8")))).content


def via_mhtml_nonstandard(markup):
    """A non-standard archive (no top-level MIME header block, one text/html part): read_mhtml's fallback locates the part by
    its Content-Type line and the next boundary line."""
    from sharepoint2text.parsing.extractors.mhtml_extractor import read_mhtml
    body = ("Saved by a tool that writes no message header\nContent-Type: text/html; charset=\"utf-8\"\n\n" + markup
            + "\n------=_NextPart_000_0000_01D0--\n")
    return next(read_mhtml(io.BytesIO(body.encode("utf-8")))).content


def via_mhtml_header_object(markup):
    """A proper single-part MIME message whose Content-Transfer-Encoding value carries a non-ASCII byte: `part.get(...)` is then an
    `email.header.Header` object, not a str (recorded finding C17-mhtml-decode-content-raises-on-header-object)."""
    from sharepoint2text.parsing.extractors.mhtml_extractor import read_mhtml
    body = (b"From: <Saved by Test>\r\nSubject: t\r\nMIME-Version: 1.0\r\nContent-Type: text/html; charset=\"utf-8\"\r\n"
            b"Content-Transfer-Encoding: 8bit\xe9\r\n\r\n" + markup.encode("utf-8") + b"\r\n")
    return next(read_mhtml(io.BytesIO(body))).content


def header_object_wrappers():
    return [("read_mhtml (MIME message, non-ASCII transfer-encoding header)", via_mhtml_header_object)]


def via_msg(markup):
    from sharepoint2text.parsing.extractors.mail.msg_email_extractor import _html_to_text
    return _html_to_text(markup)


def via_epub(markup):
    from sharepoint2text.parsing.extractors.epub_extractor import read_epub
    buf = io.BytesIO()
    with zipfile.ZipFile(buf, "w") as z:
        z.writestr("mimetype", "application/epub+zip")
        z.writestr("META-INF/container.xml",
                   '<?xml version="1.0"?><container version="1.0" xmlns="urn:oasis:names:tc:opendocument:xmlns:container">'
                   '<rootfiles><rootfile full-path="OEBPS/content.opf" media-type="application/oebps-package+xml"/></rootfiles></container>')
        z.writestr("OEBPS/content.opf",
                   '<?xml version="1.0"?><package xmlns="http://www.idpf.org/2007/opf" version="3.0" unique-identifier="id">'
                   '<metadata xmlns:dc="http://purl.org/dc/elements/1.1/"><dc:title>T</dc:title><dc:identifier id="id">x</dc:identifier></metadata>'
                   '<manifest><item id="c1" href="c1.xhtml" media-type="application/xhtml+xml"/></manifest>'
                   '<spine><itemref idref="c1"/></spine></package>')
        z.writestr("OEBPS/c1.xhtml", markup)
    book = next(read_epub(io.BytesIO(buf.getvalue()), path="t.epub"))
    if not book.chapters:
        return "<no chapter extracted>"
    # chapter text + what the chapter keeps elsewhere (table cells, <title>)
    return "\n".join(f"{ch.text}\n{ch.title}\n{ch.tables!r}" for ch in book.chapters)


HINT = re.compile(r"<(html|head|body|p|div|br|span|table|tr|td|style|script)>", re.IGNORECASE)


def is_html_body(body):
    """Reference notion of an HTML mail body (position independent): an element of the hint vocabulary, <html or <body
    occurs anywhere, or the body starts with a doctype."""
    low = body.lstrip().lower()
    return low.startswith("<!doctype") or "<html" in low or "<body" in low or HINT.search(body) is not None


_REAL_MSG = {}
ROUTE_SAMPLE = None      # documents sent through the real MSG reader by the bulk search (the rest: emulated routing statement)


def via_msg_route(markup, real_reader=None):
    """The body as read_msg_format_mail routes it: the real reader on the repository's basic_email.msg fixture with only the
    body string substituted (directed documents and a sample of the grammar: ~15 ms per call); otherwise, or without the
    fixture, the routing statement `_html_to_text(b) if _looks_like_html(b) else b` with the real helper functions."""
    import os
    from sharepoint2text.parsing.extractors.mail import msg_email_extractor as mod
    fixture = os.path.join(os.path.dirname(os.path.dirname(os.path.dirname(os.path.dirname(os.path.abspath(mod.__file__))))),
                           "tests", "resources", "mails", "basic_email.msg")
    if real_reader is None:
        real_reader = ROUTE_SAMPLE is None or markup in ROUTE_SAMPLE
    if not real_reader or not os.path.exists(fixture) or not hasattr(mod, "MsOxMessage"):
        return mod._html_to_text(markup) if mod._looks_like_html(markup) else markup
    real = mod.MsOxMessage

    class BodySubstituted:
        def __init__(self, stream):
            if "m" not in _REAL_MSG:
                _REAL_MSG["m"] = real(stream)      # the fixture is parsed once; only `body` differs per call
            self._real = _REAL_MSG["m"]

        def __getattr__(self, name):
            return getattr(self._real, name)

        @property
        def body(self):
            return markup
    mod.MsOxMessage = BodySubstituted
    try:
        with open(fixture, "rb") as fh:
            mail = next(mod.read_msg_format_mail(io.BytesIO(fh.read()), path=fixture))
    finally:
        mod.MsOxMessage = real
    return mail.body_plain


WRAPPERS = [("read_html", via_html), ("read_mhtml", via_mhtml), ("read_mhtml (non-standard archive)", via_mhtml_nonstandard), ("msg._html_to_text", via_msg),
            ("msg.read_msg_format_mail body", via_msg_route), ("read_epub chapter", via_epub)]


def judge(observed, vis, hid):
    got = tokens([observed])
    missing = sorted(tokens(vis) - got)
    leaked = sorted(tokens(hid) & got)
    if missing or leaked:
        return f"visible text lost: {missing}; removed text present: {leaked}"
    return None


def is_extraction_error(e):
    try:
        from sharepoint2text.parsing.exceptions import ExtractionError
        return isinstance(e, ExtractionError)
    except Exception:  # noqa
        return False


def parser_error_docs():
    """Documents html.parser refuses (a malformed marked section raises inside feed()): removed content before and after."""
    bad = ["<![ endif]>", "<![x[", "<![if", "<![ if !mso]>"]
    return [f"<html><head><style>.HIDs {{}}</style></head><body><p>VISa</p><script>var HIDa;</script><noscript>HIDb</noscript>"
            f"<iframe src=x>HIDc</iframe><!-- HIDd -->{b}<object data=x>HIDe</object><p>VISb</p></body></html>" for b in bad]


def meta_docs():
    """Document metadata with unusual values (charset labels Python has no codec for, empty / odd attributes): whatever the
    metadata code does with them, removed content stays removed and visible text stays."""
    labels = ["iso-8859-8-i", "windows-874", "unicode", "x-user-defined", "x-sjis", "", "utf8", " UTF-8 ", "none", "x" * 70, "utf-8;q=1", "\u00e9"]
    docs = []
    for l in labels:
        docs.append(f"<html><head><meta charset='{l}'><style>.HIDs {{}}</style></head><body><p>VISa</p><script>var HIDa;</script><noscript>HIDb</noscript><p>VISb</p></body></html>")
        docs.append(f"<html><head><meta http-equiv='Content-Type' content='text/html; charset={l}'></head><body><p>VISa</p><!-- HIDa --><iframe>HIDb</iframe><p>VISb</p></body></html>")
    for extra in ["<meta name='description'>", "<meta name='keywords' content>", "<meta content='x'>", "<meta http-equiv='refresh'>", "<base>", "<link rel=x>",
                  "<meta name='author' content=''>", "<html lang>", "<meta property='og:title'>"]:
        docs.append(f"<html><head>{extra}</head><body><p>VISa</p><script>var HIDa;</script><object>HIDb</object><p>VISb</p></body></html>")
    return docs


CONTROL = {}     # document -> the same document written without its removed elements / comments (structure_docs)


def lost_without_removal_too(fn, markup, out, vis):
    """The property is about what REMOVAL does.  For a document with a control (the same markup without the removed elements):
    visible tokens that the entry point loses from the control as well are lost by the rendering of the surrounding structure,
    not by the removal -> not a C17 failure (leaked removed text always is).  -> True iff every lost token is lost there too."""
    control = CONTROL.get(markup)
    if control is None:
        return False
    missing = tokens(vis) - tokens([out])
    if not missing:
        return False
    try:
        cout = fn(control)
    except Exception:  # noqa
        return False
    return missing <= (tokens(vis) - tokens([cout]))


def structure_docs():
    """Elements the rendering side treats specially (tables, lists, headings, links, images, line breaks, rules, block
    containers) in their degenerate forms -- empty, without the usual attributes / parents / children, nested in themselves --
    next to removed content: whatever the renderer does with them, removed content stays removed and the visible text around
    them stays (a renderer that raises makes the MSG converter fall back to the raw markup)."""
    forms = ["<table></table>", "<table><tr></tr></table>", "<table><tr><td></td></tr></table>", "<table><td>cell</td></table>",
             "<tr><td>cell</td></tr>", "<td>cell</td>", "<th></th>", "<table><tbody></tbody></table>", "<table><caption>cap</caption></table>",
             "<table><tr><th>cell</th><td></td></tr><tr><td>cell</td><td>cell</td><td>cell</td></tr><tr></tr></table>",
             "<table><tr><td><table></table></td></tr></table>", "<table><tr><td colspan=x rowspan>cell</td></tr></table>",
             "<ul></ul>", "<ol></ol>", "<li>item</li>", "<li></li>", "<ul><li>item<ul><li></li></ul></li></ul>", "<ol start=x><li value><p>item</p></ol>",
             "<dl><dt><dd></dl>", "<h1></h1>", "<h2> </h2>", "<h3><b></b></h3>", "<h6><h1>text</h1></h6>", "<h7>text</h7>", "<h>text</h>",
             "<h1x>text</h1x>", "<hgroup></hgroup>", "<a>text</a>", "<a href>text</a>", "<a href=''>text</a>", "<a href=u></a>", "<a name=n></a>",
             "<a href=u><img src=x></a>", "<a href=u><a>text</a></a>", "<img>", "<img alt>", "<img src='' alt='' width=x>", "<br>", "<hr>", "<br/>",
             "<hr/>", "<br></br>", "</br>", "<p></p>", "</p>", "<div></div>", "<span/>", "<pre>\n</pre>", "<blockquote></blockquote>",
             "<x-custom>text</x-custom>", "<svg><path d=''/></svg>", "<select><option>text</select>", "<form><input><button></button></form>",
             "<font size=x color></font>", "<div style='' class id=''></div>", "<p align></p>", "&nbsp;&#0;&#x110000;&bogus;"]
    docs = []
    for f in forms:
        for d, control in ((f"<html><body><p>VISa</p><script>var HIDa;</script>{f}<noscript>HIDb</noscript><p>VISb</p></body></html>",
                            f"<html><body><p>VISa</p>{f}<p>VISb</p></body></html>"),
                           (f"{f}<p>VISa</p><!-- HIDa --><object data=x>HIDb</object>{f}<p>VISb</p>", f"{f}<p>VISa</p>{f}<p>VISb</p>")):
            docs.append(d)
            CONTROL[d] = control
    return docs


def line_start_docs():
    """Multi-line documents with lines that START with `--` inside the HTML: the end of a multi-line comment, a CSS custom
    property, a decrement statement in a script (a MIME boundary line also starts with `--`)."""
    return ["<div>VISa</div>\n<!--\n HIDa\n-->\n<p>VISb</p>\n",
            "<style>\n:root {\n--main-bg: #fff;\n}\n</style>\n<p>VISa</p>\n<p>VISb</p>\n",
            "<p>VISa</p>\n<script>\nvar i = 3;\n--i; // HIDa\n</script>\n<p>VISb</p>\n",
            "<html><body>\n<p>VISa</p>\n<!--[if mso]>\n<p>HIDa</p>\n<![endif]\n-->\n<p>VISb</p>\n</body></html>\n"]


def deep_docs():
    """Element nesting deeper than the interpreter's recursion limit (the tree walker is recursive)."""
    return ["<div>" * n + "<script>var HIDs = 1;</script><p>VISa</p><noscript>HIDn</noscript>" + "</div>" * n + "<p>VISb</p>" for n in (1200, 3000)]


def builder_of(markup):
    """How to rebuild a document that is too long to store verbatim."""
    for i, d in enumerate(deep_docs()):
        if d == markup:
            return {"fn": "deep_docs", "index": i}
    for i, d in enumerate(long_prefix_docs()):
        if d == markup:
            return {"fn": "long_prefix_docs", "index": i}
    for i, d in enumerate(line_start_docs()):
        if d == markup:
            return {"fn": "line_start_docs", "index": i}
    for i, d in enumerate(boundary_like_docs()):
        if d == markup:
            return {"fn": "boundary_like_docs", "index": i}
    return None


ATTR_SETS = ['id=x1 class="c d"', "hidden", 'style="display:none"', 'data="fig.svg" type="image/svg+xml"', 'data="fig.png"',
             'type="image/png" data="x"', 'src="pic.jpg"', 'src="movie.mp4" type="video/mp4"', 'type="application/pdf" data="doc.pdf" width=1 height=1',
             'type="text/javascript" src="a.js"', 'type="text/css" media="screen"', 'type="application/x-shockwave-flash" data="m.swf"',
             'code="A.class" archive="a.jar" codebase="."', 'srcdoc="&lt;p&gt;x&lt;/p&gt;" src="about:blank"',
             'DATA="FIG.SVG" TYPE="IMAGE/SVG+XML"', "data=fig.svg?v=1#top", 'href="fig.png" xlink:href="fig.png" name=n value=v', 'type="image" src="b.gif"']


def attribute_docs(attr_sets=None, removable=("noscript", "iframe", "object", "applet", "script", "style", "embed")):
    """Removable elements WITH ATTRIBUTES (their own standard ones -- data / type / src / code / srcdoc / media -- with image, media,
    plug-in and script values, in both cases, with query / fragment), nested in themselves, with element content and a tail:
    a removed element is removed whatever its start tag carries."""
    docs = []
    for r in removable:
        for a in (attr_sets or ATTR_SETS):
            if r == "embed":
                docs.append(f"<p>VISa</p><{r} {a}>VISb<p>VISc</p>")
                docs.append(f"<p>VISa</p><noscript>HIDa<{r} {a}>HIDb</noscript><p>VISb</p>")
            else:
                docs.append(f"<p>VISa</p><{r} {a}>HIDa<p>HIDb</p><{r} {a}>HIDc</{r}>HIDd</{r}><p>VISb</p>")
    return docs


def boundary_like_docs():
    """Lines INSIDE removed content that read like a MIME delimiter (`--` + RFC 2046 boundary characters only): a ruler of
    dashes in a comment, a `-- remark` line in a script template, a CSS custom property split after its colon.  In a proper
    MIME archive they are ordinary body lines (only the declared boundary delimits)."""
    return ["<p>VISa</p>\n<!--\n------------------\n HIDa\n------------------\n-->\n<p>VISb</p>\n",
            "<p>VISa</p>\n<script type=\"text/template\">\n-- load defaults\nvar HIDa;\n</script>\n<p>VISb</p>\n",
            "<p>VISa</p>\n<style>\n:root {\n--accent-color:\n HIDa;\n}\n</style>\n<p>VISb</p>\n",
            "<div>VISa</div>\n<noscript>\n--HIDa--\n</noscript>\n<p>VISb</p>\n"]


def module_sizes(rel, lo=16 * 1024, hi=48 * 1024 * 1024, most=4):
    """Integer constants of the module under test that can be a SIZE threshold (literals and constant products / shifts such as
    4 * 1024 * 1024, anywhere in the module): an archive is built just above each of them ("whatever the element contains"
    and wherever it is stored includes how big the container is)."""
    import ast
    import os

    def const(n):
        if isinstance(n, ast.Constant) and type(n.value) is int:
            return n.value
        if isinstance(n, ast.BinOp) and isinstance(n.op, (ast.Mult, ast.LShift, ast.Pow, ast.Add)):
            a, b = const(n.left), const(n.right)
            if a is None or b is None or abs(a) > 1 << 40 or abs(b) > 1 << 40:
                return None
            try:
                return {ast.Mult: lambda: a * b, ast.LShift: lambda: a << b if 0 <= b < 40 else None,
                        ast.Pow: lambda: a ** b if 0 <= b < 40 else None, ast.Add: lambda: a + b}[type(n.op)]()
            except Exception:  # noqa
                return None
        return None
    try:
        with open(os.path.join(os.environ.get("VERIF_REPO", "/repo"), rel)) as fh:
            tree = ast.parse(fh.read())
    except Exception:  # noqa
        return []
    vals = set()
    for n in ast.walk(tree):
        v = const(n)
        if v is not None and lo <= v <= hi:
            vals.add(v)
    return sorted(vals)[-most:]


def mhtml_archive(markup, order, eol, pad_to=0):
    """A PROPER MIME archive (declared boundary): the text/html part with its headers in the given order, followed by a base64
    image part that brings the archive to at least `pad_to` bytes."""
    hdr = {"T": 'Content-Type: text/html; charset="utf-8"', "E": "Content-Transfer-Encoding: 8bit", "L": "Content-Location: http://x/"}
    head = eol.join(["From: <Saved by Test>", "Subject: t", "MIME-Version: 1.0",
                     'Content-Type: multipart/related; type="text/html"; boundary="----=_B"', "", ""])
    part = "------=_B" + eol + eol.join(hdr[k] for k in order) + eol + eol + markup + eol
    img_head = "------=_B" + eol + eol.join(["Content-Type: image/png", "Content-Transfer-Encoding: base64", "Content-Location: http://x/i.png"]) + eol + eol
    tail = "------=_B--" + eol
    body = head + part
    need = pad_to - len(body.encode("utf-8")) - len(img_head) - len(tail)
    if need > 0:
        line = "iVBORw0KGgoAAAANSUhEUgAAAAEAAAABCAYAAAAfFcSJAAAADUlEQVR42mNkYPhfDwAChwGA60e6" + eol
        body += img_head + line * (need // len(line) + 1)
    return (body + tail).encode("utf-8")


def archive_shape_wrappers(rel="sharepoint2text/parsing/extractors/mhtml_extractor.py"):
    """read_mhtml on proper MIME archives of every header order of the html part x line ending x size just above each size
    constant of the module (and unpadded)."""
    def mk(order, eol, size):
        def fn(markup):
            from sharepoint2text.parsing.extractors.mhtml_extractor import read_mhtml
            return next(read_mhtml(io.BytesIO(mhtml_archive(markup, order, eol, size)))).content
        return fn
    out = []
    for size in [0] + module_sizes(rel):
        for order in ("TEL", "ELT", "LTE"):
            for eol in ("\r\n", "\n"):
                out.append((f"read_mhtml (MIME archive, part headers {order}, eol {eol!r}, >= {size} bytes)", mk(order, eol, size + 1 if size else 0)))
    return out


def check_markup(markup, only=None, skip=(), wrappers=None):
    """-> failure dict or None.  Expected sets: html.parser's own events classified by the spec."""
    ev, vis, hid = expected(markup)
    body = markup
    for name, fn in (wrappers or WRAPPERS):
        if only and not any(o in name for o in only):
            continue
        if any(o in name for o in skip):
            continue        # recorded finding (known_findings.json) for this document through this entry point: replayed separately
        if "<title>" in markup and "epub" not in name:
            continue        # only the EPUB chapter keeps the <title> text with the chapter
        if "read_msg_format_mail" in name and not is_html_body(markup):
            continue        # a body without any HTML evidence is legitimately plain text
        try:
            out = fn(body)
        except Exception as e:  # noqa
            if is_extraction_error(e):
                continue        # the reader reported a failure (C01's surface): there is no extracted text to judge
            out = f"<{type(e).__name__}: {e}>"
        bad = judge(out, vis, hid)
        if bad and not (tokens(hid) & tokens([out])) and lost_without_removal_too(fn, markup, out, vis):
            bad = None
        if bad:
            return {"reproduced": True, "target": name, "inputs": {"markup": markup if len(markup) < 4000 else markup[:300] + " ...", "events": ev[:40],
                                                                  "markup_builder": builder_of(markup)},
                    "expected": f"every visible token {sorted(tokens(vis))} in the text, no removed token {sorted(tokens(hid))}",
                    "observed": f"{bad}; text={out[:300]!r}"}
    return None


# ------------------------------------------------------------ witness -> events --
VALID = re.compile(r"^[a-zA-Z][-a-zA-Z0-9]*$")


def new_parser(which):
    if which == "html":
        from sharepoint2text.parsing.extractors.html_extractor import _HtmlTreeBuilder
        return _HtmlTreeBuilder()
    from sharepoint2text.parsing.extractors.epub_extractor import _XhtmlTextExtractor
    return _XhtmlTextExtractor()


def reach_prefix(which, w, max_len=4):
    """Breadth-first search for a short event sequence that drives a REAL parser object from its initial state into the
    witness pre-state (the scalar removal-tracking fields of the model: skip_depth, remembered tag, ...) while the region
    spec is in the witness's rho.  -> list of events or None."""
    want = {k: v for k, v in (w.get("self") or {}).items()
            if isinstance(v, (int, str)) and not isinstance(v, bool) and ("skip" in k.lower() or "tag" in k.lower() or "depth" in k.lower())}
    on, T, n = bool(w.get("rho_on")), w.get("rho_tag") or "", int(w.get("rho_n") or 0)
    rho_want = (T, n) if on else None
    tags = [t for t in dict.fromkeys([T] + [v for v in want.values() if isinstance(v, str)] + [w.get("tag"), "noscript", "object"])
            if isinstance(t, str) and t]
    alphabet = [(k, t) for t in tags for k in ("S", "E")]
    frontier = [[]]
    for _depth in range(max_len + 1):
        nxt = []
        for seq in frontier:
            p = new_parser(which)
            rho = None
            try:
                for k, t in seq:
                    (p.handle_starttag(t, []) if k == "S" else p.handle_endtag(t))
                    rho = step(rho, (k, t))
            except Exception:  # noqa
                continue
            if rho == rho_want and all(getattr(p, f, None) == v for f, v in want.items()):
                return seq
            if len(seq) < max_len:
                nxt.extend(seq + [e] for e in alphabet)
        frontier = nxt
    return None


def witness_events(w, kind, t_override=None, prefix=None):
    on, T, n = bool(w.get("rho_on")), w.get("rho_tag") or "", int(w.get("rho_n") or 0)
    tag = w.get("tag") if isinstance(w.get("tag"), str) else "x"
    if t_override is not None and on:
        if tag.lower() == T:
            tag = t_override
        T = t_override
    ev = [("D", "VISroot"), ("S", "p"), ("D", "VISpre"), ("E", "p")]      # text before any element, then a block
    rho = None
    # a remembered tag outside any region is what an earlier, already closed region leaves behind
    for f, v in sorted((w.get("self") or {}).items()):
        if "tag" in f.lower() and isinstance(v, str) and not on and v in REMOVE and v not in VOID:
            ev += [("S", v), ("D", "HIDold"), ("E", v)]
    if prefix is not None:
        ev = ev[:4]
        for e in prefix:
            ev.append(e)
            rho = step(rho, e)
            if rho is not None:
                ev.append(("D", "HIDpfx"))
    elif on:
        if not (T in REMOVE and T not in VOID) or n < 0 or n > 6:
            return None
        for _ in range(n + 1):
            ev.append(("S", T))
            rho = step(rho, ("S", T))
    if kind in ("start", "end"):
        e = ("S" if kind == "start" else "E", tag)
        ev.append(e)
        rho = step(rho, e)
    k = 0
    while rho is not None:          # still inside per the spec: data stays hidden after every closing level but the last
        ev.append(("D", f"HIDin{k}"))
        e = ("E", rho[0])
        ev.append(e)
        rho = step(rho, e)
        k += 1
    ev += [("D", "VISgap"), ("S", "p"), ("D", "VISpost"), ("E", "p")]       # text right after the region (a tail), then a block
    return ev


def to_markup(events):
    out = []
    for k, t in events:
        out.append(f"<{t}>" if k == "S" else f"</{t}>" if k == "E" else f"<!--{t}-->" if k == "C" else t)
    return "".join(out)


def sanitise(events, T):
    """Replace tag names html.parser would not tokenise as a tag by a neutral name (keeps (in)equality with T)."""
    out = []
    for k, t in events:
        if k in ("S", "E") and not VALID.match(t):
            t = "span" if T != "span" else "div"
        out.append((k, t))
    return out


def replay_witness(w, kind, which):
    tried = []
    # (a) function level, exact witness: standard prefix first, then a searched prefix that reaches the model's pre-state
    for attempt in ("standard", "searched"):
        prefix = None
        if attempt == "searched":
            prefix = reach_prefix(which, w)
            if prefix is None:
                break
        ev = witness_events(w, kind, prefix=prefix)
        if ev is None:
            continue
        vis, hid = classify(ev)
        try:
            out = run_handlers(which, ev)
        except Exception as e:  # noqa
            out = f"<{type(e).__name__}: {e}>"
        bad = judge(out, vis, hid)
        tried.append(("handlers", ev))
        if bad and prefix is not None:
            cls = "html_extractor._HtmlTreeBuilder" if which == "html" else "epub_extractor._XhtmlTextExtractor"
            res = {"reproduced": True, "target": f"{cls} handlers called with a searched prefix + the witness event",
                   "inputs": {"events": ev, "witness": w}, "expected": f"visible {sorted(tokens(vis))} stored, removed {sorted(tokens(hid))} not stored (region spec)",
                   "observed": bad}
            mk = to_markup(sanitise(ev, w.get("rho_tag") or ""))
            if tokenise(mk) == sanitise(ev, w.get("rho_tag") or ""):
                api = check_markup(mk, only=("read_epub", ) if which == "epub" else ("read_html", "read_mhtml", "msg"))
                if api:
                    res["api_level"] = api
            return res
        if bad:
            cls = "html_extractor._HtmlTreeBuilder" if which == "html" else "epub_extractor._XhtmlTextExtractor"
            res = {"reproduced": True, "target": f"{cls} handlers called with the witness events", "inputs": {"events": ev, "witness": w},
                   "expected": f"visible {sorted(tokens(vis))} stored, removed {sorted(tokens(hid))} not stored (region spec)",
                   "observed": bad}
            # (b) the same through the public entry points, as markup
            T = w.get("rho_tag") or ""
            alts = [None] + [a for a in ("noscript", "iframe", "object", "applet") if a != T]
            for alt in alts:
                ev2 = witness_events(w, kind, alt)
                if ev2 is None:
                    continue
                ev2 = sanitise(ev2, alt or T)
                mk = to_markup(ev2)
                if [e for e in tokenise(mk)] != ev2:
                    continue       # tokenisation does not give this event sequence (e.g. inside <script>): try another region tag
                api = check_markup(mk, only=("read_epub", ) if which == "epub" else ("read_html", "read_mhtml", "msg"))
                if api:
                    res["api_level"] = api
                    break
            return res
    return None


# -------------------------------------------------------------------- grammar ----
def grammar():
    removable = ["noscript", "iframe", "object", "applet", "script", "style", "embed"]
    contents = ["HIDa", "<img src=x>", "<br>", "<input name=i>", "<param name=a value=b>", "<source src=s>", "<br/>", "<img/>",
                "<p>HIDb", "<div><b>HIDc</div>", "</b>HIDd", "</div>", "</p>HIDe", "<!-- HIDf -->", "<![CDATA[HIDg]]>",
                "<span>HIDh</span>", "<a href=u>HIDi"]
    docs = []
    for r in removable:
        for c in contents:
            docs.append(f"<p>VISa</p><{r}>{c}</{r}><p>VISb</p>")
            docs.append(f"<div>VISa<{r}>{c}HIDz</{r}>VISb</div><p>VISc</p>")
        for r2 in removable:
            docs.append(f"<p>VISa</p><{r}>HIDa<{r2}>HIDb</{r2}>HIDc</{r}><p>VISb</p>")
            docs.append(f"<p>VISa</p><{r}><{r2}/>HIDa</{r}><p>VISb</p>")
            docs.append(f"<p>VISa</p><{r}><{r2}>HIDa</{r}><p>VISb</p>")
            docs.append(f"<p>VISa</p><{r}>HIDa</{r}><p>VISb</p><{r2}>HIDb</{r2}><p>VISc</p>")
        docs.append(f"<p>VISa</p><{r}/><p>VISb</p>")
        docs.append(f"<p>VISa</p><{r} src=x></{r}><p>VISb</p>")
        for c1, c2 in itertools.product(contents[:9], repeat=2):
            docs.append(f"<p>VISa</p><{r}>{c1}{c2}</{r}><p>VISb</p>")
    docs += ["VISa<noscript><img></noscript>VISb<p>VISc</p>", "<html><body>VISa<p>VISb</p><script>HIDa</script>VISc</body></html>",
             "<html><head><title>VISt</title><style>HIDa</style></head><body><p>VISa</p></body></html>",
             "<p>VISa</p><!-- HIDa --><p>VISb</p>", "<p>VISa<!-- <p>HIDa</p> -->VISb</p>", "<p>VISa</p><![CDATA[HIDa]]><p>VISb</p>",
             "<p>VISa</p><embed src=x><p>VISb</p><p>VISc</p>", "<p>VISa</p><embed src=x>VISb</b><p>VISc</p>",
             "<table><tr><td>VISa<noscript><img></noscript></td><td>VISb</td></tr></table><p>VISc</p>",
             # input ending inside an unterminated comment / conditional comment / declaration: its content stays hidden
             "<p>VISa</p><p>VISb</p><!-- HIDa", "<p>VISa</p><!--[if mso]><p>HIDa</p>", "<p>VISa</p><p>VISb</p><!-- HIDa <b>HIDb</b>",
             "<p>VISa</p><noscript>HIDa", "<p>VISa</p><script>HIDa"]
    # a textual "<r ...>" that the tokeniser does NOT treat as the start of element r (self-closing form, inside a comment,
    # inside an attribute value, inside a CDATA section / another raw-text element), visible text, then a real element r
    for r in removable:
        for fake in (f"<{r} src=x/>", f"<!-- <{r} src=x> -->", f"<a title='<{r}>'>VISl</a>", f"<![CDATA[<{r}>]]>",
                     f"<style>/* <{r}> */</style>" if r != "style" else f"<script>// <{r}></script>"):
            docs.append(f"<p>VISa</p>{fake}<p>VISb</p><{r}>HIDa</{r}><p>VISc</p>")
            docs.append(f"<p>VISa</p>{fake}<p>VISb</p><{r} type=x>HIDa</{r} ><p>VISc</p><!-- HIDb -->VISd")
        docs.append(f"<p>VISa</p><{r}>HIDa</{r}><p>VISb</p><!-- </{r}> --><p>VISc</p>")
        # a stray extra end tag of an element that was removed before, then a new region
        docs.append(f"<p>VISa</p><{r}>HIDa</{r}></{r}><p>VISb</p><{r}>HIDb</{r}><p>VISc</p>")
        docs.append(f"<p>VISa</p></{r}><p>VISb</p><{r}>HIDb</{r}><p>VISc</p></{r}><p>VISd</p>")
    # textual comment / CDATA delimiters where the tokeniser does not see a comment (raw text, attribute values)
    docs += ['<script>var s = "<!--";</script><p>VISa</p><!-- HIDa --><p>VISb</p>', "<style>/* <!-- */</style><p>VISa</p><!-- HIDa --><p>VISb</p>",
             "<p title='<!--'>VISa</p><p>VISb</p><!-- HIDa --><p>VISc</p>", '<script>if (a --> b) {}</script><p>VISa</p><!-- HIDa --><p>VISb</p>',
             "<!-- HIDa --><p>VISa</p><script>// --> HIDb</script><p>VISb</p>", "<p>VISa</p><!-- HIDa -- HIDb --><p>VISb</p>", "<p>VISa</p><!--HIDa--!><p>VISb</p>"]
    docs += literal_docs()
    docs += conditional_comment_docs()
    docs += meta_docs()
    docs += structure_docs()
    docs += parser_error_docs()
    docs += long_prefix_docs()
    docs += line_start_docs()
    docs += attribute_docs()
    docs += deep_docs()
    return docs


# ----------------------------------------------- inputs derived from the code's own regular expressions --
MODULE_OF = {"mhtml_extractor": "sharepoint2text/parsing/extractors/mhtml_extractor.py", "msg_email_extractor": "sharepoint2text/parsing/extractors/mail/msg_email_extractor.py",
             "epub_extractor": "sharepoint2text/parsing/extractors/epub_extractor.py", "html_extractor": "sharepoint2text/parsing/extractors/html_extractor.py"}


def _min_sample(parsed, gaps):
    """Shortest string matching a parsed regex; an unbounded repeat that may be empty contributes '' and is recorded as a gap
    (position in the sample where arbitrary text may stand)."""
    import re._constants as C
    out = ""
    for op, av in parsed:
        if op is C.LITERAL:
            out += chr(av)
        elif op is C.NOT_LITERAL:
            out += "x" if av != ord("x") else "y"
        elif op is C.ANY:
            out += "x"
        elif op is C.IN:
            ch = "x"
            for o2, a2 in av:
                if o2 is C.LITERAL:
                    ch = chr(a2)
                    break
                if o2 is C.RANGE:
                    ch = chr(a2[0])
                    break
                if o2 is C.CATEGORY:
                    ch = {"CATEGORY_SPACE": " ", "CATEGORY_DIGIT": "1", "CATEGORY_WORD": "w"}.get(str(a2), "x")
                    break
                if o2 is C.NEGATE:
                    ch = "~"
            out += ch
        elif op in (C.MAX_REPEAT, C.MIN_REPEAT) or str(op) == "POSSESSIVE_REPEAT":
            lo, hi, sub = av
            if lo == 0 and hi == C.MAXREPEAT:
                gaps.append(len(out))
            out += _min_sample(sub, gaps) * lo
        elif op is C.SUBPATTERN:
            out += _min_sample(av[-1], gaps)
        elif op is C.BRANCH:
            out += _min_sample(av[1][0], gaps)
        elif op is C.CATEGORY:
            out += {"CATEGORY_SPACE": " ", "CATEGORY_DIGIT": "1", "CATEGORY_WORD": "w"}.get(str(av), "x")
        # AT / ASSERT / GROUPREF ...: zero width or not handled -> nothing
    return out


def regex_samples(ob):
    """[(sample, [gap positions])] for every `re.compile(<literal>)` of the module the obligation is about (read from the tree
    under test): what the code matches textually is what a textual rewrite of the document will trip over."""
    import ast as _ast
    import os
    import re._parser as rp
    rel = next((v for k, v in MODULE_OF.items() if k + ".py" in ob), None)
    if rel is None:
        return []
    try:
        tree = _ast.parse(open(os.path.join(os.environ.get("VERIF_REPO", "/repo"), rel), encoding="utf-8").read())
    except Exception:  # noqa
        return []
    out = []
    for n in _ast.walk(tree):
        if isinstance(n, _ast.Call) and _ast.unparse(n.func) in ("re.compile", "re.sub", "re.search", "re.split", "re.findall", "re.finditer", "re.match") \
                and n.args and isinstance(n.args[0], _ast.Constant) and isinstance(n.args[0].value, (str, bytes)):
            pat = n.args[0].value
            pat = pat.decode("latin-1") if isinstance(pat, bytes) else pat
            try:
                gaps = []
                smp = _min_sample(rp.parse(pat), gaps)
            except Exception:  # noqa
                continue
            if any(c in smp for c in "<>") and (smp, gaps) not in out:
                out.append((smp, gaps))
    return out


def regex_derived_docs(ob):
    """Documents built from the code's own patterns: each minimal match as a literal in every hidden context; for a pattern
    with a gap (`START.*?END`) also START in one hidden place, visible text, END in a later hidden place -- and the two
    halves each completed to a construct of their own (comment) around visible text."""
    docs = []
    samples = regex_samples(ob)
    lits = []
    for smp, gaps in samples:
        lits.append(smp)
        for g in gaps:
            a, b = smp[:g], smp[g:]
            lits += [x for x in (a, b) if len(x) >= 2]
            if len(a) >= 2 and len(b) >= 2:
                hide = [lambda l: f'<script>var s = "{l} HIDa";</script>', lambda l: f"<!-- {l} HIDa -->", lambda l: f"<style>/* {l} */</style>",
                        lambda l: f"<a title='{l}'>VISl</a>"]
                for h1 in hide:
                    for h2 in hide:
                        docs.append(f"<html><body><p>VISa</p>{h1(a)}<p>VISm</p>{h2(b)}<p>VISb</p></body></html>")
                # the halves as comments of their own around visible content (e.g. `<!--[if x]><!-->` VISIBLE `<!--<![endif]-->`)
                a2 = a if a.startswith("<!--") else "<!--" + a
                b2 = b if b.endswith("-->") else b + "-->"
                docs.append(f"<p>VISa</p>{a2} !x]><!--><p>VISm</p><!--{b2 if not b2.startswith('<!--') else b2[4:]}<p>VISb</p>")
                docs.append(f"<p>VISa</p>{a2} x]> HIDa {b2}<p>VISm</p>{a2} !x]><!-- --><p>VISn</p><!-- {b2[4:] if b2.startswith('<!--') else b2}<p>VISb</p>")
    if lits:
        docs += literal_docs(list(dict.fromkeys(lits)))
    return docs


def literal_docs(lits=None):
    """Markup-looking LITERALS (document-structure end tags, comment / conditional-comment / CDATA delimiters, start and end
    tags) standing where the tokeniser does not read them as markup -- inside raw text (script / style), inside a comment,
    inside an attribute value, inside a CDATA section -- or inside a removed element (where they are real but hidden tags),
    followed by more visible content and the real end of the document.  Anything that cuts, strips or re-balances the
    document TEXTUALLY (regex over the bytes) instead of through the tokeniser trips over one of them."""
    lits = lits or ["</html>", "</HTML >", "</body>", "<html>", "<body>", "</head>", "<!DOCTYPE html>", "<![endif]-->", "<!--[if mso]>", "<![endif]>",
                    "<!--", "-->", "]]>", "<![CDATA[", "</div>", "</p>", "<p>", "</table>", "</noscript>", "</iframe>", "<script>", "<style>"]
    ctxs = [lambda l: f'<script>var s = "{l} HIDa"; // {l}</script>',
            lambda l: f"<style>/* {l} HIDa */ p {{ color: red }}</style>",
            lambda l: f"<!-- {l} HIDa -->",
            lambda l: f"<noscript>{l} HIDa</noscript>",
            lambda l: f"<iframe src=x>{l} HIDa</iframe>",
            lambda l: f"<object data=x>{l} HIDa</object>",
            lambda l: f"<a href=u title='{l}'>VISl</a>",
            lambda l: f"<![CDATA[{l} HIDa]]>"]
    docs = []
    for l in lits:
        for cx in ctxs:
            body = f"<p>VISa</p>{cx(l)}<p>VISb</p>"
            docs.append(f"<html><head><meta charset=utf-8></head><body>{body}<div>VISc</div></body></html>")
            docs.append(body + "<!-- HIDz -->VISd")
    return docs


def conditional_comment_docs():
    """Outlook / IE conditional comments: downlevel-hidden (`<!--[if mso]>HIDDEN<![endif]-->`: one comment), downlevel-revealed
    (`<!--[if !mso]><!-->VISIBLE<!--<![endif]-->`: two comments around visible content, also spelt `<!-- -->`), the
    declaration form (`<![if !IE]>VISIBLE<![endif]>`), unterminated and nested-looking ones, several per document."""
    hidden = ["<!--[if mso]><p>HIDh</p><![endif]-->", "<!--[if gte mso 9]><xml><o:x>HIDh</o:x></xml><![endif]-->",
              "<!--[if (gt IE 5)&(lt IE 7)]>HIDh<![endif]-->", "<!--[if mso]>HIDh"]
    revealed = ["<!--[if !mso]><!--><p>VISr</p><!--<![endif]-->", "<!--[if !mso]><!-- --><p>VISr</p><!-- <![endif]-->",
                "<![if !IE]><p>VISr</p><![endif]>", "<!--[if !mso]>--><p>VISr</p><!--<![endif]-->",
                "<!--[if !vml]><!-->VISr<img src=x><!--<![endif]-->"]
    docs = []
    for r in revealed:
        docs.append(f"<div>VISa</div>{r}<div>VISb</div>")
        for h in hidden[:3]:
            docs.append(f"<div>VISa</div>{h}{r}<div>VISb</div>")
            docs.append(f"<div>VISa</div>{r}<div>VISb</div>{h}<div>VISc</div>")
            docs.append(f"<html><body>{h}<table><tr><td>{r}</td></tr></table><p>VISb</p>{h}</body></html>")
        docs.append(f"<div>VISa</div>{r}<noscript>HIDn</noscript>{r.replace('VISr', 'VISs')}<div>VISb</div>")
    for h in hidden:
        docs.append(f"<div>VISa</div>{h.replace('<![endif]-->', '')}<p>HIDu</p><!-- x --><div>VISb</div><!--[if mso]>HIDv<![endif]--><p>VISc</p>"
                    if h.endswith("<![endif]-->") else f"<div>VISa</div><p>VISb</p>{h}")
    return docs


def sequences():
    """Pairs of documents processed one after the other (two chapters of one EPUB; two calls of the other entry points): every
    document is judged on its own -- whatever the first one leaves open (region, raw-text mode, table cell, unterminated
    comment) must not reach the second."""
    firsts = ["<p>VISa</p><noscript>HIDa", "<p>VISa</p><script>HIDa", "<p>VISa</p><object><object>HIDa</object>", "<p>VISa</p><table><tr><td>cell",
              "<p>VISa</p><!-- HIDa", "<p>VISa</p><iframe><p>HIDa</p>"]
    seconds = ["<p>VISb</p><noscript>HIDb</noscript><p>VISc</p>", "VISb<p>VISc</p><!-- HIDb -->"]
    return [[a, b] for a in firsts for b in seconds]


def via_epub_book(docs):
    from sharepoint2text.parsing.extractors.epub_extractor import read_epub
    buf = io.BytesIO()
    with zipfile.ZipFile(buf, "w") as z:
        z.writestr("mimetype", "application/epub+zip")
        z.writestr("META-INF/container.xml",
                   '<?xml version="1.0"?><container version="1.0" xmlns="urn:oasis:names:tc:opendocument:xmlns:container">'
                   '<rootfiles><rootfile full-path="OEBPS/content.opf" media-type="application/oebps-package+xml"/></rootfiles></container>')
        items = "".join(f'<item id="c{i}" href="c{i}.xhtml" media-type="application/xhtml+xml"/>' for i in range(len(docs)))
        refs = "".join(f'<itemref idref="c{i}"/>' for i in range(len(docs)))
        z.writestr("OEBPS/content.opf",
                   '<?xml version="1.0"?><package xmlns="http://www.idpf.org/2007/opf" version="3.0" unique-identifier="id">'
                   '<metadata xmlns:dc="http://purl.org/dc/elements/1.1/"><dc:title>T</dc:title><dc:identifier id="id">x</dc:identifier></metadata>'
                   f'<manifest>{items}</manifest><spine>{refs}</spine></package>')
        for i, d in enumerate(docs):
            z.writestr(f"OEBPS/c{i}.xhtml", d)
    book = next(read_epub(io.BytesIO(buf.getvalue()), path="t.epub"))
    by_href = {ch.href.split("/")[-1]: f"{ch.text}\n{ch.title}\n{ch.tables!r}" for ch in book.chapters}
    return [by_href.get(f"c{i}.xhtml", "<no chapter extracted>") for i in range(len(docs))]


def check_sequence(docs, only=None):
    for name, fn in WRAPPERS:
        if only and not any(o in name for o in only):
            continue
        try:
            outs = via_epub_book(docs) if "epub" in name else [fn(d) for d in docs]
        except Exception as e:  # noqa
            if is_extraction_error(e):
                continue
            outs = [f"<{type(e).__name__}: {e}>"] * len(docs)
        for i, (d, out) in enumerate(zip(docs, outs)):
            if "read_msg_format_mail" in name and not is_html_body(d):
                continue
            ev, vis, hid = expected(d)
            bad = judge(out, vis, hid)
            if bad:
                return {"reproduced": True, "target": name + f" (document {i + 1} of {len(docs)} processed in sequence)",
                        "inputs": {"documents": docs}, "expected": f"document {i + 1} on its own: visible {sorted(tokens(vis))}, removed {sorted(tokens(hid))}",
                        "observed": f"{bad}; text={out[:300]!r}"}
    return None


def long_prefix_docs():
    """HTML fragments (no <html>/<body>) whose first element of the hint vocabulary comes after a long removed prefix
    (conditional comment + style block with attributes, as mail generators emit): "whatever the element contains" includes
    its length."""
    out = []
    for n in (0, 50, 1000, 5000, 70000):
        css = (".HIDcss td { font-family: Calibri }\n" * (n // 36 + 1))[:max(n, 36)]
        out.append("<!--[if gte mso 9]><xml>HIDx</xml><![endif]-->\n<style type=\"text/css\">\n" + css + "</style>\n"
                   "<div>VISa</div>\n<noscript><img src=p.gif>HIDn</noscript>\n<p>VISb</p>\n<script>var HIDs = 1;</script>\n"
                   "<!-- HIDt -->\n<div>VISc</div>\n")
        out.append(" " * n + "<!-- " + "HIDpad " * (n // 7) + "-->\n<p>VISa</p><script type=x>HIDa</script><p>VISb</p>")
        out.append("<p>VISa</p>" + "<!-- " + "HIDpad " * (n // 7) + "-->" + "<noscript>" + "<img src=x>" * (n // 11) + "HIDa</noscript><p>VISb</p>")
    return out


def recorded_known_docs(searching_for=""):
    """Documents of findings already recorded in known_findings.json: they are replayed on their own by the pack's
    known_findings hook and must not be taken for a reproduction of whatever obligation is being searched for."""
    import json
    import os
    out = []
    try:
        with open(os.path.join(os.path.dirname(os.path.dirname(os.path.abspath(__file__))), "known_findings.json")) as fh:
            for f in json.load(fh).get("findings", []):
                w = f.get("witness") or {}
                if searching_for and searching_for in ([f.get("obligation")] + list(f.get("covers") or [])):
                    continue        # the search IS for the recorded finding's own obligation
                if f.get("property") == "C17" and w.get("markup_builder"):
                    out.append(dict(w["markup_builder"], only=w.get("only")))
                    for fam in w.get("families") or []:       # other document families that fail for the same recorded cause
                        out.append({"fn": fam, "index": 0, "only": w.get("only")})
    except Exception:  # noqa
        pass
    return out


def search(only=None, limit=None, known=()):
    global ROUTE_SAMPLE
    n = 0
    docs = grammar()
    ROUTE_SAMPLE = set(docs[::8]) | set(docs[-160:])
    skip_for = {}
    for k in known:          # [{"fn":..., "index":..., "only": [...]}]: documents of recorded findings
        try:
            for d_ in globals()[k["fn"]]():      # the whole family the recorded document belongs to
                skip_for[d_] = tuple(k.get("only") or ("",))
        except Exception:  # noqa
            pass
    for d in docs:
        n += 1
        if limit and n > limit:
            break
        bad = check_markup(d, only=only, skip=skip_for.get(d, ()))
        if bad:
            bad["tried"] = n
            return bad
    for seq in sequences():
        n += 1
        bad = check_sequence(seq, only=only)
        if bad:
            bad["tried"] = n
            return bad
    return {"reproduced": False, "note": f"{n} documents of the removable-element grammar agree with the region spec through "
                                         f"{[w[0] for w in WRAPPERS if not only or any(o in w[0] for o in only)]}"}


def find(req):
    ob = req.get("obligation") or ""
    w = req.get("witness") or None
    which = "epub" if "epub_extractor" in ob else "html"
    kind = "start" if "handle_starttag" in ob else "end" if "handle_endtag" in ob else "data" if "handle_data" in ob else None
    if w and kind in ("start", "end", "data") and ("html_extractor" in ob or "epub_extractor" in ob):
        r = replay_witness(w, kind, which)
        if r:
            return r
    if "epub_extractor" in ob:
        only = ("read_epub",)
    elif "msg_email_extractor" in ob:
        only = ("msg",)
    elif "mhtml_extractor" in ob:
        only = ("read_mhtml",)
    elif "html_extractor" in ob:
        only = ("read_html", "read_mhtml", "msg")
    else:
        only = None
    fam = req.get("family")
    if fam:                                     # a named document family through the named entry points (bounded obligations)
        n = 0
        for d in globals()[fam["fn"]]():
            n += 1
            bad = check_markup(d, only=tuple(fam.get("only") or ()) or None)
            if bad:
                return bad
        return {"reproduced": False, "note": f"{n} documents of {fam['fn']} agree with the region spec"}
    kw = (req.get("witness") or {}) if req.get("known_finding") else {}
    if kw.get("markup_builder"):
        d = globals()[kw["markup_builder"]["fn"]]()[kw["markup_builder"]["index"]]
        ws = globals()[kw["wrappers"]]() if kw.get("wrappers") in ("header_object_wrappers",) else None
        return check_markup(d, only=tuple(kw.get("only") or ()) or None, wrappers=ws) or {"reproduced": False, "note": "recorded document now agrees with the region spec"}
    for d in regex_derived_docs(ob):           # directed: what the (changed) module matches textually
        if "<title>" in d:
            continue
        bad = check_markup(d, only=only)
        if bad:
            bad["derived_from"] = "regular expressions of the module under test"
            return bad
    if "mhtml_extractor" in ob:
        # directed: the archive around the document (header order of the part, line endings, size above the module's own size
        # constants) x lines in removed content that look like MIME delimiters
        ws = archive_shape_wrappers()
        for d in line_start_docs() + boundary_like_docs():
            bad = check_markup(d, wrappers=ws)
            if bad:
                bad["derived_from"] = "archive shapes x delimiter-like lines in removed content"
                return bad
    if "msg_email_extractor" in ob:
        known_fns = {k["fn"] for k in recorded_known_docs(ob)}
        for d in long_prefix_docs() + ([] if "deep_docs" in known_fns else deep_docs()):   # directed: evidence position / removed length / depth
            bad = check_markup(d, only=only)
            if bad:
                return bad
    return search(only=only, known=req.get("known_docs") or recorded_known_docs(ob))


def rerun(stored):
    inp = stored.get("inputs") or {}
    if inp.get("documents"):
        r = check_sequence(inp["documents"])
        return r or {"reproduced": False, "note": "stored document sequence now agrees with the region spec"}
    shaped = archive_shape_wrappers() if "(MIME archive" in (stored.get("target") or "") else None
    if inp.get("markup_builder"):
        d = globals()[inp["markup_builder"]["fn"]]()[inp["markup_builder"]["index"]]
        return check_markup(d, wrappers=shaped) or {"reproduced": False, "note": "stored document now agrees with the region spec"}
    if inp.get("markup"):
        r = check_markup(inp["markup"], wrappers=shaped)
        return r or {"reproduced": False, "note": "stored markup now agrees with the region spec"}
    if inp.get("events"):
        ev = [tuple(e) for e in inp["events"]]
        which = "epub" if "epub" in (stored.get("target") or "") else "html"
        vis, hid = classify(ev)
        bad = judge(run_handlers(which, ev), vis, hid)
        if bad:
            return {"reproduced": True, "target": stored.get("target"), "inputs": inp, "expected": stored.get("expected"), "observed": bad}
        return {"reproduced": False, "note": "stored event sequence now agrees with the region spec"}
    return search()
