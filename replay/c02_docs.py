"""Document-level generator for C02 (pure Python + the real library; no z3).

Abstract documents (flow documents, slide decks, workbooks) with unique class-tagged tokens per text
leaf are rendered to docx, odt, html, rtf, txt (flow), pptx, odp (decks), xlsx, ods (workbooks) and
read back through the public extractor entry points; get_full_text() is compared with the specified
text by token sequence (multiplicity, order, separation by whitespace, excluded classes absent).

Abstract model
  flow  : blocks = ("p", inlines) | ("h", inlines) | ("list", [item blocks]) | ("table", [[cell blocks]])
          | ("sdt", blocks) | ("section", blocks)
          inlines = ("t", tok) | ("tab",) | ("br",) | ("link", tok) | ("del", tok) | ("ins", tok)
                    | ("comment", tok) | ("note", tok) | ("box", [paragraph inlines ...])
          + header / footer tokens (excluded class HF)
  deck  : slides = {title, body: [paragraph inlines], table: [[tok]], notes, comment, footer}
  book  : sheets = (name, grid of tokens / "")
"""
from __future__ import annotations

import io
import zipfile
from xml.sax.saxutils import escape

from replay.c02_trees import Tok, classify

# ---------------------------------------------------------------------------- spec ----
def inline_spec(inl):
    out = []
    for it in inl:
        k = it[0]
        if k in ("t", "link", "ins"):
            out.append(it[1])
        elif k in ("tab",):
            out.append("\t")
        elif k == "br":
            out.append("\n")
        elif k == "box":
            out.append("\n" + "\n".join(inline_spec(p) for p in it[1]) + "\n")
        # del / comment / note: excluded classes contribute nothing
    return "".join(out)


def flow_spec(blocks):
    out = []
    for b in blocks:
        k = b[0]
        if k in ("p", "h"):
            out.append(inline_spec(b[1]))
        elif k == "list":
            out.extend(flow_spec(item) for item in b[1])
        elif k == "table":
            out.extend(flow_spec(cell) for row in b[1] for cell in row)
        elif k in ("sdt", "section"):
            out.append(flow_spec(b[1]))
    return "\n".join(out)


# ------------------------------------------------------------------------- features ----
def flow_features():
    """name -> (blocks, header token | None, footer token | None)"""
    tk = Tok()
    v, x = tk.v, tk.x
    P = lambda *inl: ("p", list(inl))
    T = lambda: ("t", v())
    F = {}
    F["paragraphs"] = [P(T()), P(T())]
    F["heading"] = [("h", [T()]), P(T())]
    F["runs-and-link"] = [P(T(), T(), ("link", v()), T())]
    F["tab"] = [P(T(), ("tab",), T())]
    F["line-break"] = [P(T(), ("br",), T())]
    F["list"] = [("list", [[P(T())], [P(T())]]), P(T())]
    F["nested-list"] = [("list", [[P(T()), ("list", [[P(T())], [P(T())]])], [P(T())]])]
    F["table"] = [("table", [[[P(T())], [P(T())]], [[P(T())], [P(T())]]]), P(T())]
    F["cell-paragraphs"] = [("table", [[[P(T()), P(T())], [P(T())]]])]
    F["nested-table"] = [("table", [[[P(T()), ("table", [[[P(T())], [P(T())]]])], [P(T())]]])]
    F["list-in-cell"] = [("table", [[[("list", [[P(T())], [P(T())]])]]])]
    F["tracked-change"] = [P(T(), ("del", x("DEL")), ("ins", v()), T())]
    F["comment"] = [P(T(), ("comment", x("COM")), T())]
    F["footnote"] = [P(T(), ("note", x("NOTE")), T())]
    F["content-control"] = [P(T()), ("sdt", [P(T()), P(T())]), P(T())]
    F["section"] = [("section", [P(T()), P(T())])]
    F["text-box"] = [P(T(), ("box", [[T()], [T()]]), T())]
    F["heading-in-list"] = [("list", [[("h", [T()]), P(T())]])]
    out = {k: (b, None, None) for k, b in F.items()}
    out["header-footer"] = ([P(T())], x("HF"), x("HF"))
    return out


# ----------------------------------------------------------------------------- docx ----
W_NS = "http://schemas.openxmlformats.org/wordprocessingml/2006/main"
DOCX_CT = ('<?xml version="1.0" encoding="UTF-8"?><Types xmlns="http://schemas.openxmlformats.org/package/2006/content-types">'
           '<Default Extension="rels" ContentType="application/vnd.openxmlformats-package.relationships+xml"/><Default Extension="xml" ContentType="application/xml"/>'
           '<Override PartName="/word/document.xml" ContentType="application/vnd.openxmlformats-officedocument.wordprocessingml.document.main+xml"/></Types>')
PKG_RELS = ('<?xml version="1.0" encoding="UTF-8"?><Relationships xmlns="http://schemas.openxmlformats.org/package/2006/relationships">'
            '<Relationship Id="rId1" Type="http://schemas.openxmlformats.org/officeDocument/2006/relationships/officeDocument" Target="%s"/></Relationships>')


def _zip(files):
    b = io.BytesIO()
    with zipfile.ZipFile(b, "w") as z:
        for name, data in files.items():
            z.writestr(name, data)
    b.seek(0)
    return b


class Unsupported(Exception):
    pass


def docx_inlines(inl, st):
    out = []
    for it in inl:
        k = it[0]
        if k == "t":
            out.append(f"<w:r><w:t>{it[1]}</w:t></w:r>")
        elif k == "tab":
            out.append("<w:r><w:tab/></w:r>")
        elif k == "br":
            out.append("<w:r><w:br/></w:r>")
        elif k == "link":
            out.append(f'<w:hyperlink r:id="rId9"><w:r><w:t>{it[1]}</w:t></w:r></w:hyperlink>')
        elif k == "del":
            out.append(f'<w:del w:id="1" w:author="a"><w:r><w:delText>{it[1]}</w:delText></w:r></w:del>')
        elif k == "ins":
            out.append(f'<w:ins w:id="2" w:author="a"><w:r><w:t>{it[1]}</w:t></w:r></w:ins>')
        elif k == "comment":
            st["comments"].append(it[1])
            n = len(st["comments"])
            out.append(f'<w:commentRangeStart w:id="{n}"/><w:commentRangeEnd w:id="{n}"/><w:r><w:commentReference w:id="{n}"/></w:r>')
        elif k == "note":
            st["notes"].append(it[1])
            out.append(f'<w:r><w:footnoteReference w:id="{len(st["notes"]) + 1}"/></w:r>')
        elif k == "box":
            pars = "".join("<w:p>" + docx_inlines(p, st) + "</w:p>" for p in it[1])
            out.append('<w:r><mc:AlternateContent><mc:Choice Requires="wps"><w:drawing><wp:inline><a:graphic><a:graphicData><wps:wsp><wps:txbx>'
                       f'<w:txbxContent>{pars}</w:txbxContent></wps:txbx></wps:wsp></a:graphicData></a:graphic></wp:inline></w:drawing></mc:Choice>'
                       f'<mc:Fallback><w:pict><v:shape><v:textbox><w:txbxContent>{pars}</w:txbxContent></v:textbox></v:shape></w:pict></mc:Fallback>'
                       '</mc:AlternateContent></w:r>')
        else:
            raise Unsupported(k)
    return "".join(out)


def docx_blocks(blocks, st):
    out = []
    for b in blocks:
        k = b[0]
        if k == "p":
            out.append("<w:p>" + docx_inlines(b[1], st) + "</w:p>")
        elif k == "h":
            out.append('<w:p><w:pPr><w:pStyle w:val="Heading1"/></w:pPr>' + docx_inlines(b[1], st) + "</w:p>")
        elif k == "list":
            def items(its, lvl):
                r = []
                for item in its:
                    for bb in item:
                        if bb[0] == "list":
                            r.extend(items(bb[1], lvl + 1))
                        elif bb[0] in ("p", "h"):
                            r.append(f'<w:p><w:pPr><w:numPr><w:ilvl w:val="{lvl}"/><w:numId w:val="1"/></w:numPr></w:pPr>' + docx_inlines(bb[1], st) + "</w:p>")
                        else:
                            raise Unsupported("list item content")
                return r
            out.extend(items(b[1], 0))
        elif k == "table":
            rows = "".join("<w:tr>" + "".join("<w:tc>" + docx_blocks(cell, st) + ("" if cell and cell[-1][0] in ("p", "h", "list") else "<w:p/>") + "</w:tc>"
                                              for cell in row) + "</w:tr>" for row in b[1])
            out.append(f"<w:tbl>{rows}</w:tbl>")
        elif k == "sdt":
            out.append("<w:sdt><w:sdtPr/><w:sdtContent>" + docx_blocks(b[1], st) + "</w:sdtContent></w:sdt>")
        elif k == "section":
            out.append(docx_blocks(b[1], st) + "<w:p><w:pPr><w:sectPr/></w:pPr></w:p>")
        else:
            raise Unsupported(k)
    return "".join(out)


DOCX_XMLNS = (f'xmlns:w="{W_NS}" xmlns:r="http://schemas.openxmlformats.org/officeDocument/2006/relationships" '
              'xmlns:mc="http://schemas.openxmlformats.org/markup-compatibility/2006" xmlns:v="urn:schemas-microsoft-com:vml" '
              'xmlns:wps="http://schemas.microsoft.com/office/word/2010/wordprocessingShape" '
              'xmlns:wp="http://schemas.openxmlformats.org/drawingml/2006/wordprocessingDrawing" xmlns:a="http://schemas.openxmlformats.org/drawingml/2006/main"')


def render_docx(blocks, header, footer):
    st = {"comments": [], "notes": []}
    body = docx_blocks(blocks, st)
    files = {"[Content_Types].xml": DOCX_CT, "_rels/.rels": PKG_RELS % "word/document.xml"}
    rels = ['<Relationship Id="rId9" Type="http://schemas.openxmlformats.org/officeDocument/2006/relationships/hyperlink" Target="http://example.org/" TargetMode="External"/>']
    sect = ""
    R = "http://schemas.openxmlformats.org/officeDocument/2006/relationships"
    if header:
        files["word/header1.xml"] = f'<?xml version="1.0"?><w:hdr {DOCX_XMLNS}><w:p><w:r><w:t>{header}</w:t></w:r></w:p></w:hdr>'
        rels.append(f'<Relationship Id="rId20" Type="{R}/header" Target="header1.xml"/>')
        sect += '<w:headerReference w:type="default" r:id="rId20"/>'
    if footer:
        files["word/footer1.xml"] = f'<?xml version="1.0"?><w:ftr {DOCX_XMLNS}><w:p><w:r><w:t>{footer}</w:t></w:r></w:p></w:ftr>'
        rels.append(f'<Relationship Id="rId21" Type="{R}/footer" Target="footer1.xml"/>')
        sect += '<w:footerReference w:type="default" r:id="rId21"/>'
    if st["comments"]:
        files["word/comments.xml"] = f'<?xml version="1.0"?><w:comments {DOCX_XMLNS}>' + "".join(
            f'<w:comment w:id="{i + 1}" w:author="a"><w:p><w:r><w:t>{c}</w:t></w:r></w:p></w:comment>' for i, c in enumerate(st["comments"])) + "</w:comments>"
        rels.append(f'<Relationship Id="rId22" Type="{R}/comments" Target="comments.xml"/>')
    if st["notes"]:
        files["word/footnotes.xml"] = f'<?xml version="1.0"?><w:footnotes {DOCX_XMLNS}>' + "".join(
            f'<w:footnote w:id="{i + 2}"><w:p><w:r><w:t>{c}</w:t></w:r></w:p></w:footnote>' for i, c in enumerate(st["notes"])) + "</w:footnotes>"
        rels.append(f'<Relationship Id="rId23" Type="{R}/footnotes" Target="footnotes.xml"/>')
    files["word/_rels/document.xml.rels"] = ('<?xml version="1.0"?><Relationships xmlns="http://schemas.openxmlformats.org/package/2006/relationships">'
                                             + "".join(rels) + "</Relationships>")
    files["word/document.xml"] = f'<?xml version="1.0" encoding="UTF-8" standalone="yes"?><w:document {DOCX_XMLNS}><w:body>{body}<w:sectPr>{sect}</w:sectPr></w:body></w:document>'
    return _zip(files)


# ------------------------------------------------------------------------------ odt ----
ODF_NS = {
    "office": "urn:oasis:names:tc:opendocument:xmlns:office:1.0", "text": "urn:oasis:names:tc:opendocument:xmlns:text:1.0",
    "table": "urn:oasis:names:tc:opendocument:xmlns:table:1.0", "draw": "urn:oasis:names:tc:opendocument:xmlns:drawing:1.0",
    "dc": "http://purl.org/dc/elements/1.1/", "style": "urn:oasis:names:tc:opendocument:xmlns:style:1.0",
    "svg": "urn:oasis:names:tc:opendocument:xmlns:svg-compatible:1.0", "xlink": "http://www.w3.org/1999/xlink",
    "presentation": "urn:oasis:names:tc:opendocument:xmlns:presentation:1.0", "meta": "urn:oasis:names:tc:opendocument:xmlns:meta:1.0",
    "fo": "urn:oasis:names:tc:opendocument:xmlns:xsl-fo-compatible:1.0",
}
ODF_XMLNS = " ".join(f'xmlns:{k}="{v}"' for k, v in ODF_NS.items())


def odt_inlines(inl, st):
    out = []
    for it in inl:
        k = it[0]
        if k == "t":
            out.append(f"<text:span>{it[1]}</text:span>")
        elif k == "tab":
            out.append("<text:tab/>")
        elif k == "br":
            out.append("<text:line-break/>")
        elif k == "link":
            out.append(f'<text:a xlink:href="http://example.org/">{it[1]}</text:a>')
        elif k == "del":
            st["deletions"].append(it[1])
            out.append(f'<text:change text:change-id="ct{len(st["deletions"])}"/>')
        elif k == "ins":
            out.append(f'<text:change-start text:change-id="ins1"/>{it[1]}<text:change-end text:change-id="ins1"/>')
        elif k == "comment":
            out.append(f"<office:annotation><dc:creator>a</dc:creator><text:p>{it[1]}</text:p></office:annotation>")
        elif k == "note":
            out.append(f'<text:note text:note-class="footnote"><text:note-citation>1</text:note-citation><text:note-body><text:p>{it[1]}</text:p></text:note-body></text:note>')
        elif k == "box":
            pars = "".join("<text:p>" + odt_inlines(p, st) + "</text:p>" for p in it[1])
            out.append(f'<draw:frame text:anchor-type="as-char"><draw:text-box>{pars}</draw:text-box></draw:frame>')
        else:
            raise Unsupported(k)
    return "".join(out)


def odt_blocks(blocks, st):
    out = []
    for b in blocks:
        k = b[0]
        if k == "p":
            out.append("<text:p>" + odt_inlines(b[1], st) + "</text:p>")
        elif k == "h":
            out.append('<text:h text:outline-level="1">' + odt_inlines(b[1], st) + "</text:h>")
        elif k == "list":
            out.append("<text:list>" + "".join("<text:list-item>" + odt_blocks(item, st) + "</text:list-item>" for item in b[1]) + "</text:list>")
        elif k == "table":
            out.append("<table:table>" + "".join("<table:table-row>" + "".join("<table:table-cell>" + odt_blocks(c, st) + "</table:table-cell>" for c in row)
                                                 + "</table:table-row>" for row in b[1]) + "</table:table>")
        elif k == "section":
            out.append('<text:section text:name="s1">' + odt_blocks(b[1], st) + "</text:section>")
        else:
            raise Unsupported(k)
    return "".join(out)


ODF_MANIFEST = ('<?xml version="1.0"?><manifest:manifest xmlns:manifest="urn:oasis:names:tc:opendocument:xmlns:manifest:1.0">'
                '<manifest:file-entry manifest:full-path="/" manifest:media-type="%s"/></manifest:manifest>')


def render_odt(blocks, header, footer):
    st = {"deletions": []}
    body = odt_blocks(blocks, st)
    tracked = ""
    if st["deletions"]:
        tracked = "<text:tracked-changes>" + "".join(
            f'<text:changed-region text:id="ct{i + 1}"><text:deletion><office:change-info><dc:creator>a</dc:creator></office:change-info><text:p>{d}</text:p></text:deletion></text:changed-region>'
            for i, d in enumerate(st["deletions"])) + "</text:tracked-changes>"
    content = f'<?xml version="1.0" encoding="UTF-8"?><office:document-content {ODF_XMLNS} office:version="1.2"><office:body><office:text>{tracked}{body}</office:text></office:body></office:document-content>'
    files = {"mimetype": "application/vnd.oasis.opendocument.text", "content.xml": content,
             "META-INF/manifest.xml": ODF_MANIFEST % "application/vnd.oasis.opendocument.text"}
    if header or footer:
        hf = (f"<style:header><text:p>{header}</text:p></style:header>" if header else "") + (f"<style:footer><text:p>{footer}</text:p></style:footer>" if footer else "")
        files["styles.xml"] = (f'<?xml version="1.0"?><office:document-styles {ODF_XMLNS}><office:master-styles><style:master-page style:name="Standard">{hf}'
                               '</style:master-page></office:master-styles></office:document-styles>')
    return _zip(files)


# ----------------------------------------------------------------------------- html ----
def html_inlines(inl):
    out = []
    for it in inl:
        k = it[0]
        if k == "t":
            out.append(f"<span>{it[1]}</span>")
        elif k == "tab":
            out.append("&#9;")
        elif k == "br":
            out.append("<br>")
        elif k == "link":
            out.append(f'<a href="http://example.org/">{it[1]}</a>')
        elif k == "del":
            raise Unsupported("html has no documented exclusion for <del>")
        elif k == "ins":
            out.append(f"<ins>{it[1]}</ins>")
        elif k == "comment":
            out.append(f"<!-- {it[1]} -->")
        else:
            raise Unsupported(k)
    return "".join(out)


def html_blocks(blocks):
    out = []
    for b in blocks:
        k = b[0]
        if k == "p":
            out.append("<p>" + html_inlines(b[1]) + "</p>")
        elif k == "h":
            out.append("<h2>" + html_inlines(b[1]) + "</h2>")
        elif k == "list":
            out.append("<ul>" + "".join("<li>" + html_blocks(item) + "</li>" for item in b[1]) + "</ul>")
        elif k == "table":
            out.append("<table>" + "".join("<tr>" + "".join("<td>" + html_blocks(c) + "</td>" for c in row) + "</tr>" for row in b[1]) + "</table>")
        elif k == "section":
            out.append("<section>" + html_blocks(b[1]) + "</section>")
        else:
            raise Unsupported(k)
    return "".join(out)


def render_html(blocks, header, footer):
    if header or footer:
        raise Unsupported("header/footer")
    return io.BytesIO(("<!DOCTYPE html><html><head><title>t</title><style>p{color:red}</style></head><body>" + html_blocks(blocks)
                       + "<script>var XRM999x = 1;</script></body></html>").encode("utf-8"))


# ------------------------------------------------------------------------------ rtf ----
def rtf_inlines(inl):
    out = []
    for it in inl:
        k = it[0]
        if k in ("t", "ins"):
            out.append("{" + it[1] + "}")
        elif k == "tab":
            out.append("\\tab ")
        elif k == "br":
            out.append("\\line ")
        elif k == "link":
            out.append('{\\field{\\*\\fldinst HYPERLINK "http://example.org/"}{\\fldrslt ' + it[1] + "}}")
        elif k == "del":
            raise Unsupported("rtf \\deleted is not a documented exclusion")
        elif k == "comment":
            out.append("{\\*\\annotation " + it[1] + "}")
        elif k == "note":
            raise Unsupported("rtf footnotes are neither documented as excluded nor as part of the body")
        else:
            raise Unsupported(k)
    return "".join(out)


def rtf_blocks(blocks):
    out = []
    for b in blocks:
        k = b[0]
        if k in ("p", "h"):
            out.append("\\pard " + rtf_inlines(b[1]) + "\\par\n")
        elif k == "list":
            for item in b[1]:
                for bb in item:
                    if bb[0] not in ("p", "h"):
                        raise Unsupported("nested list in rtf")
                    out.append("\\pard {\\pntext\\bullet\\tab}" + rtf_inlines(bb[1]) + "\\par\n")
        elif k == "table":
            for row in b[1]:
                cells = ""
                for c in row:
                    if any(bb[0] not in ("p", "h") for bb in c):
                        raise Unsupported("nested table in rtf")
                    cells += "\\par ".join(rtf_inlines(bb[1]) for bb in c) + "\\cell "
                out.append("\\trowd\\cellx3000\\cellx6000 \\intbl " + cells + "\\row\n")
        else:
            raise Unsupported(k)
    return "".join(out)


def render_rtf(blocks, header, footer):
    hf = ("{\\header " + header + "\\par}" if header else "") + ("{\\footer " + footer + "\\par}" if footer else "")
    return io.BytesIO(("{\\rtf1\\ansi\\deff0{\\fonttbl{\\f0 Arial;}}" + hf + "\n" + rtf_blocks(blocks) + "}").encode("ascii"))


# ------------------------------------------------------------------------------ txt ----
def render_txt(blocks, header, footer):
    if header or footer:
        raise Unsupported("header/footer")

    def inl(i):
        out = []
        for it in i:
            if it[0] in ("t", "link", "ins"):
                out.append(it[1])
            elif it[0] == "tab":
                out.append("\t")
            elif it[0] == "br":
                out.append("\n")
            else:
                raise Unsupported(it[0])
        return "".join(out)

    def blk(bs):
        out = []
        for b in bs:
            if b[0] in ("p", "h"):
                out.append(inl(b[1]))
            elif b[0] == "list":
                out.extend("- " + blk(item) for item in b[1])
            elif b[0] == "table":
                out.extend(" | ".join(blk(c) for c in row) for row in b[1])
            else:
                raise Unsupported(b[0])
        return "\n".join(out)
    return io.BytesIO(blk(blocks).encode("utf-8"))


def render_mhtml(blocks, header, footer):
    html = render_html(blocks, header, footer).getvalue().decode("utf-8")
    b = "----=_NextPart_C02"
    doc = ("From: <Saved by C02>\r\nSubject: t\r\nMIME-Version: 1.0\r\n"
           f'Content-Type: multipart/related; type="text/html"; boundary="{b}"\r\n\r\n'
           f"--{b}\r\nContent-Type: text/html; charset=\"utf-8\"\r\nContent-Transfer-Encoding: 8bit\r\nContent-Location: http://example.org/\r\n\r\n"
           + html + f"\r\n--{b}--\r\n")
    return io.BytesIO(doc.encode("utf-8"))


EPUB_SKELETON = {
    "mimetype": "application/epub+zip",
    "META-INF/container.xml": '<?xml version="1.0"?><container version="1.0" xmlns="urn:oasis:names:tc:opendocument:xmlns:container">'
                              '<rootfiles><rootfile full-path="OEBPS/content.opf" media-type="application/oebps-package+xml"/></rootfiles></container>',
    "OEBPS/content.opf": '<?xml version="1.0"?><package xmlns="http://www.idpf.org/2007/opf" version="3.0" unique-identifier="id">'
                         '<metadata xmlns:dc="http://purl.org/dc/elements/1.1/"><dc:title>T</dc:title><dc:identifier id="id">x</dc:identifier></metadata>'
                         '<manifest><item id="c1" href="c1.xhtml" media-type="application/xhtml+xml"/></manifest><spine><itemref idref="c1"/></spine></package>',
}


def render_epub(blocks, header, footer):
    if header or footer:
        raise Unsupported("header/footer")

    def no_tables(bs):
        for b in bs:
            if b[0] == "table":
                raise Unsupported("epub tables are documented through iterate_tables()")
            if b[0] in ("list",):
                for item in b[1]:
                    no_tables(item)
            if b[0] in ("section", "sdt"):
                no_tables(b[1])
    no_tables(blocks)
    body = html_blocks(blocks).replace("<br>", "<br/>").replace("&#9;", "\t")
    files = {
        "mimetype": "application/epub+zip",
        "META-INF/container.xml": '<?xml version="1.0"?><container version="1.0" xmlns="urn:oasis:names:tc:opendocument:xmlns:container">'
                                  '<rootfiles><rootfile full-path="OEBPS/content.opf" media-type="application/oebps-package+xml"/></rootfiles></container>',
        "OEBPS/content.opf": '<?xml version="1.0"?><package xmlns="http://www.idpf.org/2007/opf" version="3.0" unique-identifier="id">'
                             '<metadata xmlns:dc="http://purl.org/dc/elements/1.1/"><dc:title>T</dc:title><dc:identifier id="id">x</dc:identifier></metadata>'
                             '<manifest><item id="c1" href="c1.xhtml" media-type="application/xhtml+xml"/></manifest><spine><itemref idref="c1"/></spine></package>',
        "OEBPS/c1.xhtml": '<?xml version="1.0"?><html xmlns="http://www.w3.org/1999/xhtml"><head><title>c1</title><style>p{}</style></head><body>'
                          + body + "<script>var XRM998x = 1;</script></body></html>",
    }
    return _zip(files)


FLOW = {
    "docx": ("ms_modern.docx_extractor", "read_docx", render_docx),
    "odt": ("open_office.odt_extractor", "read_odt", render_odt),
    "html": ("html_extractor", "read_html", render_html),
    "rtf": ("ms_legacy.rtf_extractor", "read_rtf", render_rtf),
    "txt": ("plain_extractor", "read_plain_text", render_txt),
    "mhtml": ("mhtml_extractor", "read_mhtml", render_mhtml),
    "epub": ("epub_extractor", "read_epub", render_epub),
}


# ------------------------------------------------------------------------- decks ----
def deck_features():
    tk = Tok()
    v, x = tk.v, tk.x
    F = {}
    F["title-body"] = [dict(title=v(), body=[[("t", v())], [("t", v())]]), dict(title=v(), body=[[("t", v())]])]
    F["line-break"] = [dict(title=v(), body=[[("t", v()), ("br",), ("t", v())]])]
    F["runs"] = [dict(title=v(), body=[[("t", v()), ("t", v())]])]
    F["table"] = [dict(title=v(), body=[[("t", v())]], table=[[v(), v()], [v(), v()]])]
    F["notes"] = [dict(title=v(), body=[[("t", v())]], notes=x("NOTE"))]
    F["comment"] = [dict(title=v(), body=[[("t", v())]], comment=x("COM"))]
    F["footer"] = [dict(title=v(), body=[[("t", v())]], footer=x("HF"))]
    F["two-textboxes"] = [dict(title=v(), body=[[("t", v())]], extra=[[("t", v())]])]
    F["subtitle"] = [dict(title=v(), subtitle=v(), body=[[("t", v())]])]
    F["object-and-unknown-placeholders"] = [dict(title=v(), body=[[("t", v())]], placeholders=[("obj", v()), ("chart", v()), ("sldNum", v())])]
    F["date-and-header-placeholders"] = [dict(title=v(), body=[[("t", v())]], placeholders=[("dt", x("HF")), ("hdr", x("HF"))])]
    return F


def deck_spec(slides, tables_in_text=True):
    """pptx: reading order.  odp (tables_in_text False): the documented category order title, body, other --
    a SubTitle-styled paragraph after the title is `other`."""
    out = []
    for s in slides:
        out.append(s["title"])
        if s.get("subtitle") and tables_in_text:
            out.append(s["subtitle"])
        out.extend(inline_spec(p) for p in s["body"])
        out.extend(inline_spec(p) for p in s.get("extra", []))
        out.extend(t for k, t in s.get("placeholders", []) if k not in ("dt", "hdr", "ftr", "sldImg"))
        if s.get("subtitle") and not tables_in_text:
            out.append(s["subtitle"])
        if tables_in_text and s.get("table"):
            out.extend(" ".join(r) for r in s["table"])
    return "\n".join(out)


P_NS = "http://schemas.openxmlformats.org/presentationml/2006/main"
A_NS = "http://schemas.openxmlformats.org/drawingml/2006/main"
R_NS = "http://schemas.openxmlformats.org/officeDocument/2006/relationships"
PPTX_XMLNS = f'xmlns:p="{P_NS}" xmlns:a="{A_NS}" xmlns:r="{R_NS}"'


def pptx_par(p):
    out = []
    for it in p:
        if it[0] == "t":
            out.append(f"<a:r><a:t>{it[1]}</a:t></a:r>")
        elif it[0] == "br":
            out.append("<a:br/>")
        else:
            raise Unsupported(it[0])
    return "<a:p>" + "".join(out) + "</a:p>"


def pptx_shape(idx, ph, pars, y):
    phx = f'<p:nvPr><p:ph type="{ph}"/></p:nvPr>' if ph else "<p:nvPr/>"
    return (f'<p:sp><p:nvSpPr><p:cNvPr id="{idx}" name="s{idx}"/><p:cNvSpPr/>{phx}</p:nvSpPr><p:spPr><a:xfrm><a:off x="100" y="{y}"/><a:ext cx="1000" cy="500"/></a:xfrm></p:spPr>'
            f'<p:txBody><a:bodyPr/>{"".join(pptx_par(p) for p in pars)}</p:txBody></p:sp>')


def pptx_from_slide_xml(slide_xml):
    """Minimal one-slide package around a given slide part."""
    files = {
        "[Content_Types].xml": '<?xml version="1.0"?><Types xmlns="http://schemas.openxmlformats.org/package/2006/content-types">'
                               '<Default Extension="rels" ContentType="application/vnd.openxmlformats-package.relationships+xml"/><Default Extension="xml" ContentType="application/xml"/>'
                               '<Override PartName="/ppt/presentation.xml" ContentType="application/vnd.openxmlformats-officedocument.presentationml.presentation.main+xml"/>'
                               '<Override PartName="/ppt/slides/slide1.xml" ContentType="application/vnd.openxmlformats-officedocument.presentationml.slide+xml"/></Types>',
        "_rels/.rels": PKG_RELS % "ppt/presentation.xml",
        "ppt/presentation.xml": f'<?xml version="1.0"?><p:presentation {PPTX_XMLNS}><p:sldIdLst><p:sldId id="256" r:id="rId1"/></p:sldIdLst></p:presentation>',
        "ppt/_rels/presentation.xml.rels": '<?xml version="1.0"?><Relationships xmlns="http://schemas.openxmlformats.org/package/2006/relationships">'
                                           f'<Relationship Id="rId1" Type="{R_NS}/slide" Target="slides/slide1.xml"/></Relationships>',
        "ppt/slides/slide1.xml": slide_xml,
        "ppt/slides/_rels/slide1.xml.rels": '<?xml version="1.0"?><Relationships xmlns="http://schemas.openxmlformats.org/package/2006/relationships"></Relationships>',
    }
    return _zip(files)


def docx_from_document_xml(document_xml):
    return _zip({"[Content_Types].xml": DOCX_CT, "_rels/.rels": PKG_RELS % "word/document.xml", "word/document.xml": document_xml,
                 "word/_rels/document.xml.rels": '<?xml version="1.0"?><Relationships xmlns="http://schemas.openxmlformats.org/package/2006/relationships"></Relationships>'})


def odf_from_content_xml(content_xml, mimetype):
    return _zip({"mimetype": mimetype, "content.xml": content_xml, "META-INF/manifest.xml": ODF_MANIFEST % mimetype})


def render_pptx(slides):
    files = {}
    ct = ['<Default Extension="rels" ContentType="application/vnd.openxmlformats-package.relationships+xml"/>', '<Default Extension="xml" ContentType="application/xml"/>',
          '<Override PartName="/ppt/presentation.xml" ContentType="application/vnd.openxmlformats-officedocument.presentationml.presentation.main+xml"/>']
    prel, ids = [], []
    for n, s in enumerate(slides, 1):
        shapes = [pptx_shape(2, "title", [[("t", s["title"])]], 100), pptx_shape(3, "body", s["body"], 1000)]
        if s.get("subtitle"):
            shapes.append(pptx_shape(4, "subTitle", [[("t", s["subtitle"])]], 500))
        if s.get("extra"):
            shapes.append(pptx_shape(5, None, s["extra"], 2000))
        for k, (pht, tok) in enumerate(s.get("placeholders", [])):
            shapes.append(pptx_shape(20 + k, pht, [[("t", tok)]], 2500 + 10 * k))
        if s.get("table"):
            rows = "".join("<a:tr>" + "".join(f"<a:tc><a:txBody><a:bodyPr/><a:p><a:r><a:t>{c}</a:t></a:r></a:p></a:txBody></a:tc>" for c in r) + "</a:tr>" for r in s["table"])
            shapes.append('<p:graphicFrame><p:nvGraphicFramePr><p:cNvPr id="6" name="t"/><p:cNvGraphicFramePr/><p:nvPr/></p:nvGraphicFramePr>'
                          '<p:xfrm><a:off x="100" y="3000"/><a:ext cx="10" cy="10"/></p:xfrm>'
                          f'<a:graphic><a:graphicData uri="http://schemas.openxmlformats.org/drawingml/2006/table"><a:tbl>{rows}</a:tbl></a:graphicData></a:graphic></p:graphicFrame>')
        if s.get("footer"):
            shapes.append(pptx_shape(7, "ftr", [[("t", s["footer"])]], 5000))
        files[f"ppt/slides/slide{n}.xml"] = (f'<?xml version="1.0"?><p:sld {PPTX_XMLNS}><p:cSld><p:spTree><p:nvGrpSpPr><p:cNvPr id="1" name=""/><p:cNvGrpSpPr/><p:nvPr/></p:nvGrpSpPr><p:grpSpPr/>'
                                             + "".join(shapes) + "</p:spTree></p:cSld></p:sld>")
        ct.append(f'<Override PartName="/ppt/slides/slide{n}.xml" ContentType="application/vnd.openxmlformats-officedocument.presentationml.slide+xml"/>')
        prel.append(f'<Relationship Id="rId{n}" Type="{R_NS}/slide" Target="slides/slide{n}.xml"/>')
        ids.append(f'<p:sldId id="{255 + n}" r:id="rId{n}"/>')
        srel = []
        if s.get("notes"):
            files[f"ppt/notesSlides/notesSlide{n}.xml"] = (f'<?xml version="1.0"?><p:notes {PPTX_XMLNS}><p:cSld><p:spTree>' + pptx_shape(2, "body", [[("t", s["notes"])]], 0)
                                                           + "</p:spTree></p:cSld></p:notes>")
            srel.append(f'<Relationship Id="rId1" Type="{R_NS}/notesSlide" Target="../notesSlides/notesSlide{n}.xml"/>')
        if s.get("comment"):
            files[f"ppt/comments/comment{n}.xml"] = (f'<?xml version="1.0"?><p:cmLst {PPTX_XMLNS}><p:cm authorId="0" dt="2020-01-01T00:00:00" idx="1"><p:pos x="1" y="1"/>'
                                                     f'<p:text>{s["comment"]}</p:text></p:cm></p:cmLst>')
            srel.append(f'<Relationship Id="rId2" Type="{R_NS}/comments" Target="../comments/comment{n}.xml"/>')
        files[f"ppt/slides/_rels/slide{n}.xml.rels"] = ('<?xml version="1.0"?><Relationships xmlns="http://schemas.openxmlformats.org/package/2006/relationships">'
                                                        + "".join(srel) + "</Relationships>")
    files["[Content_Types].xml"] = '<?xml version="1.0"?><Types xmlns="http://schemas.openxmlformats.org/package/2006/content-types">' + "".join(ct) + "</Types>"
    files["_rels/.rels"] = PKG_RELS % "ppt/presentation.xml"
    files["ppt/presentation.xml"] = f'<?xml version="1.0"?><p:presentation {PPTX_XMLNS}><p:sldIdLst>{"".join(ids)}</p:sldIdLst></p:presentation>'
    files["ppt/_rels/presentation.xml.rels"] = ('<?xml version="1.0"?><Relationships xmlns="http://schemas.openxmlformats.org/package/2006/relationships">'
                                                + "".join(prel) + "</Relationships>")
    return _zip(files)


def odp_par(p, style):
    out = []
    for it in p:
        if it[0] == "t":
            out.append(f"<text:span>{it[1]}</text:span>")
        elif it[0] == "br":
            out.append("<text:line-break/>")
        else:
            raise Unsupported(it[0])
    return f'<text:p text:style-name="{style}">' + "".join(out) + "</text:p>"


def render_odp(slides):
    pages = []
    for n, s in enumerate(slides, 1):
        if s.get("footer") or s.get("placeholders"):
            raise Unsupported("odp footer / placeholder types")
        fr = [f'<draw:frame presentation:class="title" svg:x="1cm" svg:y="1cm"><draw:text-box>{odp_par([("t", s["title"])], "TitleText")}</draw:text-box></draw:frame>',
              '<draw:frame presentation:class="outline" svg:x="1cm" svg:y="4cm"><draw:text-box>' + "".join(odp_par(p, "BodyText") for p in s["body"]) + "</draw:text-box></draw:frame>"]
        if s.get("subtitle"):
            fr.append(f'<draw:frame presentation:class="subtitle" svg:x="1cm" svg:y="2cm"><draw:text-box>{odp_par([("t", s["subtitle"])], "SubTitleText")}</draw:text-box></draw:frame>')
        if s.get("extra"):
            fr.append('<draw:frame svg:x="1cm" svg:y="8cm"><draw:text-box>' + "".join(odp_par(p, "BodyText") for p in s["extra"]) + "</draw:text-box></draw:frame>")
        if s.get("comment"):
            fr.append(f'<draw:frame svg:x="1cm" svg:y="9cm"><draw:text-box><office:annotation><dc:creator>a</dc:creator><text:p>{s["comment"]}</text:p></office:annotation></draw:text-box></draw:frame>')
        if s.get("table"):
            rows = "".join("<table:table-row>" + "".join(f"<table:table-cell><text:p>{c}</text:p></table:table-cell>" for c in r) + "</table:table-row>" for r in s["table"])
            fr.append(f'<draw:frame svg:x="1cm" svg:y="12cm"><table:table>{rows}</table:table></draw:frame>')
        notes = ""
        if s.get("notes"):
            notes = f'<presentation:notes><draw:frame presentation:class="notes"><draw:text-box><text:p>{s["notes"]}</text:p></draw:text-box></draw:frame></presentation:notes>'
        pages.append(f'<draw:page draw:name="page{n}">' + "".join(fr) + notes + "</draw:page>")
    content = (f'<?xml version="1.0" encoding="UTF-8"?><office:document-content {ODF_XMLNS} office:version="1.2"><office:body><office:presentation>'
               + "".join(pages) + "</office:presentation></office:body></office:document-content>")
    mt = "application/vnd.oasis.opendocument.presentation"
    return _zip({"mimetype": mt, "content.xml": content, "META-INF/manifest.xml": ODF_MANIFEST % mt})


DECKS = {
    "pptx": ("ms_modern.pptx_extractor", "read_pptx", render_pptx, True),
    "odp": ("open_office.odp_extractor", "read_odp", render_odp, False),       # odp documents its tables via iterate_tables()
}


# -------------------------------------------------------------------------- workbooks ----
def book_features():
    tk = Tok()
    v, x = tk.v, tk.x
    F = {}
    F["grid"] = [("S" + v(), [[v(), v()], [v(), v()]])]
    F["two-sheets"] = [("S" + v(), [[v(), v()], [v(), v()]]), ("S" + v(), [[v()], [v()]])]
    F["ragged"] = [("S" + v(), [[v(), v(), v()], [v()], [v(), v()]])]
    F["empty-header-cell"] = [("S" + v(), [[v(), "", v()], [v(), v(), v()]])]
    F["empty-inner-cell"] = [("S" + v(), [[v(), v(), v()], [v(), "", v()]])]
    F["empty-row"] = [("S" + v(), [[v(), v()], ["", ""], [v(), v()]])]
    F["multi-word-cell"] = [("S" + v(), [[v() + " " + v(), v()], [v(), v()]])]
    F["cell-comment"] = [("S" + v(), [[v(), v()], [v(), v()]], {(1, 1): x("COM")})]
    F["one-row-sheet"] = [("S" + v(), [[v(), v()], [v(), v()]]), ("S" + v(), [[v(), v(), v()]]), ("S" + v(), [[v()], [v()]])]
    F["one-cell-sheet"] = [("S" + v(), [[v()]])]
    F["empty-sheet-between"] = [("S" + v(), [[v()], [v()]]), ("S" + v(), []), ("S" + v(), [[v()], [v()]])]
    # falsy values are values: a closing row of zeros / FALSE is content (cell = (python value, ods value-type, ods value, expected text))
    zero, false = (0, "float", "0", "0"), (False, "boolean", "false", None)
    F["zero-and-false-last-row"] = [("S" + v(), [[v(), v()], [v(), (7, "float", "7", "7")], [zero, false]])]
    F["zero-rows-inside"] = [("S" + v(), [[v(), v()], [zero, zero], [v(), v()]])]
    return F


def book_spec(sheets, fmt="xlsx"):
    def shown(c):
        if isinstance(c, tuple):
            return c[3] if c[3] is not None else (str(c[0]) if fmt in ("xlsx", "xls") else c[2])
        return c
    out = []
    for sh in sheets:
        if fmt != "xls":            # .xls: the full text is the sheet texts (names are on the units)
            out.append(sh[0])
        out.extend(" ".join(shown(c) for c in row) for row in sh[1])
    return "\n".join(out)


def render_xlsx(sheets):
    import openpyxl
    from openpyxl.comments import Comment
    wb = openpyxl.Workbook()
    wb.remove(wb.active)
    for sh in sheets:
        ws = wb.create_sheet(sh[0])
        for r, row in enumerate(sh[1], 1):
            for c, val in enumerate(row, 1):
                if val != "":
                    ws.cell(row=r, column=c, value=val[0] if isinstance(val, tuple) else val)
        for (r, c), text in (sh[2] if len(sh) > 2 else {}).items():
            ws.cell(row=r + 1, column=c + 1).comment = Comment(text, "a")
    b = io.BytesIO()
    wb.save(b)
    b.seek(0)
    return b


def render_ods(sheets):
    tabs = []
    for sh in sheets:
        com = sh[2] if len(sh) > 2 else {}
        rows = ""
        for r, row in enumerate(sh[1]):
            cells = ""
            for c, val in enumerate(row):
                ann = f"<office:annotation><dc:creator>a</dc:creator><text:p>{com[(r, c)]}</text:p></office:annotation>" if (r, c) in com else ""
                if isinstance(val, tuple):
                    attr = {"boolean": "boolean-value"}.get(val[1], "value")
                    cells += f'<table:table-cell office:value-type="{val[1]}" office:{attr}="{val[2]}">{ann}<text:p>{val[2].upper()}</text:p></table:table-cell>'
                    continue
                cells += (f'<table:table-cell office:value-type="string">{ann}<text:p>{val}</text:p></table:table-cell>' if val != "" else f"<table:table-cell>{ann}</table:table-cell>")
            rows += f"<table:table-row>{cells}</table:table-row>"
        tabs.append(f'<table:table table:name="{sh[0]}">{rows}</table:table>')
    content = (f'<?xml version="1.0" encoding="UTF-8"?><office:document-content {ODF_XMLNS} office:version="1.2"><office:body><office:spreadsheet>'
               + "".join(tabs) + "</office:spreadsheet></office:body></office:document-content>")
    mt = "application/vnd.oasis.opendocument.spreadsheet"
    return _zip({"mimetype": mt, "content.xml": content, "META-INF/manifest.xml": ODF_MANIFEST % mt})


class _XlsDoc(io.BytesIO):
    """A minimal compound file with a Workbook stream; the parsed workbook (xlrd) is supplied as a fake with real xlrd cells,
    because no BIFF writer is available: the library's own code runs from read_xls on."""
    fake_book = None


def render_xls(sheets):
    import xlrd
    from xlrd.sheet import Cell
    from replay.C08 import biff, ole_bytes
    for sh in sheets:
        if len(sh) > 2 and sh[2]:
            raise Unsupported("cell comments of .xls are not parsed by xlrd")

    def mk_cell(v):
        if v == "":
            return Cell(xlrd.XL_CELL_EMPTY, "")
        if isinstance(v, tuple):
            return Cell(xlrd.XL_CELL_BOOLEAN, int(v[0])) if isinstance(v[0], bool) else Cell(xlrd.XL_CELL_NUMBER, float(v[0]))
        return Cell(xlrd.XL_CELL_TEXT, v)

    class Sheet:
        def __init__(self, name, grid):
            self.name, self.grid = name, grid
            self.nrows, self.ncols = len(grid), max([len(r) for r in grid] + [0])

        def cell(self, r, c):
            row = self.grid[r]
            return mk_cell(row[c] if c < len(row) else "")

    class Book:
        datemode = 0

        def __init__(self):
            self._sheets = [Sheet(sh[0], sh[1]) for sh in sheets]

        def sheets(self):
            return self._sheets
    doc = _XlsDoc(ole_bytes([("Workbook", biff([(0x0809, b"\0" * 16), (0x000A, b"")]))]))
    doc.fake_book = Book()
    return doc


BOOKS = {
    "xlsx": ("ms_modern.xlsx_extractor", "read_xlsx", render_xlsx),
    "xls": ("ms_legacy.xls_extractor", "read_xls", render_xls),
    "ods": ("open_office.ods_extractor", "read_ods", render_ods),
}


# ------------------------------------------------------------------------------- run ----
def _read(modname, fn, data, ext):
    import importlib
    import logging
    logging.disable(logging.CRITICAL)
    m = importlib.import_module("sharepoint2text.parsing.extractors." + modname)
    fake = getattr(data, "fake_book", None)
    if fake is not None:
        import xlrd
        real = xlrd.open_workbook
        xlrd.open_workbook = lambda *a, **k: fake
        try:
            res = list(getattr(m, fn)(data, path=f"doc.{ext}"))
        finally:
            xlrd.open_workbook = real
    else:
        res = list(getattr(m, fn)(data, path=f"doc.{ext}"))
    return "\n".join(r.get_full_text() for r in res)


def run_documents(formats=None):
    """{format: {feature: {"ok": bool, "unsupported": bool, witness fields}}}"""
    out = {}
    jobs = []
    for fmt, (mod, fn, render) in FLOW.items():
        for feat, (blocks, hd, ft) in flow_features().items():
            jobs.append((fmt, feat, mod, fn, (lambda render=render, blocks=blocks, hd=hd, ft=ft: render(blocks, hd, ft)), flow_spec(blocks), repr(blocks)))
    for fmt, (mod, fn, render, tit) in DECKS.items():
        for feat, slides in deck_features().items():
            jobs.append((fmt, feat, mod, fn, (lambda render=render, slides=slides: render(slides)), deck_spec(slides, tit), repr(slides)))
    for fmt, (mod, fn, render) in BOOKS.items():
        for feat, sheets in book_features().items():
            jobs.append((fmt, feat, mod, fn, (lambda render=render, sheets=sheets: render(sheets)), book_spec(sheets, fmt), repr(sheets)))
    for fmt, feat, mod, fn, mk, spec, model in jobs:
        if formats and fmt not in formats:
            continue
        rec = out.setdefault(fmt, {})
        try:
            data = mk()
        except Unsupported as e:
            rec[feat] = {"unsupported": str(e)}
            continue
        try:
            text = _read(mod, fn, data, fmt)
        except Exception as e:  # noqa
            rec[feat] = {"ok": False, "kinds": ["error"], "error": f"{type(e).__name__}: {e}", "inputs": model}
            continue
        d = classify(text, spec)
        if d is None:
            rec[feat] = {"ok": True}
        else:
            rec[feat] = dict(d, ok=False, target=f"{mod}.{fn}(...).get_full_text()", inputs=model, expected=spec, observed=text)
    return out
