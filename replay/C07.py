"""Native replay for C07: real router functions on a grammar of path strings
under several mimetypes configurations."""
import itertools
import mimetypes


def router():
    from sharepoint2text.parsing import router as r
    return r


def outcome(path):
    r = router()
    from sharepoint2text.parsing.exceptions import ExtractionFileFormatNotSupportedError
    try:
        f = r.get_extractor(path)
        return ("ok", f"{f.__module__}.{f.__name__}")
    except ExtractionFileFormatNotSupportedError:
        return ("notsupported", None)
    except Exception as e:  # noqa
        return ("other", type(e).__name__)


def configs():
    def default():
        mimetypes.init()
    def empty():
        mimetypes.init(files=[])
        db = mimetypes._db
        for m in db.types_map + db.types_map_inv:
            m.clear()
        db.encodings_map.clear()
        db.suffix_map.clear()
    def hostile():
        mimetypes.init()
        mimetypes.add_type("application/pdf", ".docx")
        mimetypes.add_type("application/pdf", ".weird")
        mimetypes.add_type("text/html", ".zip")
        mimetypes.add_type("application/zip", ".unknownext")
    def mime_table():
        # a host database that knows every MIME type of the library's own fallback table under a private extension
        mimetypes.init()
        for i, k in enumerate(_mime_keys()):
            mimetypes.add_type(k, f".c07m{i}")
        # ... and that has a private content-encoding suffix and a private suffix alias: a name typed through MORE than its last
        # suffix exists on every host, whatever the platform's own encodings_map / suffix_map contain
        mimetypes._db.encodings_map[".c07z"] = "c07z"
        mimetypes._db.suffix_map[".c07s"] = ".c07m0.c07z"
    def mime_variants():
        # a host database (fresh: nothing of the platform's files) that answers with spellings of the table's MIME types that
        # are NOT table keys -- other case, parameters, blanks -- for extensions the router does not know: whatever the MIME
        # fallback does with such an answer, both entry points must do the same
        empty()
        for ext, v in _mime_variants():
            mimetypes.add_type(v, ext)
    return [("default", default), ("empty", empty), ("hostile", hostile), ("mime-table", mime_table), ("mime-variants", mime_variants)]


def _mime_variants():
    """[(private extension, spelling)]: for every key of MIME_TYPE_MAPPING its case variants and parameterised variants that are
    not themselves keys (computed from the table of the tree under test, so independent of what it happens to contain)"""
    from sharepoint2text.parsing.mime_types import MIME_TYPE_MAPPING
    out = []
    for i, k in enumerate(sorted(MIME_TYPE_MAPPING)):
        major, _, minor = k.partition("/")
        cands = [k.upper(), k.lower(), k.title(), k.swapcase(), f"{major.capitalize()}/{minor}", f"{major}/{minor.upper()}",
                 f"{k}; charset=utf-8", f"{k};version=1", f"{k} ", f" {k}", f"{k};", f"{k.upper()}; charset=UTF-8", f"x-{k}", f"{k}+zip"]
        seen = set()
        for j, v in enumerate(cands):
            if v in MIME_TYPE_MAPPING or v in seen:
                continue
            seen.add(v)
            out.append((f".c07v{i}x{j}", v))
    return out


def _mime_keys():
    from sharepoint2text.parsing.mime_types import MIME_TYPE_MAPPING
    return sorted(MIME_TYPE_MAPPING)


def paths(extra=()):
    r = router()
    exts = sorted(set(r._EXTRACTOR_REGISTRY) | set(r._EXTENSION_ALIASES) | {k[1:] for k in r._COMPOUND_EXTENSIONS}
                  | {"weird", "unknownext", "exe", "", "tar", "TAR.GZ", "jpeg", "xml", "srt", "text", "nws", "xhtml"})
    stems = ["a", "dir/a", "/abs/x.y", "a b", "http://h/p?q=1&f", ".hidden", "dir.d/", "dir/.", "a.", "x.tar", "..", ""]
    out = list(extra)
    for i, k in enumerate(_mime_keys()):
        # names that only the MIME fallback can decide: private extensions (typed by the "mime-table" configuration) and
        # data: URLs, which carry their type in the string on every host
        out += [f"a.c07m{i}", f"Dir/B.C07M{i}", f"data:{k};base64,QUJD"]
    for ext, v in _mime_variants():
        out.append(f"v{ext}")
        if " " not in v and v.count(";") <= 1:
            out.append(f"data:{v};base64,QUJD" if ";" not in v else f"data:{v},QUJD")
    for s in stems:
        for e in exts:
            for variant in {e, e.upper(), e.capitalize()}:
                out.append(f"{s}.{variant}" if e != "" else s)
    # caseless / normalising mappings other than str.lower(): per extension one spelling per mapping in which a letter is replaced
    # by a non-ASCII character that the mapping (and, for the 'lower' family, str.lower itself) sends onto it -- whatever notion of
    # "same extension" an entry point uses, both entry points must use the same one
    for e in exts:
        for variant in _fold_variants(e):
            out += [f"report.{variant}", f"d.d/N {variant}.{variant}"]
    # forms a path library would rewrite (trailing separators, '.' / '..' components, doubled separators, Windows separators,
    # surrounding blanks): the router works on the raw string, so must everything that claims to be the router
    for n in ("report.pdf", "Notes.DOCX", "bundle.tar.gz", "a.txt", "x.weird", "tool.exe", "noext", "a.c07m0"):
        out += [f"{n}/", f"{n}//", f"{n}/.", f"{n}/..", f"./{n}", f"d/../{n}", f"d//{n}", f"{n}/x", f"{n}\\", f"d\\{n}", f" {n} ", f"{n}?v=1", f"{n}#frag",
                f"file:///tmp/{n}", f"~/{n}", f"{n}/./"]
    out += stacked_names()
    return out


def stacked_names():
    """names whose routing is NOT a function of the last suffix alone: mimetypes peels content-encoding suffixes (encodings_map:
    .gz .bz2 .xz .br .Z, the private .c07z of the "mime-table" configuration) and rewrites suffix aliases (suffix_map: .tgz .svgz ...)
    before it types the INNER name, so `minutes.text.br` is supported through the MIME fallback although `.br` is nothing to the
    router.  Inner names: routable extensions, extensions only the MIME fallback knows (platform database and private ones),
    unknown ones; suffixes in both cases.  Computed from the interpreter's database, not a list."""
    db = mimetypes.MimeTypes()
    encs = sorted(set(db.encodings_map) | {".c07z"})
    inner = ["minutes-2023.text", "CHANGES.markdown", "page.xhtml", "a.txt", "b.pdf", "c.weird", "noext", "d.c07m0", "e.c07m3", "f.tar"]
    for k in _mime_keys():
        for e in sorted(db.guess_all_extensions(k, strict=False))[:2]:
            inner.append(f"m{len(inner)}{e}")
    out = []
    for n in inner:
        for enc in encs:
            out.append(n + enc)
        out.append(n.upper() + encs[len(out) % len(encs)].upper())
        out.append(n + ".c07z.c07z")
    for suf in sorted(set(db.suffix_map) | {".c07s"}):
        out += [f"s{len(out)}{suf}", f"S{len(out)}{suf.upper()}", f"x.text{suf}"]
    return out


_FOLDS = {}


def _fold_table():
    """{mapping name: {ASCII letter: first non-ASCII character the mapping sends onto exactly that letter}} computed from the
    interpreter's Unicode database (lower, casefold, upper-then-lower, NFKC, NFKD without combining marks)"""
    if _FOLDS:
        return _FOLDS
    import unicodedata
    maps = {
        "lower": str.lower,
        "casefold": str.casefold,
        "upper-lower": lambda c: c.upper().lower(),
        "nfkc": lambda c: unicodedata.normalize("NFKC", c).lower(),
        "nfkd-stripped": lambda c: "".join(x for x in unicodedata.normalize("NFKD", c) if not unicodedata.combining(x)).lower(),
    }
    letters = set("abcdefghijklmnopqrstuvwxyz0123456789")
    for name in maps:
        _FOLDS[name] = {}
    for cp in range(0x80, 0x20000):
        c = chr(cp)
        for name, f in maps.items():
            try:
                t = f(c)
            except Exception:  # noqa
                continue
            if t in letters and t not in _FOLDS[name]:
                _FOLDS[name][t] = c
    return _FOLDS


def _fold_variants(ext):
    out = []
    for name, tab in _fold_table().items():
        for i, ch in enumerate(ext.lower()):
            if ch in tab:
                v = ext[:i] + tab[ch] + ext[i + 1:]
                if v not in out:
                    out.append(v)
                break
    return out


def read_file_dispatch():
    """read_file must look up the extractor for the caller's own path string."""
    import os, tempfile
    from pathlib import Path
    import sharepoint2text
    seen = []
    orig = sharepoint2text.get_extractor
    def spy(p):
        seen.append(p)
        return orig(p)
    with tempfile.TemporaryDirectory() as d:
        tgt = os.path.join(d, "page.html")
        open(tgt, "w").write("<html><body><p>hi</p></body></html>")
        blob = os.path.join(d, "3f2a9c71")
        open(blob, "w").write("plain words")
        cases = [tgt]
        for name, to in (("latest.txt", tgt), ("report.html", blob)):
            link = os.path.join(d, name)
            try:
                os.symlink(to, link)
                cases.append(link)
            except OSError:
                pass
        sharepoint2text.get_extractor = spy
        try:
            for p in cases:
                del seen[:]
                try:
                    res = list(sharepoint2text.read_file(p))
                    got = type(res[0]).__name__ if res else "no result"
                except Exception as e:  # noqa
                    got = type(e).__name__
                if seen != [str(Path(p))]:
                    return {"path": p, "mimetypes": "default"}, f"get_extractor({str(Path(p))!r})", f"get_extractor called with {seen} -> {got}"
        finally:
            sharepoint2text.get_extractor = orig
    return None


# ---------------------------------------------------------------- dispatch sites: archive members, e-mail attachments --
class Spies:
    """Every registered extractor function is replaced *in its own module* by a recording stand-in (the router resolves
    `getattr(module, name)` at call time), so which extractor a dispatch site really calls -- and with which path -- is observed
    on the real code without needing parseable documents."""

    def __init__(self):
        import importlib
        self.calls = []
        self.saved = []
        r = router()
        for ft, (modpath, fn) in r._EXTRACTOR_REGISTRY.items():
            mod = importlib.import_module(modpath)
            real = getattr(mod, fn)
            if getattr(real, "_c07_label", None):
                continue
            self.saved.append((mod, fn, real))
            setattr(mod, fn, self._spy(f"{modpath}.{fn}"))
        _clear_caches()

    def _spy(self, label):
        calls = self.calls

        def spy(file_like, path=None):
            calls.append((label, path))
            return
            yield
        spy._c07_label = label
        return spy

    def close(self):
        for mod, fn, real in self.saved:
            setattr(mod, fn, real)
        _clear_caches()


def _clear_caches():
    try:
        from sharepoint2text.parsing.extractors import archive_extractor as a
    except Exception:
        return
    for name in dir(a):
        f = getattr(a, name, None)
        if callable(getattr(f, "cache_clear", None)) and name != "_get_router_functions":
            f.cache_clear()


def _label(path):
    """what the router gives for the file on its own (under spies: the stand-in's label)"""
    kind, who = outcome(path)
    if kind != "ok":
        return None
    f = router().get_extractor(path)
    return getattr(f, "_c07_label", who)


def member_names():
    r = router()
    exts = ["txt", "csv", "json", "md", "html", "pdf", "docx", "xlsx", "eml", "rtf", "epub"] + sorted(r._EXTENSION_ALIASES)[:6] + \
           ["weird", "unknownext", "srt", "text", "exe", "zip", "tar.gz", "7z", "tgz", "TXT", "Html", "WEIRD"]
    out = []
    for d in ("", "docs/", "a b/c.d/", "__MACOSX/", "x/__MACOSX/"):
        for e in exts:
            out.append(f"{d}m{len(out)}.{e}")
    out += ["noext", "docs/.hidden.txt", ".profile", "docs/trailing.", "docs/two.dots.txt", "UPPER.PDF", "dir.txt/inner"]
    out += [("", "docs/", "a b/c.d/")[i % 3] + n for i, n in enumerate(stacked_names())]
    return out


def _state_writers(a, roots):
    """functions of module `a` that assign (`global X; X = ...`) a module global which the functions `roots` read, directly or
    through functions of the module they call -- found on the module's AST, no names listed.  -> [(function, [argument tuples])]:
    the memo / flag state behind the wrappers can be put into every state its writers can produce before the wrappers are compared."""
    import ast, inspect
    try:
        tree = ast.parse(inspect.getsource(a))
    except Exception:
        return [], []
    fns = {n.name: n for n in tree.body if isinstance(n, (ast.FunctionDef, ast.AsyncFunctionDef))}
    seen, todo, reads = set(), [x for x in roots if x in fns], set()
    while todo:
        q = todo.pop()
        if q in seen:
            continue
        seen.add(q)
        for x in ast.walk(fns[q]):
            if isinstance(x, ast.Name):
                if x.id in fns:
                    todo.append(x.id)
                else:
                    reads.add(x.id)
    out = []
    for q, fn in sorted(fns.items()):
        written = {nm for x in ast.walk(fn) if isinstance(x, ast.Global) for nm in x.names} & reads
        if not written:
            continue
        params = [p.arg for p in fn.args.posonlyargs + fn.args.args]
        if len(params) > 3 or fn.args.kwonlyargs:
            continue
        out.append((getattr(a, q, None), list(itertools.product((True, False, None), repeat=len(params)))))
    cells = sorted(nm for fn in fns.values() for x in ast.walk(fn) if isinstance(x, ast.Global) for nm in x.names if nm in reads)
    return [(f, args) for (f, args) in out if callable(f)], cells


def archive_wrapper_states():
    """the cached wrappers in every state that the writers of the module globals behind them can produce"""
    r = router()
    from sharepoint2text.parsing.extractors import archive_extractor as a
    writers, cells = _state_writers(a, ("_is_supported_file_cached", "_get_file_extractor_cached", "_should_skip_file"))
    if not writers:
        return None
    saved = {c: getattr(a, c) for c in cells if hasattr(a, c)}
    sample = ["a.txt", "b.pdf", "c.weird", "noext", "d.text", "E.DOCX", "f.tar.gz", "minutes.text.br"]
    try:
        for f, argsets in writers:
            for args in argsets:
                for c, v in saved.items():
                    setattr(a, c, v)
                _clear_caches()
                try:
                    f(*args)
                except Exception:  # noqa
                    continue
                for p in sample:
                    for wname, want_fn in (("_is_supported_file_cached", lambda q: ("value", r.is_supported_file(q))), ("_get_file_extractor_cached", outcome)):
                        w = getattr(a, wname, None)
                        if w is None:
                            continue
                        want = want_fn(p)
                        try:
                            g = w(p)
                            got = ("value", g if isinstance(g, bool) else f"{type(g).__name__} {getattr(g, '__name__', '')}") if wname.startswith("_is") else ("ok", f"{g.__module__}.{g.__name__}")
                        except Exception as e:  # noqa
                            got = ("notsupported", None) if type(e).__name__ == "ExtractionFileFormatNotSupportedError" else ("other", type(e).__name__)
                        if got != want:
                            return ({"filename": p, "after the call": f"archive_extractor.{f.__name__}{args!r}", "mimetypes": "default"},
                                    f"router: {want}", f"{wname} -> {got}", f"archive_extractor.py::{wname}")
    finally:
        for c, v in saved.items():
            setattr(a, c, v)
        _clear_caches()
    return None


def archive_wrappers():
    """the cached wrappers of archive_extractor against the router they wrap, and the skip rule against its statement"""
    import os
    r = router()
    from sharepoint2text.parsing.extractors import archive_extractor as a
    bad = archive_wrapper_states()
    if bad is not None:
        return bad
    sup_c = getattr(a, "_is_supported_file_cached", None)
    ext_c = getattr(a, "_get_file_extractor_cached", None)
    skip = getattr(a, "_should_skip_file", None)
    nested = tuple(getattr(a, "NESTED_ARCHIVE_EXTENSIONS", ()))
    from sharepoint2text.parsing.exceptions import ExtractionFileFormatNotSupportedError
    for cname, setup in configs():
        setup()
        _clear_caches()
        for p in paths():
            if sup_c is not None:
                want = r.is_supported_file(p)
                try:
                    got = sup_c(p)
                except Exception as e:  # noqa
                    got = f"raises {type(e).__name__}"
                if got != want:
                    return ({"filename": p, "mimetypes": cname}, f"router.is_supported_file({p!r}) = {want}", f"_is_supported_file_cached -> {got}",
                            "archive_extractor.py::_is_supported_file_cached")
            if ext_c is not None:
                want = outcome(p)
                try:
                    f = ext_c(p)
                    got = ("ok", f"{f.__module__}.{f.__name__}")
                except ExtractionFileFormatNotSupportedError:
                    got = ("notsupported", None)
                except Exception as e:  # noqa
                    got = ("other", type(e).__name__)
                if got != want:
                    return ({"filename": p, "mimetypes": cname}, f"router.get_extractor({p!r}) -> {want}", f"_get_file_extractor_cached -> {got}",
                            "archive_extractor.py::_get_file_extractor_cached")
        if skip is not None:
            for name in member_names() + paths()[::7]:
                b = os.path.basename(name)
                want = b.startswith(".") or name.startswith("__MACOSX/") or not r.is_supported_file(b) or b.lower().endswith(nested)
                try:
                    got = skip(name, b)
                except Exception as e:  # noqa
                    got = f"raises {type(e).__name__}"
                if isinstance(got, str) or bool(got) != bool(want):
                    return ({"filename": name, "basename": b, "mimetypes": cname},
                            f"skipped = hidden | __MACOSX/ | not is_supported_file({b!r}) | nested archive = {want}", f"_should_skip_file -> {got}",
                            "archive_extractor.py::_should_skip_file")
    return None


def archive_members():
    """read_archive on in-memory ZIP / TAR archives: the members handed to an extractor are exactly those the router supports
    (minus hidden / __MACOSX / nested archives), each to get_extractor(base name), with path 'archive!/member'."""
    import io, os, tarfile, zipfile
    r = router()
    from sharepoint2text.parsing.extractors import archive_extractor as a
    nested = tuple(getattr(a, "NESTED_ARCHIVE_EXTENSIONS", ()))
    names = member_names()
    read_archive = a.read_archive            # the real entry point (taken before the registry functions are replaced)

    def build(kind, group, content=None):
        buf = io.BytesIO()
        if kind == "zip":
            with zipfile.ZipFile(buf, "w") as zf:
                for n in group:
                    zf.writestr(n, b"member " + n.encode() if content is None else content)
        else:
            with tarfile.open(fileobj=buf, mode="w:gz" if kind == "tar.gz" else "w") as tf:
                for n in group:
                    data = b"member " + n.encode() if content is None else content
                    ti = tarfile.TarInfo(n)
                    ti.size = len(data)
                    tf.addfile(ti, io.BytesIO(data))
        buf.seek(0)
        return buf

    for cname, setup in configs():
        if cname == "empty":
            continue
        setup()
        spies = Spies()
        try:
            for kind in ("zip", "tar", "tar.gz"):
                groups = [names] + [[n] for n in names]          # all at once (order), then one member per archive (minimal input)
                for group in groups:
                    del spies.calls[:]
                    _clear_caches()
                    apath = f"bundle.{kind}"
                    exc = None
                    try:
                        list(read_archive(build(kind, group), apath))
                    except Exception as e:  # noqa
                        exc = e
                    want = []
                    for n in group:
                        b = os.path.basename(n)
                        if b.startswith(".") or n.startswith("__MACOSX/") or not r.is_supported_file(b) or b.lower().endswith(nested):
                            continue
                        want.append((_label(b), f"{apath}!/{n}"))
                    if exc is not None or spies.calls != want:
                        if len(group) > 1:
                            continue          # find the minimal single-member input below
                        return ({"archive": kind, "members": group, "archive_path": apath, "mimetypes": cname},
                                {"dispatches (extractor of get_extractor(basename), path)": want},
                                {"dispatches": list(spies.calls), "exception": repr(exc) if exc else None},
                                "archive_extractor.py::read_archive")
                # what a member CONTAINS decides nothing: content signatures of the routed families x routable / unroutable names
                for sig, content in SIGNATURES.items():
                    for n in ("docs/a.txt", "b.pdf", "c.docx", "d.weird", "noext", "e.html", "F.RTF", "g.bin"):
                        del spies.calls[:]
                        _clear_caches()
                        apath = f"bundle.{kind}"
                        exc = None
                        try:
                            list(read_archive(build(kind, [n], content), apath))
                        except Exception as e:  # noqa
                            exc = e
                        b = os.path.basename(n)
                        skip = b.startswith(".") or n.startswith("__MACOSX/") or not r.is_supported_file(b) or b.lower().endswith(nested)
                        want = [] if skip else [(_label(b), f"{apath}!/{n}")]
                        if exc is not None or spies.calls != want:
                            return ({"archive": kind, "members": [n], "member data starts with": f"{sig} signature {content[:16]!r}", "archive_path": apath,
                                     "mimetypes": cname},
                                    {"dispatches (extractor of get_extractor(basename), path)": want},
                                    {"dispatches": list(spies.calls), "exception": repr(exc) if exc else None},
                                    "archive_extractor.py::read_archive")
                # order / interference between members: the full archive once more, strictly
                del spies.calls[:]
                _clear_caches()
                apath = f"bundle.{kind}"
                try:
                    list(read_archive(build(kind, names), apath))
                    exc = None
                except Exception as e:  # noqa
                    exc = e
                want = [(_label(os.path.basename(n)), f"{apath}!/{n}") for n in names
                        if not (os.path.basename(n).startswith(".") or n.startswith("__MACOSX/") or not r.is_supported_file(os.path.basename(n))
                                or os.path.basename(n).lower().endswith(nested))]
                if exc is not None or spies.calls != want:
                    miss = [w for w in want if w not in spies.calls][:3]
                    extra = [c for c in spies.calls if c not in want][:3]
                    return ({"archive": kind, "members": names, "archive_path": apath, "mimetypes": cname},
                            {"dispatches": len(want), "first missing": miss}, {"dispatches": len(spies.calls), "first unexpected": extra,
                                                                                "exception": repr(exc) if exc else None},
                            "archive_extractor.py::read_archive")
        finally:
            spies.close()
    return None


def attachment_dispatch():
    """EmailContent.iterate_supported_attachments: per supported attachment the extractor is the one get_extractor gives for the
    attachment's FILE NAME; only when the router has none for the name, the registry entry of the declared MIME type; else skipped."""
    import io
    r = router()
    from sharepoint2text.parsing.extractors.data_types import EmailAddress, EmailAttachment, EmailContent
    from sharepoint2text.parsing.mime_types import MIME_TYPE_MAPPING, is_supported_mime_type
    mimes = sorted(MIME_TYPE_MAPPING) + ["application/octet-stream", "application/x-unknown", ""]
    stems = ["report", "ATT00001", "a b", "x.y"]
    exts = sorted(set(r._EXTRACTOR_REGISTRY) | set(r._EXTENSION_ALIASES)) + ["tar.gz", "bin", "xyz123", ""]
    names = [f"{stems[i % len(stems)]}.{e}" if e else stems[i % len(stems)] for i, e in enumerate(exts)] + ["EXPORT.CSV", "Page.Html"]
    bad = None
    for cname, setup in [c for c in configs() if c[0] in ("default", "empty")] + [("mime-cross", _mime_cross)]:
        setup()
        bad = _attachment_dispatch_under(cname, r, names, mimes)
        mimetypes.init()
        if bad:
            return bad
    return None


def _mime_cross():
    """a host MIME database (fresh) in which every type of the library's table is registered -- first -- under the extension of
    a DIFFERENT supported format: anything that asks the host database which extension belongs to a declared type is misled,
    the documented dispatch (file name, else the library's own table) is not"""
    from sharepoint2text.parsing.mime_types import MIME_TYPE_MAPPING
    r = router()
    for name, setup in configs():
        if name == "empty":
            setup()
    regs = sorted(r._EXTRACTOR_REGISTRY)
    for k in sorted(MIME_TYPE_MAPPING):
        ft = MIME_TYPE_MAPPING[k]
        own = r._EXTRACTOR_REGISTRY.get(ft)
        i = regs.index(ft) if ft in regs else 0
        for step in range(1, len(regs)):
            other = regs[(i + step) % len(regs)]
            if r._EXTRACTOR_REGISTRY[other] != own:
                mimetypes.add_type(k, "." + other)
                break


def _attachment_dispatch_under(cname, r, names, mimes):
    import io
    from sharepoint2text.parsing.extractors.data_types import EmailAddress, EmailAttachment, EmailContent
    from sharepoint2text.parsing.mime_types import MIME_TYPE_MAPPING, is_supported_mime_type
    if cname != "default":
        # the searches that depend on the host database: names the router cannot route x every declared type
        names = ["invoice", "ATT00001", "x.bin", "scan.xyz123", "report."] + names[:6]
    spies = Spies()
    try:
        def expected(fn, mt, flag):
            if not flag:
                return []
            lab = _label(fn)
            if lab is None:
                ft = MIME_TYPE_MAPPING.get(mt)
                if not ft:
                    return []
                mod, f = r._EXTRACTOR_REGISTRY[ft]
                lab = f"{mod}.{f}"
            return [(lab, fn)]

        def run(seq, data=b"0123456789"):
            del spies.calls[:]
            atts = [EmailAttachment(filename=fn, mime_type=mt, data=io.BytesIO(data), is_supported_mime_type=flag) for (fn, mt, flag) in seq]
            c = EmailContent(from_email=EmailAddress(), attachments=atts)
            exc = None
            try:
                list(c.iterate_supported_attachments())
            except Exception as e:  # noqa
                exc = e
            want = [x for a_ in seq for x in expected(*a_)]
            if exc is not None or spies.calls != want:
                return ({"attachments (filename, declared mime_type, is_supported_mime_type)": [list(x) for x in seq], "attachment data starts with": repr(data[:16]),
                         "mimetypes": cname + (f": guess_extension({seq[0][1]!r}) = {mimetypes.guess_extension(seq[0][1])!r}" if cname == "mime-cross" else "")},
                        {"extractor calls (get_extractor(filename), else registry entry of the MIME type; name passed)": want},
                        {"extractor calls": list(spies.calls), "exception": repr(exc) if exc else None},
                        "data_types.py::EmailContent.iterate_supported_attachments")
            return None

        singles = [(fn, mt, bool(is_supported_mime_type(mt))) for fn in names for mt in mimes]
        singles += [(fn, mt, True) for fn in names[:12] for mt in ("application/octet-stream", "application/x-unknown")]
        for a_ in singles:
            bad = run([a_])
            if bad:
                return bad
        # what the attachment CONTAINS decides nothing: content signatures of the routed families x names the router cannot route
        # (and two it can) x declared types (generic, matching, contradicting, none)
        blind = [fn for fn in ["invoice", "ATT00001", "x.bin", "scan.xyz123", "report."] if _label(fn) is None] + ["notes.txt", "Scan.PDF"]
        for kind, data in SIGNATURES.items():
            for fn in blind:
                for mt in ("application/octet-stream", "application/pdf", "text/plain", "application/zip", ""):
                    bad = run([(fn, mt, True)], data) or run([(fn, mt, bool(is_supported_mime_type(mt)))], data)
                    if bad:
                        return bad
        # state must not leak between attachments: pairs sharing a declared type with differently routed names, both orders
        probe = [("export.csv", "application/vnd.ms-excel", True), ("book.xls", "application/vnd.ms-excel", True), ("noext", "application/vnd.ms-excel", True),
                 ("page.html", "text/plain", True), ("a.txt", "text/plain", True), ("report.docx", "application/zip", True), ("b.zip", "application/zip", True)]
        for x in probe:
            for y in probe:
                bad = run([x, y]) or run([x, y, x])
                if bad:
                    return bad
    finally:
        spies.close()
    return None


def public_surface():
    """every module of the package that offers `is_supported_file` / `get_extractor` at module level (re-export, wrapper, alias)
    against the router's own functions, on the whole path grammar and every MIME configuration"""
    import ast, importlib, os
    r = router()
    import sharepoint2text
    from sharepoint2text.parsing.exceptions import ExtractionFileFormatNotSupportedError
    root = os.path.dirname(os.path.abspath(sharepoint2text.__file__))
    surfaces = []
    for dirpath, _d, files in os.walk(root):
        if os.sep + "tests" in dirpath:
            continue
        for f in sorted(files):
            if not f.endswith(".py"):
                continue
            full = os.path.join(dirpath, f)
            try:
                tree = ast.parse(open(full, encoding="utf-8").read())
            except (SyntaxError, OSError):
                continue
            names = set()
            for st in ast.walk(tree):
                if isinstance(st, (ast.FunctionDef, ast.ClassDef)):
                    names.add(st.name)
                elif isinstance(st, ast.ImportFrom):
                    names |= {a.asname or a.name for a in st.names}
                elif isinstance(st, ast.Name) and isinstance(st.ctx, ast.Store):
                    names.add(st.id)
            if not names & {"is_supported_file", "get_extractor", "*"}:
                continue
            relmod = os.path.relpath(full, os.path.dirname(root))[:-3].replace(os.sep, ".")
            if relmod.endswith(".__init__"):
                relmod = relmod[:-9]
            if relmod == "sharepoint2text.parsing.router":
                continue
            try:
                mod = importlib.import_module(relmod)
            except Exception:  # noqa
                continue
            for name in ("is_supported_file", "get_extractor"):
                fn = getattr(mod, name, None)
                if callable(fn) and fn is not getattr(r, name):
                    surfaces.append((relmod, name, fn))
    if not surfaces:
        return None

    def out(fn, p):
        try:
            v = fn(p)
        except ExtractionFileFormatNotSupportedError:
            return ("notsupported", None)
        except Exception as e:  # noqa
            return ("other", type(e).__name__)
        if isinstance(v, bool):
            return ("bool", v)
        return ("ok", f"{getattr(v, '__module__', '?')}.{getattr(v, '__name__', '?')}")

    for cname, setup in configs():
        setup()
        _clear_caches()
        for p in paths():
            for relmod, name, fn in surfaces:
                want, got = out(getattr(r, name), p), out(fn, p)
                if want != got:
                    return ({"path": p, "mimetypes": cname}, f"router.{name}({p!r}) -> {want}", f"{relmod}.{name}({p!r}) -> {got}", f"{relmod}.{name}")
    return None


def _site_checks(req):
    """directed searches for the dispatch sites; the one the obligation is about runs first"""
    oid = (req.get("obligation") or "") + " " + (req.get("function") or "")
    checks = [("public-surface", public_surface), ("archive_extractor", archive_wrappers), ("archive_extractor", archive_members),
              ("data_types", attachment_dispatch)]
    checks.sort(key=lambda c: 0 if c[0] in oid else 1)
    for _k, fn in checks:
        try:
            bad = fn()
        finally:
            mimetypes.init()
        if bad is not None:
            tgt = bad[3] if bad[3].startswith("sharepoint2text.") else "sharepoint2text/parsing/extractors/" + bad[3]
            return {"reproduced": True, "target": tgt, "inputs": bad[0], "expected": bad[1], "observed": bad[2]}
    return None


SIGNATURES = {
    "pdf": b"%PDF-1.4\n%\xe2\xe3\xcf\xd3\n", "rtf": b"{\\rtf1\\ansi hello}", "7z": b"7z\xbc\xaf\x27\x1c\x00\x04", "zip": b"PK\x03\x04\x14\x00",
    "empty-zip": b"PK\x05\x06" + b"\x00" * 18, "ole2": b"\xd0\xcf\x11\xe0\xa1\xb1\x1a\xe1" + b"\x00" * 24, "gzip": b"\x1f\x8b\x08\x00", "bz2": b"BZh91AY",
    "xz": b"\xfd7zXZ\x00", "html": b"<!DOCTYPE html><html><body>x</body></html>", "xml": b"<?xml version='1.0'?><a/>", "json": b'{"a": 1}',
    "eml": b"From: a@x.org\nSubject: s\n\nbody\n", "mbox": b"From a@x.org Mon Jan  1 00:00:00 2024\nSubject: s\n\nb\n", "text": b"plain words\n",
    "png": b"\x89PNG\r\n\x1a\n", "empty": b"",
}


def read_file_routing():
    """read_file(p) runs exactly the extractor get_extractor(str(Path(p))) returns, with that path, and raises the
    format-not-supported error exactly when get_extractor does -- whatever the file CONTAINS (content signatures of every
    routed family) and whatever its name looks like (no suffix, trailing dot, dot file, unknown / known / upper-case suffix)."""
    import os, tempfile
    from pathlib import Path
    import sharepoint2text
    from sharepoint2text.parsing.exceptions import ExtractionFileFormatNotSupportedError
    r = router()
    names = ["noext", "report.", ".pdf", ".hidden", "item-01F3", "x.unknownext", "x.bin", "x.txt", "X.PDF", "y.rtf", "z.7z", "a.tar.gz", "b.docx", "c.weird"]
    # a routable name wrapped in something the router does not know (backup / partial-download / numbered copies, trailing blank or
    # dot, a routable-looking stem) and extension spellings that only a different caseless mapping would accept
    names += ["report.pdf.bak", "notes.txt.1", "deck.pptx.download", "scan.pdf~", "page.html.part", "memo.docx ", "SHEET.XLSX.", "pdf", "archive.zip.tmp"]
    names += [f"u.{v}" for e in ("pdf", "xls", "msg") for v in _fold_variants(e)]
    for cname, setup in configs():
        if cname in ("mime-table", "mime-variants"):
            continue
        setup()
        spies = Spies()
        try:
            with tempfile.TemporaryDirectory() as d:
                for kind, data in SIGNATURES.items():
                    for n in names:
                        p = os.path.join(d, n)
                        with open(p, "wb") as fh:
                            fh.write(data)
                        sp = str(Path(p))
                        want_label = _label(sp)
                        del spies.calls[:]
                        exc = None
                        try:
                            list(sharepoint2text.read_file(p))
                        except Exception as e:  # noqa
                            exc = e
                        if want_label is None:
                            ok = isinstance(exc, ExtractionFileFormatNotSupportedError) and not spies.calls
                            want = "raises ExtractionFileFormatNotSupportedError, no extractor runs (get_extractor raises for this path)"
                        else:
                            ok = exc is None and spies.calls == [(want_label, sp)]
                            want = f"one call of {want_label} with path {sp!r}"
                        os.unlink(p)
                        if not ok:
                            return ({"file name": n, "content starts with": kind + " signature " + repr(data[:16]), "mimetypes": cname},
                                    want, f"extractor calls {list(spies.calls)}, exception {exc!r}")
        finally:
            spies.close()
            mimetypes.init()
    return None


def splitext_native(extra=()):
    """the clauses proved on genericpath._splitext / posixpath.splitext (contracts/C07.py::splitext_stdlib), on the interpreter that
    runs the library: A1 ext empty or starts with '.', A2 no further '.', A3 no '/', A4 root + ext == p, and the positive case A5
    (stem ending in a name character + '.' + dot-free ext => that ext) that the alias lemmas take as hypothesis.  Every string over
    {a . / ' '} up to length 6, the witness, and A5 over the router's own extensions."""
    import itertools
    import os
    tried = 0

    def bad(p):
        root, e = os.path.splitext(p)
        if not (e == "" or e.startswith(".")):
            return "A1: extension is empty or starts with '.'"
        if "." in e[1:]:
            return "A2: no further '.' in the extension"
        if "/" in e:
            return "A3: no separator in the extension"
        if root + e != p:
            return "A4: root + extension == path"
        return None
    cands = [x for x in extra if isinstance(x, str)]
    for n in range(0, 7):
        cands.extend("".join(t) for t in itertools.product("a./ ", repeat=n))
    for p in cands:
        tried += 1
        why = bad(p)
        if why:
            return {"reproduced": True, "target": "os.path.splitext", "inputs": {"p": p}, "expected": why, "observed": repr(os.path.splitext(p)), "tried": tried}
    r = router()
    for ext in list(r._EXTRACTOR_REGISTRY) + list(r._EXTENSION_ALIASES):
        for stem in ("n", "d/e f", "x.y", ".h", "a/.b", "..c", "d.e/f"):
            tried += 1
            got = os.path.splitext(f"{stem}.{ext}")[1]
            if got != "." + ext:
                return {"reproduced": True, "target": "os.path.splitext", "inputs": {"p": f"{stem}.{ext}"}, "expected": f"A5: extension .{ext}",
                        "observed": repr(got), "tried": tried}
    return {"reproduced": False, "note": f"os.path.splitext of this interpreter satisfies A1-A5 on {tried} native cases"}


def find(req):
    if "genericpath.py" in ((req.get("obligation") or "") + (req.get("function") or "")) or \
            "posixpath.py" in ((req.get("obligation") or "") + (req.get("function") or "")):
        return splitext_native([(req.get("witness") or {}).get("p")])
    r = router()
    rf = read_file_dispatch() or read_file_routing()
    if rf is not None:
        return {"reproduced": True, "target": "sharepoint2text/__init__.py::read_file", "inputs": rf[0], "expected": rf[1], "observed": rf[2]}
    oid = (req.get("obligation") or "") + " " + (req.get("function") or "")
    if "archive_extractor" in oid or "data_types" in oid or "public-surface" in oid:
        site = _site_checks(req)
        if site is not None:
            return site
    w = req.get("witness") or {}
    extra = [w["path"]] if isinstance(w.get("path"), str) else []
    if isinstance(w.get("path_lower"), str):
        extra.append(w["path_lower"])
    tried = 0
    baseline = {}
    for cname, setup in configs():
        setup()
        try:
            from sharepoint2text.parsing.extractors import archive_extractor
            archive_extractor._is_supported_file_cached.cache_clear()
            archive_extractor._get_file_extractor_cached.cache_clear()
        except Exception:
            pass
        for p in paths(extra):
            tried += 1
            sup = r.is_supported_file(p)
            kind, who = outcome(p)
            if kind == "other":
                return _res(p, cname, "only the not-supported error may escape", f"{who} escaped", tried)
            if sup != (kind == "ok"):
                return _res(p, cname, f"is_supported_file == get_extractor succeeds", f"is_supported_file={sup}, get_extractor={kind}", tried)
            lo = outcome(p.lower())
            if (kind, who) != lo:
                return _res(p, cname, "case-insensitive routing", f"{(kind, who)} vs lower-case {lo}", tried)
            ext_known = r._file_type_from_extension(p.lower()) is not None
            if ext_known:
                if p in baseline and baseline[p] != (kind, who):
                    return _res(p, cname, "extension routing independent of MIME database", f"{baseline[p]} vs {(kind, who)}", tried)
                baseline.setdefault(p, (kind, who))
        for a, b in r._EXTENSION_ALIASES.items():
            for s in ("n", "d/e f", "x.y"):
                tried += 1
                oa, ob = outcome(f"{s}.{a}"), outcome(f"{s}.{b}")
                if oa != ob or oa[0] != "ok":
                    return _res(f"{s}.{a}", cname, f"alias .{a} behaves like .{b}", f"{oa} vs {ob}", tried)
    mimetypes.init()
    if not ("archive_extractor" in oid or "data_types" in oid or "public-surface" in oid):
        site = _site_checks(req)
        if site is not None:
            return site
    return {"reproduced": False, "note": f"{tried} native path/config cases agree; archive member and attachment dispatch sites agree with the router"}


def _res(p, cfg, want, got, tried):
    if cfg == "mime-variants":
        hit = [(e, v) for (e, v) in _mime_variants() if p.lower().endswith(e)]
        if hit:
            cfg = f"mime-variants: fresh mimetypes database with add_type({hit[0][1]!r}, {hit[0][0]!r})"
    mimetypes.init()
    return {"reproduced": True, "target": "sharepoint2text/parsing/router.py", "inputs": {"path": p, "mimetypes": cfg},
            "expected": want, "observed": got, "tried": tried}


def rerun(stored):
    r = find({"witness": {"path": stored.get("inputs", {}).get("path")}, "obligation": stored.get("obligation"), "function": stored.get("target")})
    return r
