"""Native replay for C07: real router functions on a grammar of path strings
under several mimetypes configurations."""
import itertools
import mimetypes


def router():
    from sharepoint2text.parsing import router as r
    return r


def outcome(path):
    r = router()
    from sharepoint2text.parsing.exceptions import ExtractionFileFormatNotSupportedError
    try:
        f = r.get_extractor(path)
        return ("ok", f"{f.__module__}.{f.__name__}")
    except ExtractionFileFormatNotSupportedError:
        return ("notsupported", None)
    except Exception as e:  # noqa
        return ("other", type(e).__name__)


def configs():
    def default():
        mimetypes.init()
    def empty():
        mimetypes.init(files=[])
        db = mimetypes._db
        for m in db.types_map + db.types_map_inv:
            m.clear()
        db.encodings_map.clear()
        db.suffix_map.clear()
    def hostile():
        mimetypes.init()
        mimetypes.add_type("application/pdf", ".docx")
        mimetypes.add_type("application/pdf", ".weird")
        mimetypes.add_type("text/html", ".zip")
        mimetypes.add_type("application/zip", ".unknownext")
    return [("default", default), ("empty", empty), ("hostile", hostile)]


def paths(extra=()):
    r = router()
    exts = sorted(set(r._EXTRACTOR_REGISTRY) | set(r._EXTENSION_ALIASES) | {k[1:] for k in r._COMPOUND_EXTENSIONS}
                  | {"weird", "unknownext", "exe", "", "tar", "TAR.GZ", "jpeg", "xml"})
    stems = ["a", "dir/a", "/abs/x.y", "a b", "http://h/p?q=1&f", ".hidden", "dir.d/", "dir/.", "a.", "x.tar", "..", ""]
    out = list(extra)
    for s in stems:
        for e in exts:
            for variant in {e, e.upper(), e.capitalize()}:
                out.append(f"{s}.{variant}" if e != "" else s)
    return out


def read_file_dispatch():
    """read_file must look up the extractor for the caller's own path string."""
    import os, tempfile
    from pathlib import Path
    import sharepoint2text
    seen = []
    orig = sharepoint2text.get_extractor
    def spy(p):
        seen.append(p)
        return orig(p)
    with tempfile.TemporaryDirectory() as d:
        tgt = os.path.join(d, "page.html")
        open(tgt, "w").write("<html><body><p>hi</p></body></html>")
        blob = os.path.join(d, "3f2a9c71")
        open(blob, "w").write("plain words")
        cases = [tgt]
        for name, to in (("latest.txt", tgt), ("report.html", blob)):
            link = os.path.join(d, name)
            try:
                os.symlink(to, link)
                cases.append(link)
            except OSError:
                pass
        sharepoint2text.get_extractor = spy
        try:
            for p in cases:
                del seen[:]
                try:
                    res = list(sharepoint2text.read_file(p))
                    got = type(res[0]).__name__ if res else "no result"
                except Exception as e:  # noqa
                    got = type(e).__name__
                if seen != [str(Path(p))]:
                    return {"path": p, "mimetypes": "default"}, f"get_extractor({str(Path(p))!r})", f"get_extractor called with {seen} -> {got}"
        finally:
            sharepoint2text.get_extractor = orig
    return None


def find(req):
    r = router()
    rf = read_file_dispatch()
    if rf is not None:
        return {"reproduced": True, "target": "sharepoint2text/__init__.py::read_file", "inputs": rf[0], "expected": rf[1], "observed": rf[2]}
    w = req.get("witness") or {}
    extra = [w["path"]] if isinstance(w.get("path"), str) else []
    if isinstance(w.get("path_lower"), str):
        extra.append(w["path_lower"])
    tried = 0
    baseline = {}
    for cname, setup in configs():
        setup()
        try:
            from sharepoint2text.parsing.extractors import archive_extractor
            archive_extractor._is_supported_file_cached.cache_clear()
            archive_extractor._get_file_extractor_cached.cache_clear()
        except Exception:
            pass
        for p in paths(extra):
            tried += 1
            sup = r.is_supported_file(p)
            kind, who = outcome(p)
            if kind == "other":
                return _res(p, cname, "only the not-supported error may escape", f"{who} escaped", tried)
            if sup != (kind == "ok"):
                return _res(p, cname, f"is_supported_file == get_extractor succeeds", f"is_supported_file={sup}, get_extractor={kind}", tried)
            lo = outcome(p.lower())
            if (kind, who) != lo:
                return _res(p, cname, "case-insensitive routing", f"{(kind, who)} vs lower-case {lo}", tried)
            ext_known = r._file_type_from_extension(p.lower()) is not None
            if ext_known:
                if p in baseline and baseline[p] != (kind, who):
                    return _res(p, cname, "extension routing independent of MIME database", f"{baseline[p]} vs {(kind, who)}", tried)
                baseline.setdefault(p, (kind, who))
        for a, b in r._EXTENSION_ALIASES.items():
            for s in ("n", "d/e f", "x.y"):
                tried += 1
                oa, ob = outcome(f"{s}.{a}"), outcome(f"{s}.{b}")
                if oa != ob or oa[0] != "ok":
                    return _res(f"{s}.{a}", cname, f"alias .{a} behaves like .{b}", f"{oa} vs {ob}", tried)
    mimetypes.init()
    return {"reproduced": False, "note": f"{tried} native path/config cases agree"}


def _res(p, cfg, want, got, tried):
    mimetypes.init()
    return {"reproduced": True, "target": "sharepoint2text/parsing/router.py", "inputs": {"path": p, "mimetypes": cfg},
            "expected": want, "observed": got, "tried": tried}


def rerun(stored):
    r = find({"witness": {"path": stored.get("inputs", {}).get("path")}})
    return r
