"""Native replay for C06: fixtures extracted under two hash seeds in fresh processes, observers
called repeatedly interleaved with to_json(), input buffer compared before/after."""
import glob
import hashlib
import io
import json
import os
import subprocess
import sys

WORKER = r'''
import sys, io, json, glob, hashlib, logging
logging.disable(logging.CRITICAL)
repo = sys.argv[1]
sys.path.insert(0, repo)
import sharepoint2text
out = {}
for f in sorted(glob.glob(repo + "/sharepoint2text/tests/resources/*/*")):
    if not sharepoint2text.is_supported_file(f) or "password" in f:
        continue
    try:
        data = open(f, "rb").read()
        ex = sharepoint2text.get_extractor(f)
        buf = io.BytesIO(data)
        res = list(ex(buf, f))
        js = [json.dumps(r.to_json(), sort_keys=True, default=str) for r in res]
        rec = {"digest": hashlib.sha256("".join(js).encode()).hexdigest(), "json": js, "buffer_unchanged": buf.getvalue() == data, "observer_stable": True}
        for r in res:
            before = json.dumps(r.to_json(), sort_keys=True, default=str)
            r.get_full_text(); list(r.iterate_units()); list(r.iterate_images()); list(r.iterate_tables()); r.get_metadata()
            for u in r.iterate_units():
                u.get_text(); u.get_images(); u.get_tables(); u.get_metadata()
            after = json.dumps(r.to_json(), sort_keys=True, default=str)
            if before != after:
                rec["observer_stable"] = False
        out[f[len(repo) + 1:]] = rec
    except Exception as e:
        out[f[len(repo) + 1:]] = {"error": type(e).__name__}
print(json.dumps(out))
'''


def run(seed, repo):
    p = subprocess.run([sys.executable, "-c", WORKER, repo], capture_output=True, text=True, timeout=900,
                       env=dict(os.environ, PYTHONHASHSEED=str(seed)))
    lines = [l for l in p.stdout.splitlines() if l.startswith("{")]
    return json.loads(lines[-1]) if lines else {}


def _diff(x, y, path, out):
    if type(x) != type(y):
        out.append(path)
    elif isinstance(x, dict):
        for k in sorted(set(x) | set(y)):
            if k not in x or k not in y:
                out.append(path + "/" + k)
            else:
                _diff(x[k], y[k], path + "/" + k, out)
    elif isinstance(x, list):
        if len(x) != len(y):
            out.append(path)
        else:
            for i, (p, q) in enumerate(zip(x, y)):
                _diff(p, q, f"{path}[{i}]", out)
    elif x != y:
        out.append(path)


def mismatches(repo):
    """[(file, kind, detail)] over all fixtures: two fresh processes with different hash seeds (and start times)."""
    a, b = run(1, repo), run(2, repo)
    out = []
    if not a or not b:
        return None
    for f in sorted(a):
        ra, rb = a[f], b.get(f, {})
        if "error" in ra:
            continue
        if not ra.get("buffer_unchanged", True):
            out.append((f, "input buffer modified", ""))
        if not ra.get("observer_stable", True):
            out.append((f, "to_json() changed by observers", ""))
        if ra.get("digest") != rb.get("digest"):
            paths = []
            for x, y in zip(ra.get("json", []), rb.get("json", [])):
                _diff(json.loads(x), json.loads(y), "", paths)
            out.append((f, "to_json() differs between fresh processes", ",".join(sorted(set(paths))[:6])))
    return out, len(a)


def find(req):
    repo = os.environ.get("VERIF_REPO", "/repo")
    r = mismatches(repo)
    if r is None:
        return {"reproduced": False, "note": "worker produced no output"}
    mm, n = r
    known = {tuple(x) for x in (req.get("known_mismatches") or [])}
    new = [m for m in mm if (m[0], m[2]) not in known and (m[0].split("/")[-1], m[2]) not in known]
    if req.get("list_all"):
        return {"reproduced": bool(mm), "mismatches": mm, "fixtures": n}
    if new:
        f, kind, detail = new[0]
        return {"reproduced": True, "target": f, "inputs": {"file": f, "PYTHONHASHSEED": [1, 2]}, "expected": "identical to_json() in fresh processes / idempotent observers / unchanged input buffer",
                "observed": f"{kind} {detail}", "all_new_mismatches": new[:10]}
    return {"reproduced": False, "note": f"{n} fixtures: no unrecorded mismatch ({len(mm)} recorded)", "recorded_still_failing": len(mm)}


def rerun(stored):
    return find({})
