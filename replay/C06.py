"""Native replay for C06 (runs under /venv/bin/python against the real code).

Corpus = the repository fixtures + a few SYNTHETIC documents that contain the constructs the fixtures lack (style names
that collide under case / length / whitespace keys; image twins that differ only in their dimension bytes).  Every
document is extracted in two fresh processes with different hash seeds, in OPPOSITE corpus order (history independence),
with and without a path, twice in the same process; observers -- including reading the streams handed out by
get_bytes() -- are interleaved with to_json(); the input buffer is compared before/after.

The two processes of a run also differ in everything that is not an input of extraction: locale / default text encoding, time
zone, terminal size, working directory, unrelated environment variables.  Differences recorded as known findings
(known_findings.json, `mismatch` signature) are listed separately and never hide new ones.

Targeted searches (chosen by the obligation's `replay_hint`):
  frame   function-level (after the corpus run): instances of the result class found in corpus results and small perturbations
          of them (ragged / empty / repeated list fields), the observer called twice, everything reachable compared;
  stream  function-level: the reader is called on one BytesIO at several cursor positions;
  state   function-level: a memoised function is called on a pool of near-colliding inputs after different histories;
  order   synthetic documents under three hash seeds;
  nondet  the corpus (path and path=None) in two processes.
"""
import hashlib
import importlib
import io
import json
import os
import struct
import subprocess
import sys
import zipfile
import zlib

SYNTH_DIR = "/tmp/c06_synth_v6"

WORKER = r'''
import sys, io, json, glob, hashlib, logging, dataclasses, os
logging.disable(logging.CRITICAL)
repo, synth_dir, order, scope = sys.argv[1], sys.argv[2], sys.argv[3], sys.argv[4]
sys.path.insert(0, repo)
import sharepoint2text

def streams(obj, seen, out, depth=0):
    if id(obj) in seen or depth > 8:
        return
    seen.add(id(obj))
    if isinstance(obj, io.BytesIO):
        out.append(obj)
    elif dataclasses.is_dataclass(obj) and not isinstance(obj, type):
        for f in dataclasses.fields(obj):
            streams(getattr(obj, f.name, None), seen, out, depth + 1)
    elif isinstance(obj, (list, tuple)):
        for x in obj:
            streams(x, seen, out, depth + 1)
    elif isinstance(obj, dict):
        for x in obj.values():
            streams(x, seen, out, depth + 1)

def js(r):
    return json.dumps(r.to_json(), sort_keys=True, default=str)

def same(buf, data):
    """The caller still holds what it passed in: same content, still readable (a closed buffer has no content any more)."""
    try:
        return buf.getvalue() == data
    except ValueError:
        return False

def listing(r):
    """What the listings of a result return (texts of the units, sizes of the image / table listings)."""
    return [[u.get_text() for u in r.iterate_units()], len(list(r.iterate_images())), len(list(r.iterate_tables()))]

def observe(r):
    r.get_full_text(); list(r.iterate_units()); imgs = list(r.iterate_images()); tabs = list(r.iterate_tables()); r.get_metadata()
    for t in tabs:                       # a consumer looks at the tables it was handed
        for name in ("get_table", "get_dim"):
            if hasattr(t, name):
                getattr(t, name)()
    for u in r.iterate_units():
        u.get_text(); u.get_images(); u.get_tables(); u.get_metadata()
    for im in imgs:                      # a consumer reads the picture it was handed
        b = im.get_bytes()
        if hasattr(b, "read"):
            b.read()
        for name in ("get_caption", "get_description", "get_content_type"):
            if hasattr(im, name):
                getattr(im, name)()
    if hasattr(r, "iterate_supported_attachments"):      # a consumer extracts the attachments of a mail (each one an extraction of its own)
        for sub in r.iterate_supported_attachments():
            sub.get_full_text(); js(sub)
    out = []
    streams(r, set(), out)
    for s in out:                        # ... or any other stream the result owns (attachments)
        s.read()

files = []
if scope in ("all", "fixtures"):
    files += [f for f in sorted(glob.glob(repo + "/sharepoint2text/tests/resources/*/*")) if "password" not in f]
if scope in ("all", "synthetic"):
    files += sorted(glob.glob(synth_dir + "/*"))
files = [f for f in files if os.path.isfile(f) and sharepoint2text.is_supported_file(f)]
if order == "rev":
    files.reverse()

def pristine(f):
    """to_json() of the document extracted in a process that has extracted nothing else: a fork of this (still pristine)
    process, so that the comparison does not depend on which documents happen to precede it in the corpus order."""
    rd, wr = os.pipe()
    pid = os.fork()
    if pid == 0:
        code = 0
        try:
            os.close(rd)
            data = open(f, "rb").read()
            j = [js(r) for r in sharepoint2text.get_extractor(f)(io.BytesIO(data), f)]
            with os.fdopen(wr, "w") as fh:
                fh.write(hashlib.sha256("".join(j).encode()).hexdigest())
        except BaseException:
            code = 3
        os._exit(code)
    os.close(wr)
    with os.fdopen(rd, "r") as fh:
        raw = fh.read()
    _pid, status = os.waitpid(pid, 0)
    if status != 0 or len(raw) != 64:
        return None
    return raw

def preimport():
    """Import (not run) every module the package imports anywhere, also inside functions: the forked baselines then do not
    each repeat the lazy imports."""
    import ast, importlib
    names = set()
    for dp, _dn, fs in os.walk(os.path.join(repo, "sharepoint2text")):
        if os.sep + "tests" in dp:
            continue
        for fn in fs:
            if fn.endswith(".py"):
                try:
                    tree = ast.parse(open(os.path.join(dp, fn), encoding="utf-8").read())
                except (OSError, SyntaxError, ValueError):
                    continue
                for n in ast.walk(tree):
                    if isinstance(n, ast.Import):
                        names.update(a.name for a in n.names)
                    elif isinstance(n, ast.ImportFrom) and n.module and not n.level:
                        names.add(n.module)
    for name in sorted(names):
        if "sharepoint_io" in name or name.endswith("__main__") or ".cli" in name:
            continue
        try:
            importlib.import_module(name)
        except BaseException:
            pass

fresh = {}
if order == "fwd" and hasattr(os, "fork") and not os.environ.get("C06_NO_FORK_BASELINE"):
    preimport()
    for f in files:
        try:
            fresh[f] = pristine(f)
        except OSError:
            pass
out = {}
for f in files:
    name = f[len(repo) + 1:] if f.startswith(repo + "/") else "synthetic/" + os.path.basename(f)
    try:
        data = open(f, "rb").read()
        ex = sharepoint2text.get_extractor(f)
        buf = io.BytesIO(data)
        res = list(ex(buf, f))
        j1 = [js(r) for r in res]
        rec = {"digest": hashlib.sha256("".join(j1).encode()).hexdigest(), "json": j1, "buffer_unchanged": same(buf, data),
               "observer_stable": True, "repeat_stable": True, "history": []}
        if fresh.get(f) is not None and fresh[f] != rec["digest"]:
            rec["fresh_differs"] = True
        full = []
        out[name] = rec
        stage = "observing the result (units, images, tables, attachments, streams) and serialising it again"
        for r in res:
            before = js(r)
            observe(r)
            after = js(r)
            if before != after:
                rec["observer_stable"] = False
            full.append(listing(r))
        stage = "extracting the same bytes a second time"
        # the same bytes again in this process, the caller's cursor somewhere else
        b2 = io.BytesIO(data)
        b2.seek(min(7, len(data)))
        res2 = list(ex(b2, f))
        j2 = [js(r) for r in res2]
        if j2 != j1:
            rec["repeat_stable"] = False
            rec["repeat_json"] = j2
        if not same(b2, data):
            rec["buffer_unchanged"] = False
        # a consumer that only peeks at the first unit / image / table, then lists everything: same listing as on the first result
        for r, want in zip(res2, full):
            for meth in ("iterate_units", "iterate_images", "iterate_tables"):
                next(iter(getattr(r, meth)()), None)
            if listing(r) != want:
                rec["history"].append("listing after a partially consumed iteration differs from a full first iteration")
        # without a path (in-memory download)
        try:
            b3 = io.BytesIO(data)
            res3 = list(ex(b3, None))
            j3 = [js(r) for r in res3]
            rec["nopath_json"] = j3
            rec["nopath_digest"] = hashlib.sha256("".join(j3).encode()).hexdigest()
            if [js(r) for r in ex(io.BytesIO(data), None)] != j3:
                rec["repeat_stable"] = False
            if any(json.dumps(os.path.basename(f))[1:-1] in j for j in j3):
                rec["history"].append("an extraction without a path reports the path of an earlier extraction")
        except Exception as e:
            rec["nopath_error"] = type(e).__name__
        # results handed out earlier must not change when the process extracts something else
        if [js(r) for r in res] != j1:
            rec["history"].append("to_json() of an earlier result changed after later extractions in the same process")
        out[name] = rec
    except Exception as e:
        if name in out and "json" in out[name]:
            # the first extraction and its serialisation succeeded: whatever fails afterwards fails because of what happened before
            out[name]["history"].append("after a successful first extraction, " + stage + " raised " + type(e).__name__)
        else:
            out[name] = {"error": type(e).__name__}
print(json.dumps(out))
'''


# ------------------------------------------------------------------ synthetic corpus --
NAME_POOL = ["P1", "p1", "P2", "p2", "Heading", "HEADING", "heading", "Straße", "STRASSE", "strasse", "T1", "t1", "Table1", "TABLE1",
             "ab", "ba", "Ab", "aB", " x", "x ", "x", "a b", "a  b", "List", "LIST", "list", "Standard", "STANDARD", "Text_20_body", "text_20_body"]


def jpeg(width, height, pad=700):
    """Header-only JPEG: SOI, JFIF APP0, a long COM segment, SOF0 with the dimensions, EOI."""
    app0 = b"\xff\xe0" + struct.pack(">H", 16) + b"JFIF\x00\x01\x01\x00\x00\x01\x00\x01\x00\x00"
    com = b"\xff\xfe" + struct.pack(">H", pad + 2) + b"c" * pad
    sof = b"\xff\xc0" + struct.pack(">HBHHB", 17, 8, height, width, 3) + b"\x01\x11\x00\x02\x11\x01\x03\x11\x01"
    return b"\xff\xd8" + app0 + com + sof + b"\xff\xd9"


def png(width, height):
    def chunk(t, d):
        return struct.pack(">I", len(d)) + t + d + struct.pack(">I", zlib.crc32(t + d) & 0xFFFFFFFF)
    raw = b"".join(b"\x00" + b"\x00" * width for _ in range(height))
    return b"\x89PNG\r\n\x1a\n" + chunk(b"IHDR", struct.pack(">IIBBBBB", width, height, 8, 0, 0, 0, 0)) + chunk(b"IDAT", zlib.compress(raw)) + chunk(b"IEND", b"")


def gif(width, height):
    return b"GIF89a" + struct.pack("<HH", width, height) + b"\x00\x00\x00" + b";" * 80


def bmp(width, height):
    return b"BM" + b"\x00" * 12 + struct.pack("<I", 40) + struct.pack("<ii", width, height) + b"\x00" * 60


def blob_pool():
    """Near-colliding image blobs: same length, same long prefix (and suffix), different dimensions."""
    pool = [jpeg(640, 480), jpeg(320, 200), jpeg(16, 16), jpeg(480, 640)]
    pool += [gif(10, 20), gif(20, 10), bmp(7, 9), bmp(9, 7)]
    a, b = png(3, 5), png(5, 3)
    if len(a) == len(b):
        pool += [a, b]
    return pool


def odt_with_styles(names, extra_body="", only_body=None):
    ns = ('xmlns:office="urn:oasis:names:tc:opendocument:xmlns:office:1.0" xmlns:style="urn:oasis:names:tc:opendocument:xmlns:style:1.0" '
          'xmlns:text="urn:oasis:names:tc:opendocument:xmlns:text:1.0" xmlns:table="urn:oasis:names:tc:opendocument:xmlns:table:1.0" '
          'xmlns:draw="urn:oasis:names:tc:opendocument:xmlns:drawing:1.0" xmlns:fo="urn:oasis:names:tc:opendocument:xmlns:xsl-fo-compatible:1.0" '
          'xmlns:xlink="http://www.w3.org/1999/xlink" xmlns:dc="http://purl.org/dc/elements/1.1/" '
          'xmlns:meta="urn:oasis:names:tc:opendocument:xmlns:meta:1.0" xmlns:svg="urn:oasis:names:tc:opendocument:xmlns:svg-compatible:1.0"')
    esc = lambda s: s.replace("&", "&amp;").replace('"', "&quot;").replace("<", "&lt;")
    half = len(names) // 2
    auto = "".join(f'<style:style style:name="{esc(n)}" style:family="paragraph"/>' for n in names[:half + 3])
    common = "".join(f'<style:style style:name="{esc(n)}" style:family="paragraph"/>' for n in names[half:])
    body = "".join(f'<text:p text:style-name="{esc(n)}">paragraph {i}</text:p>' for i, n in enumerate(names[:6]))
    frame = ('<draw:frame draw:name="pic{0}" svg:width="2cm" svg:height="1cm"><draw:image xlink:href="Pictures/none{0}.png"/>'
             '<svg:title>frame title {0}</svg:title><svg:desc>frame description {0}</svg:desc></draw:frame>')
    # a picture inside running text, a hyperlink wrapped around a picture, a text box with a caption -- twice, in both orders
    for k in (1, 2):
        body += f'<text:p>inline picture {k}: {frame.format(k)} after it</text:p>'
        body += f'<text:p>linked picture {k}: <text:a xlink:href="https://example.org/{k}">{frame.format(10 + k)}</text:a> and a plain <text:a xlink:href="https://example.org/p{k}">link {k}</text:a></text:p>'
        body += (f'<text:p><draw:frame draw:name="box{k}"><draw:text-box><text:p>caption in a text box {k}</text:p></draw:text-box></draw:frame></text:p>')
    # tables whose extracted rows are ragged: a cell spanning columns is followed by covered cells
    cell = lambda t, span="": f'<table:table-cell{span}><text:p>{t}</text:p></table:table-cell>'
    body += ('<text:h text:outline-level="1">Tables</text:h><table:table table:name="Ragged"><table:table-column table:number-columns-repeated="3"/>'
             '<table:table-row>' + cell("wide", ' table:number-columns-spanned="3"') + '<table:covered-table-cell/><table:covered-table-cell/></table:table-row>'
             '<table:table-row>' + cell("a") + cell("b") + cell("c") + '</table:table-row>'
             '<table:table-row>' + cell("two", ' table:number-columns-spanned="2"') + '<table:covered-table-cell/>' + cell("z") + '</table:table-row></table:table>'
             '<text:h text:outline-level="1">After the table</text:h><text:p>closing paragraph</text:p>')
    body += extra_body
    if only_body is not None:
        body = only_body
    content = (f'<?xml version="1.0" encoding="UTF-8"?><office:document-content {ns} office:version="1.2"><office:automatic-styles>{auto}'
               f'</office:automatic-styles><office:body><office:text>{body}</office:text></office:body></office:document-content>')
    styles = (f'<?xml version="1.0" encoding="UTF-8"?><office:document-styles {ns} office:version="1.2"><office:styles>{common}</office:styles>'
              f'</office:document-styles>')
    meta = (f'<?xml version="1.0" encoding="UTF-8"?><office:document-meta {ns} office:version="1.2"><office:meta><dc:title>synthetic</dc:title>'
            f'</office:meta></office:document-meta>')
    manifest = ('<?xml version="1.0" encoding="UTF-8"?><manifest:manifest xmlns:manifest="urn:oasis:names:tc:opendocument:xmlns:manifest:1.0">'
                '<manifest:file-entry manifest:full-path="/" manifest:media-type="application/vnd.oasis.opendocument.text"/>'
                '<manifest:file-entry manifest:full-path="content.xml" manifest:media-type="text/xml"/>'
                '<manifest:file-entry manifest:full-path="styles.xml" manifest:media-type="text/xml"/>'
                '<manifest:file-entry manifest:full-path="meta.xml" manifest:media-type="text/xml"/></manifest:manifest>')
    return _zip([("mimetype", b"application/vnd.oasis.opendocument.text", zipfile.ZIP_STORED), ("content.xml", content.encode()),
                 ("styles.xml", styles.encode()), ("meta.xml", meta.encode()), ("META-INF/manifest.xml", manifest.encode())])


def docx_with_styles(names):
    w = 'xmlns:w="http://schemas.openxmlformats.org/wordprocessingml/2006/main" xmlns:r="http://schemas.openxmlformats.org/officeDocument/2006/relationships"'
    esc = lambda s: s.replace("&", "&amp;").replace('"', "&quot;").replace("<", "&lt;")
    ids = [f"S{i}" for i in range(len(names))]
    paras = "".join(f'<w:p><w:pPr><w:pStyle w:val="{i}"/></w:pPr><w:r><w:t>paragraph {k}</w:t></w:r></w:p>' for k, i in enumerate(ids))
    paras += "".join(f'<w:p><w:pPr><w:pStyle w:val="{esc(n)}"/></w:pPr><w:r><w:t>direct {k}</w:t></w:r></w:p>' for k, n in enumerate(names))
    tc = lambda t, span=0: (f'<w:tc><w:tcPr>' + (f'<w:gridSpan w:val="{span}"/>' if span else '') + f'</w:tcPr><w:p><w:r><w:t>{t}</w:t></w:r></w:p></w:tc>')
    paras += ('<w:p><w:pPr><w:pStyle w:val="Heading1"/></w:pPr><w:r><w:t>First heading</w:t></w:r></w:p><w:p><w:r><w:t>text one</w:t></w:r></w:p>'
              '<w:tbl><w:tr>' + tc("wide", 3) + '</w:tr><w:tr>' + tc("a") + tc("b") + tc("c") + '</w:tr><w:tr>' + tc("two", 2) + tc("z") + '</w:tr></w:tbl>'
              '<w:p><w:pPr><w:pStyle w:val="Heading1"/></w:pPr><w:r><w:t>Second heading</w:t></w:r></w:p><w:p><w:r><w:t>text two</w:t></w:r></w:p>'
              '<w:p><w:pPr><w:pStyle w:val="Heading2"/></w:pPr><w:r><w:t>Third heading</w:t></w:r></w:p><w:p><w:r><w:t>text three</w:t></w:r></w:p>')
    # hyperlinks, several of them repeated (same text / same target)
    links = [("alpha", "https://example.org/a"), ("beta", "https://example.org/b"), ("gamma", "https://example.org/c"), ("alpha", "https://example.org/a"),
             ("delta", "https://example.org/d"), ("beta", "https://example.org/b"), ("epsilon", "https://example.org/a"), ("alpha", "https://example.org/z")]
    paras += "".join(f'<w:p><w:r><w:t xml:space="preserve">See </w:t></w:r><w:hyperlink r:id="rL{k}"><w:r><w:t>{t}</w:t></w:r></w:hyperlink></w:p>'
                     for k, (t, _u) in enumerate(links))
    doc = f'<?xml version="1.0" encoding="UTF-8" standalone="yes"?><w:document {w}><w:body>{paras}<w:sectPr/></w:body></w:document>'
    styles = (f'<?xml version="1.0" encoding="UTF-8" standalone="yes"?><w:styles {w}>' +
              "".join(f'<w:style w:type="paragraph" w:styleId="{i}"><w:name w:val="{esc(n)}"/></w:style>' for i, n in zip(ids, names)) + "</w:styles>")
    ct = ('<?xml version="1.0" encoding="UTF-8" standalone="yes"?><Types xmlns="http://schemas.openxmlformats.org/package/2006/content-types">'
          '<Default Extension="rels" ContentType="application/vnd.openxmlformats-package.relationships+xml"/><Default Extension="xml" ContentType="application/xml"/>'
          '<Override PartName="/word/document.xml" ContentType="application/vnd.openxmlformats-officedocument.wordprocessingml.document.main+xml"/>'
          '<Override PartName="/word/styles.xml" ContentType="application/vnd.openxmlformats-officedocument.wordprocessingml.styles+xml"/></Types>')
    rels = ('<?xml version="1.0" encoding="UTF-8" standalone="yes"?><Relationships xmlns="http://schemas.openxmlformats.org/package/2006/relationships">'
            '<Relationship Id="rId1" Type="http://schemas.openxmlformats.org/officeDocument/2006/relationships/officeDocument" Target="word/document.xml"/></Relationships>')
    drels = ('<?xml version="1.0" encoding="UTF-8" standalone="yes"?><Relationships xmlns="http://schemas.openxmlformats.org/package/2006/relationships">'
             '<Relationship Id="rId1" Type="http://schemas.openxmlformats.org/officeDocument/2006/relationships/styles" Target="styles.xml"/>' +
             "".join(f'<Relationship Id="rL{k}" Type="http://schemas.openxmlformats.org/officeDocument/2006/relationships/hyperlink" Target="{u}" TargetMode="External"/>'
                     for k, (_t, u) in enumerate(links)) + '</Relationships>')
    # parts that are in the package but not referenced from document.xml.rels (producers leave them behind): several of each kind
    def hf(kind, text):
        tagname = "hdr" if kind == "header" else "ftr"
        return f'<?xml version="1.0" encoding="UTF-8" standalone="yes"?><w:{tagname} {w}><w:p><w:r><w:t>{text}</w:t></w:r></w:p></w:{tagname}>'.encode()
    orphans = [(f"word/{kind}{k}.xml", hf(kind, f"orphan {kind} {k}")) for kind in ("header", "footer") for k in (3, 4, 5, 6, 7)]
    orphans += [(f"word/media/orphan{k}.png", png(2 + k, 3)) for k in (1, 2, 3)]
    orphans += [(f"customXml/item{k}.xml", f'<?xml version="1.0"?><item n="{k}"/>'.encode()) for k in (1, 2, 3)]
    return _zip([("[Content_Types].xml", ct.encode()), ("_rels/.rels", rels.encode()), ("word/document.xml", doc.encode()),
                 ("word/styles.xml", styles.encode()), ("word/_rels/document.xml.rels", drels.encode())] + orphans)


def _zip(members):
    bio = io.BytesIO()
    with zipfile.ZipFile(bio, "w", zipfile.ZIP_DEFLATED) as z:
        for m in members:
            zi = zipfile.ZipInfo(m[0], date_time=(2020, 1, 1, 0, 0, 0))
            zi.compress_type = m[2] if len(m) > 2 else zipfile.ZIP_DEFLATED
            z.writestr(zi, m[1])
    return bio.getvalue()


def with_media(fixture_bytes, is_media, blob):
    """Copy of a zip container in which every picture part is replaced by `blob`."""
    src = zipfile.ZipFile(io.BytesIO(fixture_bytes))
    members = []
    n = 0
    for zi in src.infolist():
        d = src.read(zi.filename)
        if is_media(zi.filename):
            d = blob
            n += 1
        members.append((zi.filename, d, zi.compress_type))
    return _zip(members) if n else None


MBOX = (b"From alice@example.com Mon Jan 06 10:00:00 2025\nFrom: alice@example.com\nTo: team@example.com\nSubject: kickoff\n"
        b"Date: Mon, 06 Jan 2025 10:00:00 +0000\nMessage-ID: <kickoff-001@example.com>\n\nfirst\n\n"
        b"From bob@example.com Mon Jan 06 11:00:00 2025\nFrom: bob@example.com\nTo: team@example.com\nSubject: draft without id and date\n\nsecond\n\n"
        b"From carol@example.com Mon Jan 06 12:00:00 2025\nFrom: carol@example.com\nSubject: no recipients\nDate: Mon, 06 Jan 2025 12:00:00 +0000\n\nthird\n")
EML = b"From: dave@example.com\nSubject: bare message without Message-ID, Date, To\nMIME-Version: 1.0\nContent-Type: text/plain\n\nbody\n"


CORE_NS = ('xmlns:cp="http://schemas.openxmlformats.org/package/2006/metadata/core-properties" xmlns:dc="http://purl.org/dc/elements/1.1/" '
           'xmlns:dcterms="http://purl.org/dc/terms/" xmlns:dcmitype="http://purl.org/dc/dcmitype/" xmlns:xsi="http://www.w3.org/2001/XMLSchema-instance"')
W3C = 'xsi:type="dcterms:W3CDTF"'
CORE_VARIANTS = {
    # optional properties partly absent: the places where a library substitutes defaults (openpyxl: now() for missing dates)
    "people_only": "<dc:creator>Ann</dc:creator><cp:lastModifiedBy>Bob</cp:lastModifiedBy><cp:revision>3</cp:revision>",
    "created_only": f"<dc:creator>Ann</dc:creator><cp:lastModifiedBy>Bob</cp:lastModifiedBy><dcterms:created {W3C}>2020-01-02T03:04:05Z</dcterms:created>",
    "modified_only": f"<dc:title>t</dc:title><dcterms:modified {W3C}>2021-02-03T04:05:06Z</dcterms:modified><cp:lastPrinted>2019-01-01T00:00:00Z</cp:lastPrinted>",
    "foreign_dates": ('<dc:creator>Ann</dc:creator><x:created xmlns:x="urn:example:other">2020-01-02T03:04:05Z</x:created>'
                      '<x:dateModified xmlns:x="urn:example:other">2020-01-02T03:04:05Z</x:dateModified><cp:contentStatus>created and modified</cp:contentStatus>'),
    "empty": "",
}


def core_xml(inner):
    return f'<?xml version="1.0" encoding="UTF-8" standalone="yes"?><cp:coreProperties {CORE_NS}>{inner}</cp:coreProperties>'.encode()


def with_part(container, name, data):
    """Copy of a zip container with one part replaced / added (data=None: removed)."""
    src = zipfile.ZipFile(io.BytesIO(container))
    members, seen = [], False
    for zi in src.infolist():
        if zi.filename == name:
            seen = True
            if data is not None:
                members.append((name, data, zi.compress_type))
            continue
        members.append((zi.filename, src.read(zi.filename), zi.compress_type))
    if not seen and data is not None:
        members.append((name, data))
    return _zip(members)


TRACKED_ONLY = ('<text:tracked-changes><text:changed-region text:id="ct1"><text:deletion><office:change-info><dc:creator>x</dc:creator>'
                '<dc:date>2020-01-01T00:00:00</dc:date></office:change-info><text:p>deleted paragraph one</text:p><text:p>deleted paragraph two</text:p>'
                '</text:deletion></text:changed-region></text:tracked-changes><text:p><text:change text:change-id="ct1"/></text:p>')


def mail_with_attachments():
    """An .eml whose attachments exercise how the type of an attachment is determined and what happens to its stream."""
    import base64
    b = "c06-boundary"
    csv_plain = "a,b\r\n1,2\r\n"
    parts = [
        ("report.csv", "text/csv", csv_plain.encode()),                                   # name tells the type
        ("export", "text/csv", csv_plain.replace("1", "3").encode()),                     # no extension: type from the MIME type
        ("figures.dat", "text/csv", csv_plain.replace("1", "5").encode()),                # unknown extension
        (None, "text/plain", b"nameless part\n"),                                        # no name at all
        ("bom.csv", "text/csv", b"\xef\xbb\xbf" + "x,y\r\nZürich,1\r\n".encode("utf-8")),   # byte order mark
        ("notes", "text/plain", b"\xff\xfe" + "utf-16 notes\n".encode("utf-16-le")),   # BOM + no extension
        ("report.csv", "text/csv", csv_plain.replace("1", "7").encode()),                 # the same name twice
        ("blob.bin", "application/octet-stream", bytes(range(64))),                       # unsupported
        ("data.json", "application/json", b'{"k": [1, 2, 3]}'),
    ]
    lines = ["From: erin@example.com", "To: team@example.com", "Subject: attachments of every kind", "Date: Tue, 07 Jan 2025 09:00:00 +0000",
             "Message-ID: <attachments-001@example.com>", "MIME-Version: 1.0", f'Content-Type: multipart/mixed; boundary="{b}"', "",
             f"--{b}", "Content-Type: text/plain; charset=utf-8", "", "see attachments", ""]
    for name, mime, data in parts:
        lines += [f"--{b}", f"Content-Type: {mime}" + (f'; name="{name}"' if name else ""), "Content-Transfer-Encoding: base64",
                  "Content-Disposition: attachment" + (f'; filename="{name}"' if name else ""), "",
                  base64.b64encode(data).decode("ascii"), ""]
    lines += [f"--{b}--", ""]
    return "\r\n".join(lines).encode("utf-8")


def synth_corpus(repo):
    """{file name: bytes}; deterministic."""
    out = {"c06_style_names.odt": odt_with_styles(NAME_POOL), "c06_style_names.docx": docx_with_styles(NAME_POOL),
           "c06_missing_headers.mbox": MBOX, "c06_missing_headers.eml": EML,
           # documents without live text: the "nothing found" branches of observers (fallbacks, defaults)
           "c06_tracked_changes_only.odt": odt_with_styles(NAME_POOL[:2], only_body=TRACKED_ONLY),
           "c06_whitespace_only.odt": odt_with_styles(NAME_POOL[:2], only_body="<text:p> </text:p><text:p><text:s text:c=\"3\"/></text:p>"),
           "c06_no_body_text.odt": odt_with_styles(NAME_POOL[:2], only_body="")}
    res = os.path.join(repo, "sharepoint2text/tests/resources")
    # optional parts absent: packages without meta.xml (several, so that what one leaves behind in the process meets another one)
    for fixture in ("open_office/headings.odt", "open_office/sample_document.odt", "open_office/sample_spreadsheet.ods",
                    "open_office/sample_presentation.odp", "open_office/drawing.odg"):
        try:
            raw = open(os.path.join(res, fixture), "rb").read()
            out["c06_no_meta_" + os.path.basename(fixture)] = with_part(raw, "meta.xml", None)
        except (OSError, KeyError, zipfile.BadZipFile):
            pass
    out["c06_no_meta_synthetic.odt"] = with_part(odt_with_styles(NAME_POOL[:4]), "meta.xml", None)
    # degenerate plain texts (fallback branches: nothing to detect an encoding from)
    out["c06_blank.txt"] = b"  \n\n \t\n"
    out["c06_short.txt"] = b"hi\n"
    out["c06_paragraphs.txt"] = b"first paragraph, long enough to take a while\n" * 40 + b"\n\nsecond\n\nthird paragraph\n" + b"x" * 3000 + b"\n\nlast\n"
    # byte order marks (Notepad "UTF-8 with BOM", Excel "CSV UTF-8", UTF-16 / UTF-32 exports): the explicit-encoding branches
    sample = "name;value\r\nZürich;1\r\nŁódź;2\nlast line without newline"
    out["c06_bom_utf8.txt"] = b"\xef\xbb\xbf" + sample.encode("utf-8")
    out["c06_bom_utf8.csv"] = b"\xef\xbb\xbf" + sample.replace(";", ",").encode("utf-8")
    out["c06_bom_utf16le.txt"] = b"\xff\xfe" + sample.encode("utf-16-le")
    out["c06_bom_utf16be.md"] = b"\xfe\xff" + ("# title\n\n" + sample).encode("utf-16-be")
    out["c06_bom_utf32le.txt"] = b"\xff\xfe\x00\x00" + sample.encode("utf-32-le")
    out["c06_bom_utf8.json"] = b"\xef\xbb\xbf" + b'{"k": ["v", 1, null], "city": "Z\xc3\xbcrich"}'
    out["c06_bom_only.txt"] = b"\xef\xbb\xbf"
    # mails with attachments: named after their type, without / with an unknown extension (the type comes from the declared MIME
    # type), nameless parts, byte-order-marked text parts, an unsupported type, twice the same name
    out["c06_attachments.eml"] = mail_with_attachments()
    # optional attributes absent: comments / footnotes / endnotes without w:id, author, date (converters leave them out)
    import re as _re
    for fixture in ("modern_ms/sample_with_comment_and_table.docx", "modern_ms/thesis-template.docx"):
        try:
            raw = open(os.path.join(res, fixture), "rb").read()
            z = zipfile.ZipFile(io.BytesIO(raw))
            doc, touched = raw, False
            for part, tag in (("word/comments.xml", "w:comment"), ("word/footnotes.xml", "w:footnote"), ("word/endnotes.xml", "w:endnote")):
                if part not in z.namelist():
                    continue
                cx = z.read(part).decode("utf-8")
                items = _re.findall(rf"<{tag}\b[^>]*>.*?</{tag}>", cx, _re.S)
                items = [x for x in items if "w:type=" not in x.split(">", 1)[0]]
                if not items:
                    continue
                last = items[-1]
                no_id = _re.sub(r'\sw:id="[^"]*"', "", last, count=1)
                bare = _re.sub(rf"<{tag}\b[^>]*>", f"<{tag}>", last, count=1)
                other = bare.replace(f"</{tag}>", f"<w:p><w:r><w:t>another one</w:t></w:r></w:p></{tag}>")
                doc = with_part(doc, part, cx.replace(last, last + no_id + bare + other, 1).encode("utf-8"))
                touched = True
            if touched:
                out["c06_notes_without_id_" + os.path.basename(fixture)] = doc
        except (OSError, KeyError, zipfile.BadZipFile):
            pass
    # member names that differ only in case, referenced with yet another spelling (case-insensitive producers / file systems)
    try:
        raw = open(os.path.join(res, "modern_ms/pptx_formula_image.pptx"), "rb").read()
        z = zipfile.ZipFile(io.BytesIO(raw))
        rels_name = next(n for n in z.namelist() if n.startswith("ppt/slides/_rels/") and b"/media/" in z.read(n))
        rels = z.read(rels_name).decode("utf-8")
        import re as _re
        target = _re.search(r'Target="(\.\./media/[^"]+)"', rels).group(1)
        base = target.rsplit("/", 1)[1]
        odd = "".join(c.upper() if i % 2 else c.lower() for i, c in enumerate(base))       # a spelling no member has
        doc = with_part(raw, rels_name, rels.replace(target, "../media/" + odd).encode("utf-8"))
        doc = with_part(doc, "ppt/media/" + base, jpeg(640, 480))
        doc = with_part(doc, "ppt/media/" + base.capitalize(), jpeg(320, 200))
        doc = with_part(doc, "ppt/media/" + base.swapcase(), jpeg(111, 222))
        # ... enough spellings that "the first / the last one in set order" differs between two hash seeds
        letters = [i for i, c in enumerate(base) if c.isalpha()]
        for k, i in enumerate(letters[:6]):
            spelling = base[:i].lower() + base[i].upper() + base[i + 1:].lower()
            if spelling not in (base, base.capitalize(), base.swapcase(), odd):
                doc = with_part(doc, "ppt/media/" + spelling, jpeg(50 + k, 70 + k))
        out["c06_case_variant_members.pptx"] = doc
    except Exception:  # noqa -- fixture missing / shaped differently: the corpus simply lacks this document
        pass
    for fixture, tag in (("modern_ms/mwe.xlsx", "xlsx"), ("modern_ms/headings.docx", "docx"), ("modern_ms/pptx_table.pptx", "pptx")):
        try:
            raw = open(os.path.join(res, fixture), "rb").read()
        except OSError:
            continue
        variants = CORE_VARIANTS if tag == "xlsx" else {"people_only": CORE_VARIANTS["people_only"]}
        for vname, inner in variants.items():
            out[f"c06_core_{vname}.{tag}"] = with_part(raw, "docProps/core.xml", core_xml(inner))
        if tag == "xlsx":
            out["c06_core_absent.xlsx"] = with_part(raw, "docProps/core.xml", None)
    # optional fields absent / trailing padding: the places where defaults (now(), generated ids) and "repairs" of the input creep in
    try:
        pdfs = sorted((os.path.getsize(p), p) for p in (os.path.join(res, "pdf", f) for f in os.listdir(os.path.join(res, "pdf"))) if p.endswith(".pdf"))
        raw = open(pdfs[0][1], "rb").read()
        out["c06_trailing_padding.pdf"] = raw + b"\n" + b"\x00" * ((-(len(raw) + 1)) % 512 or 512)
        out["c06_trailing_blanks.pdf"] = raw + b"\r\n   \n\n"
    except OSError:
        pass
    twins = [("jpeg", jpeg(640, 480), jpeg(320, 200)), ("png", png(3, 5), png(5, 3))]
    for fixture, pred, tag in (("modern_ms/pptx_formula_image.pptx", lambda n: n.startswith("ppt/media/"), "pptx"),
                               ("modern_ms/sample_with_comment_and_table.docx", lambda n: n.startswith("word/media/"), "docx")):
        try:
            raw = open(os.path.join(res, fixture), "rb").read()
        except OSError:
            continue
        ext = fixture.rsplit(".", 1)[1]
        for kind, a, b in twins:
            for lab, blob in (("a", a), ("b", b)):
                d = with_media(raw, pred, blob)
                if d is not None:
                    out[f"c06_twin_{kind}_{lab}.{ext}"] = d
    return out


def write_synth(repo):
    os.makedirs(SYNTH_DIR, exist_ok=True)
    d = os.path.join(SYNTH_DIR, hashlib.sha256(os.path.abspath(repo).encode()).hexdigest()[:10])
    os.makedirs(d, exist_ok=True)
    want = synth_corpus(repo)
    for name, data in want.items():
        p = os.path.join(d, name)
        try:
            if open(p, "rb").read() == data:
                continue
        except OSError:
            pass
        tmp = p + f".{os.getpid()}.tmp"
        with open(tmp, "wb") as fh:
            fh.write(data)
        os.replace(tmp, p)
    for f in os.listdir(d):
        if f not in want and not f.endswith(".tmp"):
            os.unlink(os.path.join(d, f))
    return d


# --------------------------------------------------------------------------- corpus run --
def start(seed, repo, synth_dir, order, scope):
    """A fresh process; the processes of one run also differ in what is NOT an input of extraction: hash seed, corpus order,
    locale / default text encoding, time zone, terminal size, working directory, unrelated environment variables."""
    env = dict(os.environ, PYTHONHASHSEED=str(seed))
    cwd = None
    if order == "rev":
        env.update(LC_ALL="C", LANG="C", PYTHONUTF8="0", PYTHONCOERCECLOCALE="0", TZ="Pacific/Kiritimati", COLUMNS="43", LINES="11",
                   PYTHONIOENCODING="ascii:backslashreplace", C06_UNRELATED="1", HOME="/nonexistent-c06-home")
        cwd = synth_dir if os.path.isdir(synth_dir) else None
    else:
        env.update(LC_ALL="C.UTF-8", LANG="C.UTF-8", TZ="UTC")
    return subprocess.Popen([sys.executable, "-c", WORKER, repo, synth_dir, order, scope], stdout=subprocess.PIPE, stderr=subprocess.PIPE, text=True,
                            env=env, cwd=cwd)


def collect(p):
    try:
        so, se = p.communicate(timeout=900)
    except subprocess.TimeoutExpired:
        p.kill()
        return {}
    lines = [l for l in so.splitlines() if l.startswith("{")]
    return json.loads(lines[-1]) if lines else {}


def _diff(x, y, path, out):
    if type(x) != type(y):
        out.append(path)
    elif isinstance(x, dict):
        for k in sorted(set(x) | set(y)):
            if k not in x or k not in y:
                out.append(path + "/" + k)
            else:
                _diff(x[k], y[k], path + "/" + k, out)
    elif isinstance(x, list):
        if len(x) != len(y):
            out.append(path)
        else:
            for i, (p, q) in enumerate(zip(x, y)):
                _diff(p, q, f"{path}[{i}]", out)
    elif x != y:
        out.append(path)


def mismatches(repo, scope="all", seeds=(1, 2)):
    """[(file, kind, detail)] over the corpus: fresh processes with different hash seeds (and start times), opposite corpus
    order; per process: repeated extraction, extraction without a path, observers interleaved with to_json()."""
    synth = write_synth(repo)
    # one check asks for the same corpus run once per violated obligation: keep the observations of a run for a few minutes,
    # keyed by the exact source text of the tree under test
    import time
    h = hashlib.sha256()
    for dp, _dn, fs in sorted(os.walk(os.path.join(repo, "sharepoint2text"))):
        if os.sep + "tests" in dp:
            continue
        for fn in sorted(fs):
            if fn.endswith(".py"):
                with open(os.path.join(dp, fn), "rb") as fh:
                    h.update(fn.encode() + b"\0" + fh.read())
    with open(os.path.abspath(__file__), "rb") as fh:
        h.update(fh.read())
    cache = os.path.join(SYNTH_DIR, f"run_{h.hexdigest()[:20]}_{scope}_{'-'.join(map(str, seeds))}.json")
    try:
        if time.time() - os.path.getmtime(cache) < 600:
            got = json.load(open(cache))
            return [tuple(x) for x in got[0]], got[1]
    except (OSError, ValueError):
        pass
    r = _mismatches_uncached(repo, synth, scope, seeds)
    if r is not None:
        try:
            tmp = cache + f".{os.getpid()}.tmp"
            with open(tmp, "w") as fh:
                json.dump([r[0], r[1]], fh)
            os.replace(tmp, cache)
            for old in os.listdir(SYNTH_DIR):
                if old.startswith("run_") and time.time() - os.path.getmtime(os.path.join(SYNTH_DIR, old)) > 3600:
                    os.unlink(os.path.join(SYNTH_DIR, old))
        except OSError:
            pass
    return r


FRESH_ONE = r'''
import sys, io, json, logging
logging.disable(logging.CRITICAL)
repo, f = sys.argv[1], sys.argv[2]
sys.path.insert(0, repo)
import sharepoint2text
data = open(f, "rb").read()
print(json.dumps([json.dumps(r.to_json(), sort_keys=True, default=str) for r in sharepoint2text.get_extractor(f)(io.BytesIO(data), f)]))
'''


def fresh_json(repo, synth, name):
    """to_json() of one corpus document extracted in a process of its own."""
    f = os.path.join(synth, name[len("synthetic/"):]) if name.startswith("synthetic/") else os.path.join(repo, name)
    try:
        p = subprocess.run([sys.executable, "-c", FRESH_ONE, repo, f], capture_output=True, text=True, timeout=120,
                           env=dict(os.environ, PYTHONHASHSEED="1", LC_ALL="C.UTF-8", LANG="C.UTF-8", TZ="UTC"))
        lines = [l for l in p.stdout.splitlines() if l.startswith("[")]
        return json.loads(lines[-1]) if lines else None
    except (subprocess.TimeoutExpired, ValueError, OSError):
        return None


def _mismatches_uncached(repo, synth, scope, seeds):
    procs = [start(s, repo, synth, "fwd" if i % 2 == 0 else "rev", scope) for i, s in enumerate(seeds)]
    runs = [collect(p) for p in procs]
    if not all(runs):
        return None
    a = runs[0]
    out = []
    n_fresh = 0
    for f in sorted(a):
        ra = a[f]
        if "error" in ra:
            continue
        if not ra.get("buffer_unchanged", True):
            out.append((f, "input buffer modified", ""))
        if not all(r.get(f, {}).get("observer_stable", True) for r in runs):
            out.append((f, "to_json() changed by observers (units / images / streams read)", ""))
        for h in sorted({h for r in runs for h in r.get(f, {}).get("history", [])}):
            out.append((f, h, ""))
        for r in runs:
            if r.get(f, {}).get("fresh_differs"):
                paths = []
                n_fresh += 1
                fj = fresh_json(repo, synth, f) if n_fresh <= 8 else None      # where it differs: one more fresh process, this document only
                for x, y in zip(fj or [], r[f].get("json", [])):
                    try:
                        _diff(json.loads(x), json.loads(y), "", paths)
                    except ValueError:
                        pass
                if fj is not None and len(fj) != len(r[f].get("json", [])):
                    paths.append("<number of results>")
                out.append((f, "to_json() differs between a fresh process and a process that has extracted other documents before",
                            ",".join(sorted(set(paths))[:6])))
        if not all(r.get(f, {}).get("repeat_stable", True) for r in runs):
            paths = []
            for r in runs:
                for x, y in zip(r.get(f, {}).get("json", []), r.get(f, {}).get("repeat_json", [])):
                    try:
                        _diff(json.loads(x), json.loads(y), "", paths)
                    except ValueError:
                        pass
            out.append((f, "to_json() differs between two extractions in one process (second one with the input cursor at offset 7)",
                        ",".join(sorted(set(paths))[:6])))
        for rb in runs[1:]:
            rb = rb.get(f, {})
            for dk, jk, what in (("digest", "json", "to_json() differs between fresh processes"),
                                 ("nopath_digest", "nopath_json", "to_json() of an extraction without path differs between fresh processes")):
                if ra.get(dk) != rb.get(dk) and dk in ra and dk in rb:
                    paths = []
                    for x, y in zip(ra.get(jk, []), rb.get(jk, [])):
                        _diff(json.loads(x), json.loads(y), "", paths)
                    rec = (f, what, ",".join(sorted(set(paths))[:6]))
                    if rec not in out:
                        out.append(rec)
    return out, len(a)


# --------------------------------------------------------------------- targeted searches --
def _import(repo, rel):
    if repo not in sys.path:
        sys.path.insert(0, repo)
    return importlib.import_module(rel[:-3].replace("/", "."))


def stream_search(repo, hint):
    """The function named by the obligation reads a stream it was handed: call it with one payload at several cursor
    positions; the result (and the payload) must not depend on the position, and the position must be restored."""
    q = hint.get("function", "")
    if "." in q:
        return None
    try:
        fn = getattr(_import(repo, hint["file"]), q)
    except Exception:
        return None
    import inspect
    import json

    def canon(r):
        """A comparable rendering of a result: generators are consumed, extraction results compared by their JSON, other objects
        (an open archive, a parser) only by their type -- never by identity."""
        if inspect.isgenerator(r):
            r = [canon(x) for x in r]
            return r
        if isinstance(r, (str, bytes, int, float, bool, type(None))):
            return repr(r)
        if isinstance(r, (list, tuple)):
            return [canon(x) for x in r]
        if hasattr(r, "to_json"):
            try:
                return json.dumps(r.to_json(), sort_keys=True, default=str)
            except Exception as e:  # noqa
                return f"to_json raised {type(e).__name__}"
        return f"<{type(r).__name__}>"

    payloads = [bytes(range(48, 48 + 40))] + _fixture_payloads(repo, hint.get("file", ""))
    for payload in payloads:
        ref = None
        for pos in (0, 1, 17, len(payload)):
            b = io.BytesIO(payload)
            b.seek(pos)
            try:
                r = canon(fn(b))
            except Exception as e:  # noqa
                r = f"raised {type(e).__name__}"
            shown = payload.hex() if len(payload) <= 64 else f"{len(payload)} bytes, sha256 {hashlib.sha256(payload).hexdigest()}"
            if b.closed:
                return {"reproduced": True, "target": f"{hint['file']}::{q}", "inputs": {"payload": shown, "cursor": pos},
                        "expected": "caller's stream left open", "observed": "stream closed"}
            if b.getvalue() != payload:
                return {"reproduced": True, "target": f"{hint['file']}::{q}", "inputs": {"payload": shown, "cursor": pos},
                        "expected": "stream content unchanged", "observed": "content modified"}
            if pos == 0:
                ref = r
            elif r != ref:
                return {"reproduced": True, "target": f"{hint['file']}::{q}", "inputs": {"payload": shown, "cursor": pos},
                        "expected": f"same result as with the cursor at 0: {str(ref)[:60]!r}", "observed": f"{str(r)[:60]!r}"}
            if hint.get("check_cursor") and b.tell() != pos:
                return {"reproduced": True, "target": f"{hint['file']}::{q}", "inputs": {"payload": shown, "cursor": pos},
                        "expected": f"cursor restored to {pos}", "observed": f"cursor at {b.tell()}"}
            if hint.get("check_left0") and b.tell() != 0:
                return {"reproduced": True, "target": f"{hint['file']}::{q}", "inputs": {"payload": shown, "cursor": pos},
                        "expected": "cursor left at 0", "observed": f"cursor at {b.tell()}"}
    return None


FIXTURE_KINDS = {"xlsx": (".xlsx",), "xls": (".xls",), "rtf": (".rtf",), "plain": (".txt", ".md", ".csv"), "mbox": (".mbox",), "msg": (".msg",),
                 "mhtml": (".mhtml", ".mht"), "html": (".html", ".htm"), "archive": (".zip", ".tar"), "zip": (".docx", ".zip"), "eml": (".eml",)}


def _fixture_payloads(repo, rel, limit=2, max_bytes=3_000_000):
    """Real documents of the kind the module named `rel` reads (by the first word of its file name), smallest first, plus a tiny
    ZIP for the ZIP guard."""
    base = os.path.basename(rel).split("_")[0].split(".")[0]
    exts = FIXTURE_KINDS.get(base, ())
    found = []
    root = os.path.join(repo, "sharepoint2text", "tests", "resources")
    for d, _dirs, files in os.walk(root):
        for f in files:
            if exts and f.lower().endswith(exts):
                fp = os.path.join(d, f)
                try:
                    n = os.path.getsize(fp)
                except OSError:
                    continue
                if n <= max_bytes:
                    found.append((n, fp))
    out = []
    for _n, fp in sorted(found)[:limit]:
        try:
            with open(fp, "rb") as fh:
                out.append(fh.read())
        except OSError:
            pass
    if base in ("zip", "archive"):
        import zipfile
        z = io.BytesIO()
        with zipfile.ZipFile(z, "w") as zf:
            zf.writestr("a.txt", "hello")
        out.append(z.getvalue())
    return out


STRING_POOL = ["a.txt", "A.TXT", "a.pdf", "b.txt", "x/a.txt", "a", "", "1", "1.0", "image.png", "IMAGE.PNG", "image.jpeg"]


def state_search(repo, hint):
    """History independence of a function that keeps process-persistent state: f(b) in the state the module has after
    import must equal f(b) after f(a), for a, b from a pool of near-colliding inputs of the parameter's type."""
    import copy
    q = hint.get("function", "")
    if "." in q:
        return None
    try:
        mod = _import(repo, hint["file"])
        fn = getattr(mod, q)
    except Exception:
        return None
    params = hint.get("params") or []
    if len(params) != 1:
        return None
    ann = params[0][1]
    pool = blob_pool() if "bytes" in ann else STRING_POOL if "str" in ann else blob_pool() + STRING_POOL
    gname = hint.get("global")
    g = getattr(mod, gname, None) if gname else None
    snapshot = copy.copy(g) if isinstance(g, (dict, list, set)) else None

    def reset():
        if isinstance(g, dict):
            g.clear(); g.update(snapshot)
        elif isinstance(g, list):
            g[:] = snapshot
        elif isinstance(g, set):
            g.clear(); g.update(snapshot)
        if hasattr(fn, "cache_clear"):
            fn.cache_clear()

    def call(x):
        try:
            return repr(fn(x))
        except Exception as e:  # noqa
            return f"raised {type(e).__name__}"

    fresh = {}
    for i, b in enumerate(pool):
        reset()
        fresh[i] = call(b)
    for i, a in enumerate(pool):
        for j, b in enumerate(pool):
            if i == j:
                continue
            reset()
            call(a)
            r = call(b)
            if r != fresh[j]:
                enc = (lambda x: x.hex() if isinstance(x, bytes) else x)
                return {"reproduced": True, "target": f"{hint['file']}::{q}",
                        "inputs": {"earlier_call": enc(a), "call": enc(b)},
                        "expected": f"{fresh[j]} (result in a fresh process)", "observed": f"{r} after the earlier call in the same process"}
    reset()
    return None


def _report(new, n, note=""):
    f, kind, detail = new[0]
    return {"reproduced": True, "target": f, "inputs": {"file": f, "PYTHONHASHSEED": [1, 2], "synthetic_generator": "replay/C06.py::synth_corpus" if f.startswith("synthetic/") else None},
            "expected": "identical to_json() in fresh processes / repeated extraction / idempotent observers / unchanged input buffer",
            "observed": f"{kind} {detail}", "all_new_mismatches": new[:10]}


FRAME_WORKER = r'''
import sys, io, json, glob, hashlib, logging, dataclasses, os, copy, time, inspect
logging.disable(logging.CRITICAL)
repo, synth_dir, cls_name, meth = sys.argv[1:5]
sys.path.insert(0, repo)
import sharepoint2text

def snap(o, depth=0, seen=None):
    """Everything reachable from an object except read positions of streams (instance __dict__ entries beyond the declared fields included)."""
    seen = seen if seen is not None else set()
    if depth > 12:
        return "..."
    if isinstance(o, io.BytesIO):
        return ["BytesIO", hashlib.sha256(o.getvalue()).hexdigest()]
    if isinstance(o, (str, bytes, int, float, bool, type(None))):
        return repr(o)
    if id(o) in seen:
        return "<cycle>"
    seen = seen | {id(o)}
    if isinstance(o, (list, tuple)):
        return [type(o).__name__] + [snap(x, depth + 1, seen) for x in o]
    if isinstance(o, dict):
        return ["dict"] + [[snap(k, depth + 1, seen), snap(v, depth + 1, seen)] for k, v in o.items()]
    if isinstance(o, (set, frozenset)):
        return ["set"] + sorted(json.dumps(snap(x, depth + 1, seen)) for x in o)
    d = getattr(o, "__dict__", None)
    if isinstance(d, dict):
        # plain data kept on the class (counters, shared containers) is state every instance sees
        shared = [[k, snap(v, depth + 1, seen)] for k, v in vars(type(o)).items()
                  if not k.startswith("__") and isinstance(v, (int, float, str, bytes, list, dict, set, tuple, type(None)))]
        return [type(o).__name__] + [[k, snap(v, depth + 1, seen)] for k, v in d.items()] + ([["<class>", shared]] if shared else [])
    return repr(type(o))

def instances(o, out, seen, depth=0):
    if id(o) in seen or depth > 8 or isinstance(o, (str, bytes, int, float, bool, type(None), io.BytesIO)):
        return
    seen.add(id(o))
    if type(o).__name__ == cls_name:
        out.append(o)
    if isinstance(o, (list, tuple, set, frozenset)):
        for x in o:
            instances(x, out, seen, depth + 1)
    elif isinstance(o, dict):
        for x in o.values():
            instances(x, out, seen, depth + 1)
    elif isinstance(getattr(o, "__dict__", None), dict):
        for x in list(vars(o).values()):
            instances(x, out, seen, depth + 1)

def variants(o):
    """The instance itself and small perturbations the extractors do not necessarily produce but the class admits:
    ragged / empty nested lists, emptied and duplicated list fields, None / empty optional strings."""
    yield "as extracted", o
    for k, v in list(vars(o).items()):
        if isinstance(v, list) and v:
            if all(isinstance(r, list) for r in v):
                c = copy.deepcopy(o); rows = getattr(c, k)
                longest = max(range(len(rows)), key=lambda i: len(rows[i]))
                for i, r in enumerate(rows):
                    if i != longest and r:
                        r.pop()
                        break
                else:
                    rows.append([])
                yield f"{k}: rows of different lengths", c
                c = copy.deepcopy(o); getattr(c, k).append([])
                yield f"{k}: an empty row added", c
            c = copy.deepcopy(o); setattr(c, k, [])
            yield f"{k} emptied", c
            c = copy.deepcopy(o); lst = getattr(c, k); lst.extend(copy.deepcopy(lst[:2])); lst.reverse()
            yield f"{k}: elements repeated, reversed", c
        elif isinstance(v, str) and v:
            c = copy.deepcopy(o); setattr(c, k, "")
            yield f"{k} = empty string", c

def unit_results(f):
    data = open(f, "rb").read()
    return list(sharepoint2text.get_extractor(f)(io.BytesIO(data), f))

files = sorted(glob.glob(synth_dir + "/*")) + [f for f in sorted(glob.glob(repo + "/sharepoint2text/tests/resources/*/*"), key=os.path.getsize) if "password" not in f]
files = [f for f in files if os.path.isfile(f) and sharepoint2text.is_supported_file(f)]
t0, tried, n_inst = time.time(), 0, 0
found = None
for f in files:
    if time.time() - t0 > 150 or n_inst >= 40:
        break
    try:
        res = unit_results(f)
    except Exception:
        continue
    got = []
    instances(res, got, set())
    # objects handed out by listings (units, images, tables) are instances as well
    for r in res:
        for name in ("iterate_units", "iterate_images", "iterate_tables"):
            try:
                instances(list(getattr(r, name)()), got, set())
            except Exception:
                pass
    for o in got[:6]:
        n_inst += 1
        for what, v in variants(o):
            m = getattr(v, meth, None)
            if m is None:
                continue
            before = snap(v)
            try:
                is_prop = isinstance(inspect.getattr_static(type(v), meth, None), property)
                if not is_prop:
                    if [p for p in list(inspect.signature(m).parameters.values()) if p.default is p.empty and p.kind in (p.POSITIONAL_ONLY, p.POSITIONAL_OR_KEYWORD)]:
                        continue
                    r1 = m()
                    if inspect.isgenerator(r1) or hasattr(r1, "__next__"):
                        r1 = list(r1)
                    r2 = m()
                    if inspect.isgenerator(r2) or hasattr(r2, "__next__"):
                        r2 = list(r2)
            except Exception:
                continue
            tried += 1
            after = snap(v)
            if before != after:
                name = f[len(repo) + 1:] if f.startswith(repo + "/") else "synthetic/" + os.path.basename(f)
                found = {"file": name, "instance": what, "class": cls_name, "method": meth,
                         "before": json.dumps(before)[:300], "after": json.dumps(after)[:300]}
                break
        if found:
            break
    if found:
        break
print(json.dumps({"found": found, "tried": tried, "instances": n_inst}))
'''


def frame_search(repo, hint):
    """Function-level search for an observer of a result class that modifies what it observes: instances of the class are taken
    from the results of the corpus (and small perturbations of them: ragged / empty / repeated list fields), the method is called
    twice, everything reachable from the instance (stream positions excepted) is compared before / after."""
    q = hint.get("function") or ""
    if "." not in q:
        return None
    cls_name, meth = q.split(".")[-2], q.split(".")[-1]
    synth = write_synth(repo)
    try:
        p = subprocess.run([sys.executable, "-c", FRAME_WORKER, repo, synth, cls_name, meth], capture_output=True, text=True, timeout=400,
                           env=dict(os.environ, PYTHONHASHSEED="1"))
        lines = [l for l in p.stdout.splitlines() if l.startswith("{")]
        got = json.loads(lines[-1]) if lines else {}
    except (subprocess.TimeoutExpired, ValueError, OSError):
        return None
    f = got.get("found")
    if not f:
        return None
    return {"reproduced": True, "target": f"{cls_name}.{meth}",
            "inputs": {"file": f["file"], "instance": f"{cls_name} object from the extraction result ({f['instance']})", "call": f"{meth}() twice",
                       "synthetic_generator": "replay/C06.py::synth_corpus" if f["file"].startswith("synthetic/") else None},
            "expected": "everything reachable from the object is the same before and after the call (stream positions excepted)",
            "observed": f"before: {f['before']} -- after: {f['after']}"}


def _matches(sig, m):
    """A recorded difference: the kind of difference (`kind_contains`: one substring or a list of alternatives), where it shows
    (`detail`: exact strings, or `detail_regex` matching the whole detail) and optionally in which documents (`file_regex`)."""
    import re
    try:
        kinds = sig["kind_contains"] if isinstance(sig["kind_contains"], list) else [sig["kind_contains"]]
        if not any(k in m[1] for k in kinds):
            return False
        if sig.get("file_regex") and not re.search(sig["file_regex"], m[0]):
            return False
        if m[2] in sig["detail"]:
            return True
        return bool(sig.get("detail_regex")) and bool(m[2]) and re.fullmatch(sig["detail_regex"], m[2]) is not None
    except (re.error, TypeError, KeyError):
        return False


def recorded_signatures():
    try:
        root = os.path.dirname(os.path.dirname(os.path.abspath(__file__)))
        kf = json.load(open(os.path.join(root, "known_findings.json"))).get("findings", [])
        return [{"id": f["id"], "detail": list(f["mismatch"].get("detail") or []), "kind_contains": f["mismatch"]["kind_contains"],
                 "detail_regex": f["mismatch"].get("detail_regex"), "file_regex": f["mismatch"].get("file_regex")}
                for f in kf if f.get("property") == "C06" and isinstance(f.get("mismatch"), dict)]
    except (OSError, ValueError, KeyError, TypeError):
        return []


def find(req):
    repo = os.environ.get("VERIF_REPO", "/repo")
    hint = req.get("extra") or {}
    if not hint and "::" in (req.get("function") or ""):
        # obligation of a deductively verified function (contracts/C06.py::contracts): search at function level first
        rel, q = req["function"].split("::", 1)
        # (restoring the cursor is only required where the obligation says so)
        hint = {"kind": "stream", "file": rel, "function": q, "check_cursor": "position-restored" in (req.get("obligation") or ""),
                "check_left0": "left-at-offset-0" in (req.get("obligation") or "")}
    kind = hint.get("kind")
    if kind == "stream":
        r = stream_search(repo, hint)
        if r:
            return r
    if kind == "state":
        r = state_search(repo, hint)
        if r:
            return r
    scope, seeds = "all", (1, 2)
    if kind == "order":
        # ties are ordered by the hash seed: three seeds on the synthetic name pools first
        r = mismatches(repo, "synthetic", (1, 2, 3))
        if r and r[0]:
            return _report(r[0], r[1])
    r = mismatches(repo, scope, seeds)
    if r is None:
        return {"reproduced": False, "note": "worker produced no output"}
    mm, n = r
    known = {tuple(x) for x in (req.get("known_mismatches") or [])}
    new = [m for m in mm if (m[0], m[2]) not in known and (m[0].split("/")[-1], m[2]) not in known]
    # mismatches recorded as known findings (known_findings.json, property C06, field "mismatch": where the two runs differ and
    # what kind of difference it is) are listed separately: they are reported once, under their finding, and never hide new ones
    recorded = []
    for sig in recorded_signatures():
        hit = [m for m in new if _matches(sig, m)]
        recorded += [list(m) + [sig["id"]] for m in hit]
        new = [m for m in new if m not in hit]
    if req.get("list_all"):
        return {"reproduced": bool(new), "mismatches": new, "recorded": recorded, "fixtures": n}
    if new:
        return _report(new, n)
    if kind == "frame" and not req.get("list_all"):
        r = frame_search(repo, hint)
        if r:
            return r
    return {"reproduced": False, "note": f"{n} documents: no unrecorded mismatch ({len(mm)} recorded)", "recorded_still_failing": len(mm)}


def rerun(stored):
    return find({"extra": (stored.get("solver") or {}).get("replay_hint")})
