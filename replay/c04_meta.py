"""Native check of C04 (g): documents with known, pairwise distinct property values; the metadata object must report each
documented property unchanged (OOXML / ODF: exact, including surrounding blanks; OPF / HTML title: surrounding white space is
not significant)."""
import io
import os
import re
import zipfile

REPO = os.environ.get("VERIF_REPO", "/repo")
RES = os.path.join(REPO, "sharepoint2text", "tests", "resources")
VALUES = {"title": " Title é中 1 ", "creator": "Créator  Two", "subject": "Subject/3", "keywords": "k1, k2;k3", "description": "Desc\nline 4"}

# a second set: plain text that LOOKS like an escape of some other layer (OOXML _xHHHH_, URL, backslash, character reference,
# format fields) -- stored properties are plain strings, none of it may be decoded
LOOKALIKE = {"title": "budget_x2024_final %41 \\u0042", "creator": "svc_x0041_runner &#67;", "subject": "a_x000D_b {0} %(x)s",
             "keywords": "k_x0020_1;\\n;=?utf-8?q?x?=", "description": "d_x0044_ &amp;amp; \\x41 $HOME"}
# a third set: characters at the two ends that normalisers like to strip (timestamp designators, punctuation, zeros, case)
EDGES = {"title": "Zebra to Gen Z", "creator": "z. JAY-Z", "subject": "007 A-Z 00", "keywords": ",k1;k2,;", "description": "--Describe QUIZ.--"}
# a fourth set: white space of several kinds at both ends of EVERY property (a reader that trims, or returns the text through a
# trimming helper, changes the stored value)
BLANKS = {"title": "  Title in blanks \t", "creator": " \tCreator in blanks  ", "subject": "\nSubject in blanks\n", "keywords": " k1, k2 ",
          "description": "\u00a0Description in blanks\u00a0 "}
VALUE_SETS = [VALUES, LOOKALIKE, EDGES, BLANKS]


def directed_values(strings):
    """Value sets built from the string constants of the transformation the analysis saw on the way to the field (e.g. the
    argument of rstrip / replace): each occurs at the start, the end and inside of every property value."""
    out = []
    for t in [x for x in (strings or []) if isinstance(x, str) and 0 < len(x) <= 8][:4]:
        out.append({p: f"{t}{t} {p} {t}mid{t} end {t}{t}" for p in VALUES})
    return out

CORE = ('<?xml version="1.0" encoding="UTF-8" standalone="yes"?><cp:coreProperties '
        'xmlns:cp="http://schemas.openxmlformats.org/package/2006/metadata/core-properties" xmlns:dc="http://purl.org/dc/elements/1.1/" '
        'xmlns:dcterms="http://purl.org/dc/terms/" xmlns:xsi="http://www.w3.org/2001/XMLSchema-instance">'
        "<dc:title>{title}</dc:title><dc:creator>{creator}</dc:creator><dc:subject>{subject}</dc:subject>"
        "<cp:keywords>{keywords}</cp:keywords><dc:description>{description}</dc:description></cp:coreProperties>")


# LAYOUT "decoys": in front of the genuine property elements the part carries (a) vendor elements with the SAME LOCAL NAME in a
# foreign namespace (a publishing tool's series block: <v:title>), (b) the same qualified name one level down inside a vendor
# wrapper (<v:block><dc:title>), (c) the local name without prefix (default / no namespace).  A reader that selects the property
# by local name only, by a descendant path or by its first textual match reports a decoy instead of the stored property.
LAYOUT = "plain"
VENDOR = "http://example.org/ns/vendor/1.0"


def decoys(pairs, unprefixed=True):
    """pairs: [(property, qualified tag)] -> XML text to put in front of the genuine elements ('' in the plain layout)."""
    if LAYOUT != "decoys":
        return ""
    out = []
    for p, t in pairs:
        local = t.split(":")[-1]
        out.append(f'<v:{local} xmlns:v="{VENDOR}">vendor {p}</v:{local}>')
        out.append(f'<v:block xmlns:v="{VENDOR}" xmlns:dc="http://purl.org/dc/elements/1.1/" '
                   f'xmlns:cp="http://schemas.openxmlformats.org/package/2006/metadata/core-properties" '
                   f'xmlns:meta="urn:oasis:names:tc:opendocument:xmlns:meta:1.0"><{t}>nested {p}</{t}></v:block>')
        if unprefixed:
            out.append(f"<{local}>unprefixed {p}</{local}>")
    return "".join(out)


OOXML_TAGS = (("title", "dc:title"), ("creator", "dc:creator"), ("subject", "dc:subject"), ("keywords", "cp:keywords"), ("description", "dc:description"))
ODF_TAGS = (("title", "dc:title"), ("creator", "dc:creator"), ("subject", "dc:subject"), ("keywords", "meta:keyword"), ("description", "dc:description"))
EPUB_TAGS = tuple((p, "dc:" + p) for p in ("title", "creator", "subject", "description"))


def esc(s):
    return s.replace("&", "&amp;").replace("<", "&lt;")


def rezip(path, repl):
    src = zipfile.ZipFile(path)
    buf = io.BytesIO()
    with zipfile.ZipFile(buf, "w", zipfile.ZIP_DEFLATED) as z:
        for zi in src.infolist():
            data = src.read(zi.filename)
            if zi.filename in repl:
                data = repl[zi.filename](data)
            z.writestr(zi, data)
    return buf.getvalue()


def ooxml(fixture):
    def core(d):
        s = CORE.format(**{k: esc(v) for k, v in CUR.items()})
        return s.replace("<dc:title>", decoys(OOXML_TAGS) + "<dc:title>", 1).encode("utf-8")
    return rezip(os.path.join(RES, fixture), {"docProps/core.xml": core})


def odf(fixture):
    def meta(d):
        s = d.decode("utf-8")
        body = "".join(f"<{t}>{esc(CUR[p])}</{t}>" for p, t in (("title", "dc:title"), ("creator", "dc:creator"), ("subject", "dc:subject"),
                                                                    ("keywords", "meta:keyword"), ("description", "dc:description")))
        s = re.sub(r"<(dc:title|dc:creator|dc:subject|meta:keyword|dc:description)>.*?</\1>", "", s, flags=re.S)
        s = re.sub(r"<(dc:title|dc:creator|dc:subject|meta:keyword|dc:description)/>", "", s)
        if "xmlns:dc=" not in s:
            s = s.replace("<office:document-meta ", '<office:document-meta xmlns:dc="http://purl.org/dc/elements/1.1/" ', 1)
        return re.sub(r"(<office:meta[^>]*>)", lambda m: m.group(1) + decoys(ODF_TAGS) + body, s, count=1).encode("utf-8")
    return rezip(os.path.join(RES, fixture), {"meta.xml": meta})


def epub(fixture):
    path = os.path.join(RES, fixture)
    opf = [n for n in zipfile.ZipFile(path).namelist() if n.endswith(".opf")][0]

    def fix(d):
        s = d.decode("utf-8")
        s = re.sub(r"<dc:(title|creator|subject|description)[^>]*>.*?</dc:\1>", "", s, flags=re.S)
        body = "".join(f"<dc:{p}>{esc(CUR[p])}</dc:{p}>" for p in ("title", "creator", "subject", "description"))
        return re.sub(r"(<(?:opf:)?metadata[^>]*>)", lambda m: m.group(1) + decoys(EPUB_TAGS) + body, s, count=1).encode("utf-8")
    return rezip(path, {opf: fix})


def html():
    v = {k: esc(x).replace('"', "&quot;") for k, x in CUR.items()}
    pre = ""
    if LAYOUT == "decoys":
        # other <meta> vocabularies naming the same things (RDFa property=, microdata itemprop=, Dublin Core / Open Graph names)
        pre = "".join(f'<meta property="{n}" content="property {n}"><meta itemprop="{n}" content="itemprop {n}">'
                      f'<meta name="dc.{n}" content="dc {n}"><meta name="og:{n}" content="og {n}"><meta name="x-{n}" content="x {n}">'
                      for n in ("author", "keywords", "description", "title"))
    return (f'<html><head>{pre}<title>{v["title"]}</title><meta name="author" content="{v["creator"]}">'
            f'<meta name="keywords" content="{v["keywords"]}"><meta name="description" content="{v["description"]}"></head><body><p>x</p></body></html>').encode("utf-8")


def rtf():
    a = {"title": "Title One", "creator": "Author Two", "subject": "Subject Three", "keywords": "k1 k2", "description": "Comment Five"}
    s = ("{\\rtf1\\ansi{\\info{\\title %s}{\\author %s}{\\subject %s}{\\keywords %s}{\\comment %s}}\\pard body\\par}"
         % (a["title"], a["creator"], a["subject"], a["keywords"], a["description"]))
    return s.encode("ascii"), a


CASES = {
    "docx": ("x.docx", lambda: ooxml("modern_ms/headings.docx"), {"title": "title", "creator": "author", "subject": "subject", "keywords": "keywords", "description": "comments"}, "exact"),
    "pptx": ("x.pptx", lambda: ooxml(first_fixture("modern_ms", ".pptx")), {"title": "title", "creator": "author", "subject": "subject", "keywords": "keywords", "description": "comments"}, "exact"),
    "xlsx": ("x.xlsx", lambda: ooxml(first_fixture("modern_ms", ".xlsx")), {"title": "title", "creator": "creator", "keywords": "keywords", "description": "description"}, "exact"),
    "odf": ("x.odt", lambda: odf("open_office/headings.odt"), {"title": "title", "creator": "creator", "subject": "subject", "keywords": "keywords", "description": "description"}, "exact"),
    "epub": ("x.epub", lambda: epub(first_fixture("epub", ".epub")), {"title": "title", "creator": "creator", "subject": "subject", "description": "description"}, "strip"),
    "html": ("x.html", html, {"title": "title", "creator": "author", "keywords": "keywords", "description": "description"}, "strip-title"),
}


def first_fixture(d, ext):
    import glob
    fs = sorted(f for f in glob.glob(os.path.join(RES, d, "*" + ext)) if "password" not in f and "encrypt" not in f.lower())
    return os.path.relpath(fs[0], RES)


CUR = VALUES


DECOY_READERS = ("docx", "pptx", "odf", "epub", "html")      # xlsx: the reader's library refuses a core.xml with unknown children


def run_case(reader, extra_sets=()):
    """All value sets; returns (mismatches, document name)."""
    global CUR, LAYOUT
    out, name = [], reader
    if reader in DECOY_READERS:
        LAYOUT = "decoys"
        try:
            bad, name = _run_case(reader)
            out.extend((p, f, want, got, "[layout: same-named vendor / nested / unprefixed elements before the genuine ones]") for p, f, want, got in bad)
        except Exception:  # noqa -- a part the reader's parser refuses is no document to judge
            pass
        finally:
            LAYOUT = "plain"
    for vs in list(extra_sets) + VALUE_SETS:
        CUR = vs
        try:
            bad, name = _run_case(reader)
        finally:
            CUR = VALUES
        out.extend(bad)
        if reader == "rtf" and vs is VALUES:
            break
    return out, name


def _run_case(reader):
    import sharepoint2text
    if reader == "rtf":
        data, vals = rtf()
        name, fields, mode = "x.rtf", {"title": "title", "creator": "author", "subject": "subject", "keywords": "keywords", "description": "comments"}, "exact"
    else:
        name, build, fields, mode = CASES[reader]
        data, vals = build(), CUR
    res = list(sharepoint2text.get_extractor(name)(io.BytesIO(data), name))
    md = res[0].get_metadata()
    bad = []
    for prop, field in fields.items():
        want = vals[prop]
        if mode == "strip" or (mode == "strip-title" and prop == "title"):
            want = want.strip()
        got = getattr(md, field, "<missing>")
        if got != want:
            bad.append((prop, field, want, got))
    return bad, name


def find(ob, strings=None):
    reader = ob.split("#")[1].split("-")[0] if "#" in ob else None
    prop = ob.split("#")[1].split("-", 1)[1] if "#" in ob else None
    readers = [reader] if reader in list(CASES) + ["rtf"] else list(CASES) + ["rtf"]
    for r in readers:
        try:
            bad, name = run_case(r, directed_values(strings))
        except Exception as e:  # noqa
            continue
        bad = [b for b in bad if prop in (None, b[0])] or ([] if prop else bad)
        if bad:
            p, f, want, got, *layout = bad[0]
            return {"reproduced": True, "target": f"metadata reader ({r})",
                    "inputs": dict({"document": name, "property": p, "stored_value": want}, **({"layout": layout[0]} if layout else {})),
                    "expected": f"get_metadata().{f} == {want!r}", "observed": f"{f} = {got!r}"}
    return {"reproduced": False, "note": "metadata readers report the stored properties unchanged on the crafted documents"}
