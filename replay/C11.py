"""Native replay for C11: runs the real validate_zipfile on concrete entry
vectors and compares with an executable copy of the spec predicate (written
from the property statement)."""
import io
import itertools
from fractions import Fraction
from types import SimpleNamespace


def spec_reject_py(entries, L):
    """entries: [(file_size, compress_size, is_dir)], L: dict of limits."""
    if len(entries) > L["max_entries"]:
        return True
    tu = tc = 0
    for fs, cs, d in entries:
        if d:
            continue
        if fs > L["single"]:
            return True
        if fs > 0 and (cs <= 0 or Fraction(fs, cs) > Fraction(L["entry_ratio"])):
            return True
        tu += fs
        tc += cs
    if tu > L["total"]:
        return True
    if tu > 0 and (tc <= 0 or Fraction(tu, tc) > Fraction(L["total_ratio"])):
        return True
    return False


class FakeInfo:
    def __init__(self, fs, cs, d, name):
        self.file_size, self.compress_size, self._d = fs, cs, d
        self.filename = name + ("/" if d else "")

    def is_dir(self):
        return self._d


class FakeZip:
    def __init__(self, entries, same_name=False):
        # the predicate is about central-directory records: records that share a name are still records
        self._e = [FakeInfo(fs, cs, d, "dup" if same_name else f"m{i}") for i, (fs, cs, d) in enumerate(entries)]

    def infolist(self):
        return list(self._e)


def run_real(entries, L, same_name=False):
    from sharepoint2text.parsing.extractors.util import zip_bomb
    from sharepoint2text.parsing.exceptions import ExtractionZipBombError
    lim = zip_bomb.ZipBombLimits(max_entries=L["max_entries"], max_total_uncompressed_bytes=L["total"],
                                 max_single_uncompressed_bytes=L["single"],
                                 max_total_compression_ratio=float(L["total_ratio"]),
                                 max_entry_compression_ratio=float(L["entry_ratio"]))
    try:
        zip_bomb.validate_zipfile(FakeZip(entries, same_name), limits=lim, source="replay")
        return "accepted"
    except ExtractionZipBombError:
        return "rejected"
    except Exception as e:  # noqa
        return f"other:{type(e).__name__}"


def check(entries, L):
    want = "rejected" if spec_reject_py(entries, L) else "accepted"
    got = run_real(entries, L)
    if got == want and len(entries) >= 2:
        got2 = run_real(entries, L, same_name=True)
        if got2 != want:
            return want, got2 + " (records sharing one file name)"
    return want, got


def lattice():
    lims = [
        {"max_entries": 2, "total": 10, "single": 6, "total_ratio": 4, "entry_ratio": 5},
        {"max_entries": 3, "total": 100, "single": 60, "total_ratio": 2, "entry_ratio": 3},
        {"max_entries": 1, "total": 8, "single": 8, "total_ratio": 8, "entry_ratio": 8},
    ]
    for L in lims:
        sizes = sorted({0, 1, L["single"] - 1, L["single"], L["single"] + 1, L["total"] - 1, L["total"], L["total"] + 1,
                        L["total"] // 2, L["total"] // 2 + 1})
        cands = []
        for fs in sizes:
            if fs < 0:
                continue
            css = {0, 1, 2, fs}
            for r in (L["entry_ratio"], L["total_ratio"]):
                if fs and fs % r == 0:
                    css |= {fs // r, fs // r + 1, max(fs // r - 1, 0)}
            for cs in sorted(css):
                cands.append((fs, cs, False))
        cands.append((7, 1, True))
        cands.append((0, 0, True))
        for n in range(0, L["max_entries"] + 2):
            pool = cands if n <= 2 else cands[::3]
            for ent in itertools.product(pool, repeat=n):
                yield list(ent), L


def _zip_bytes(members):
    import zipfile
    buf = io.BytesIO()
    with zipfile.ZipFile(buf, "w", zipfile.ZIP_DEFLATED) as zf:
        for name, data in members:
            zf.writestr(name, data)
    return buf.getvalue()


def native_extractors():
    """A ratio bomb handed to every ZIP-container extractor must come back as ExtractionZipBombError."""
    import importlib
    from sharepoint2text.parsing.exceptions import ExtractionZipBombError
    bomb = _zip_bytes([("mimetype", b"application/zip"), ("content.xml", b"\0" * 3_000_000), ("word/document.xml", b"\0" * 3_000_000)])
    for modname, fn, name in (("ms_modern.docx_extractor", "read_docx", "a.docx"), ("ms_modern.pptx_extractor", "read_pptx", "a.pptx"),
                              ("ms_modern.xlsx_extractor", "read_xlsx", "a.xlsx"), ("open_office.odt_extractor", "read_odt", "a.odt"),
                              ("open_office.ods_extractor", "read_ods", "a.ods"), ("open_office.odp_extractor", "read_odp", "a.odp"),
                              ("open_office.odg_extractor", "read_odg", "a.odg"), ("open_office.odf_extractor", "read_odf", "a.odf"),
                              ("epub_extractor", "read_epub", "a.epub")):
        try:
            f = getattr(importlib.import_module("sharepoint2text.parsing.extractors." + modname), fn)
        except Exception:  # noqa
            continue
        try:
            list(f(io.BytesIO(bomb), name))
            res = "returned"
        except ExtractionZipBombError:
            continue
        except Exception as e:  # noqa
            res = type(e).__name__
        return {"target": f"{modname}.py::{fn}", "inputs": {"case": "ZIP with two 3,000,000-byte all-zero members (entry compression ratio > 500)"},
                "expected": "ExtractionZipBombError", "observed": res}
    return None


def native_wrappers():
    """Position restore / close-on-failure / directory flag, on real zipfile objects."""
    import zipfile
    from sharepoint2text.parsing.extractors.util import zip_bomb
    r0 = native_extractors()
    if r0 is not None:
        return r0
    good = _zip_bytes([("a.txt", b"hello"), ("d/", b"")])
    bomb = _zip_bytes([("a.txt", b"\0" * 200000)])
    low = zip_bomb.ZipBombLimits(max_entry_compression_ratio=2.0)
    for label, data, lim in (("accepted", good, zip_bomb.DEFAULT_ZIP_BOMB_LIMITS), ("rejected", bomb, low),
                             ("not-a-zip", b"garbage" * 10, zip_bomb.DEFAULT_ZIP_BOMB_LIMITS)):
        bio = io.BytesIO(data)
        bio.seek(3)
        try:
            zip_bomb.validate_zip_bytesio(bio, limits=lim, source="replay")
            res = "returned"
        except Exception as e:  # noqa
            res = type(e).__name__
        if bio.tell() != 3:
            return {"target": "zip_bomb.py::validate_zip_bytesio", "inputs": {"case": label, "start_position": 3},
                    "expected": "stream position 3 after the call", "observed": f"position {bio.tell()} after {res}"}
    # directory flag: must agree with ZipInfo.is_dir() of the real library
    for name, attr in (("d/", 0), ("f.xml", 0x10), ("f.xml", 0), ("d/", 0x10), ("word/document.xml", 0x10 | (0o100644 << 16))):
        zi = zipfile.ZipInfo(name)
        zi.external_attr = attr
        got = zip_bomb._is_directory(zi)
        if got != zi.is_dir():
            return {"target": "zip_bomb.py::_is_directory", "inputs": {"filename": name, "external_attr": attr},
                    "expected": f"is_dir() == {zi.is_dir()}", "observed": f"_is_directory == {got}"}
    # close on failure
    closed = []
    orig = zipfile.ZipFile.close
    def spy(self):
        closed.append(id(self))
        return orig(self)
    zipfile.ZipFile.close = spy
    try:
        try:
            zip_bomb.open_zipfile(io.BytesIO(bomb), limits=low, source="replay")
            res = "returned"
        except Exception as e:  # noqa
            res = type(e).__name__
    finally:
        zipfile.ZipFile.close = orig
    if res != "ExtractionZipBombError" or not closed:
        return {"target": "zip_bomb.py::open_zipfile", "inputs": {"case": "ratio bomb, entry ratio limit 2"},
                "expected": "ExtractionZipBombError and container closed", "observed": f"{res}, close calls={len(closed)}"}
    return None


def find(req):
    tried = 0
    r = native_wrappers()
    if r is not None:
        r.update(reproduced=True, found_by="native wrapper cases")
        return r
    w = req.get("witness") or {}
    if w.get("entries") is not None and w.get("limits"):
        want, got = check([tuple(e) for e in w["entries"]], w["limits"])
        tried += 1
        if want != got:
            return _res(w["entries"], w["limits"], want, got, tried, "solver model")
    for ent, L in lattice():
        tried += 1
        want, got = check(ent, L)
        if want != got:
            return _res(ent, L, want, got, tried, "boundary lattice")
        if tried > 400000:
            break
    return {"reproduced": False, "note": f"{tried} boundary-lattice vectors agree with the spec predicate"}


def _res(ent, L, want, got, tried, how):
    return {"reproduced": True, "target": "sharepoint2text/parsing/extractors/util/zip_bomb.py::validate_zipfile",
            "inputs": {"entries": [list(e) for e in ent], "limits": L}, "expected": want, "observed": got,
            "found_by": how, "tried": tried}


def rerun(stored):
    if "entries" not in stored.get("inputs", {}):
        r = native_wrappers()
        return dict(r or {}, reproduced=r is not None)
    ent = [tuple(e) for e in stored["inputs"]["entries"]]
    L = stored["inputs"]["limits"]
    want, got = check(ent, L)
    return {"reproduced": want != got, "expected": want, "observed": got, "inputs": stored["inputs"]}
