"""Native replay for C11: runs the real validate_zipfile on concrete entry
vectors and compares with an executable copy of the spec predicate (written
from the property statement).

Families (routed by `_family`): predicate (boundary lattice on in-memory records, duplicate names), order (event monitor over
every ZIP-container entry point: well-formed document, document + bomb member, and -- round 5 -- the bomb document in the
damaged shapes of `_damaged`: trailing data beyond / within zipfile's search window, stub in front, archive comment, truncated
end record, local headers only), propagate (exception type at the extractors), sequence (recycled buffers), limits (round 5:
default configuration values, validate_zipfile / open_zipfile / validate_zip_bytesio / ZipContext WITHOUT limits at -1/0/+1 of
every default threshold -- the wrappers on real ZIPs with forged central directories -- and non-default limits through both
wrappers)."""
import io
import itertools
from fractions import Fraction
from types import SimpleNamespace


def spec_reject_py(entries, L):
    """entries: [(file_size, compress_size, is_dir)], L: dict of limits."""
    if len(entries) > L["max_entries"]:
        return True
    tu = tc = 0
    for fs, cs, d in entries:
        if d:
            continue
        if fs > L["single"]:
            return True
        if fs > 0 and (cs <= 0 or Fraction(fs, cs) > Fraction(L["entry_ratio"])):
            return True
        tu += fs
        tc += cs
    if tu > L["total"]:
        return True
    if tu > 0 and (tc <= 0 or Fraction(tu, tc) > Fraction(L["total_ratio"])):
        return True
    return False


class FakeInfo:
    def __init__(self, fs, cs, d, name):
        self.file_size, self.compress_size, self._d = fs, cs, d
        self.filename = name + ("/" if d else "")

    def is_dir(self):
        return self._d


class FakeZip:
    def __init__(self, entries, same_name=False):
        # the predicate is about central-directory records: records that share a name are still records
        self._e = [FakeInfo(fs, cs, d, "dup" if same_name else f"m{i}") for i, (fs, cs, d) in enumerate(entries)]

    def infolist(self):
        return list(self._e)


def run_real(entries, L, same_name=False):
    from sharepoint2text.parsing.extractors.util import zip_bomb
    from sharepoint2text.parsing.exceptions import ExtractionZipBombError
    lim = zip_bomb.ZipBombLimits(max_entries=L["max_entries"], max_total_uncompressed_bytes=L["total"],
                                 max_single_uncompressed_bytes=L["single"],
                                 max_total_compression_ratio=float(L["total_ratio"]),
                                 max_entry_compression_ratio=float(L["entry_ratio"]))
    try:
        zip_bomb.validate_zipfile(FakeZip(entries, same_name), limits=lim, source="replay")
        return "accepted"
    except ExtractionZipBombError:
        return "rejected"
    except Exception as e:  # noqa
        return f"other:{type(e).__name__}"


def check(entries, L):
    want = "rejected" if spec_reject_py(entries, L) else "accepted"
    got = run_real(entries, L)
    if got == want and len(entries) >= 2:
        got2 = run_real(entries, L, same_name=True)
        if got2 != want:
            return want, got2 + " (records sharing one file name)"
    return want, got


def lattice():
    lims = [
        {"max_entries": 2, "total": 10, "single": 6, "total_ratio": 4, "entry_ratio": 5},
        {"max_entries": 3, "total": 100, "single": 60, "total_ratio": 2, "entry_ratio": 3},
        {"max_entries": 1, "total": 8, "single": 8, "total_ratio": 8, "entry_ratio": 8},
    ]
    for L in lims:
        sizes = sorted({0, 1, L["single"] - 1, L["single"], L["single"] + 1, L["total"] - 1, L["total"], L["total"] + 1,
                        L["total"] // 2, L["total"] // 2 + 1})
        cands = []
        for fs in sizes:
            if fs < 0:
                continue
            css = {0, 1, 2, fs}
            for r in (L["entry_ratio"], L["total_ratio"]):
                if fs and fs % r == 0:
                    css |= {fs // r, fs // r + 1, max(fs // r - 1, 0)}
            for cs in sorted(css):
                cands.append((fs, cs, False))
        cands.append((7, 1, True))
        cands.append((0, 0, True))
        for n in range(0, L["max_entries"] + 2):
            pool = cands if n <= 2 else cands[::3]
            for ent in itertools.product(pool, repeat=n):
                yield list(ent), L


def _zip_bytes(members):
    import zipfile
    buf = io.BytesIO()
    with zipfile.ZipFile(buf, "w", zipfile.ZIP_DEFLATED) as zf:
        for name, data in members:
            zf.writestr(name, data)
    return buf.getvalue()


def native_extractors():
    """A ratio bomb handed to every ZIP-container extractor must come back as ExtractionZipBombError."""
    import importlib
    from sharepoint2text.parsing.exceptions import ExtractionZipBombError
    bomb = _zip_bytes([("mimetype", b"application/zip"), ("content.xml", b"\0" * 3_000_000), ("word/document.xml", b"\0" * 3_000_000)])
    for modname, fn, name in (("ms_modern.docx_extractor", "read_docx", "a.docx"), ("ms_modern.pptx_extractor", "read_pptx", "a.pptx"),
                              ("ms_modern.xlsx_extractor", "read_xlsx", "a.xlsx"), ("open_office.odt_extractor", "read_odt", "a.odt"),
                              ("open_office.ods_extractor", "read_ods", "a.ods"), ("open_office.odp_extractor", "read_odp", "a.odp"),
                              ("open_office.odg_extractor", "read_odg", "a.odg"), ("open_office.odf_extractor", "read_odf", "a.odf"),
                              ("epub_extractor", "read_epub", "a.epub")):
        try:
            f = getattr(importlib.import_module("sharepoint2text.parsing.extractors." + modname), fn)
        except Exception:  # noqa
            continue
        try:
            list(f(io.BytesIO(bomb), name))
            res = "returned"
        except ExtractionZipBombError:
            continue
        except Exception as e:  # noqa
            res = type(e).__name__
        return {"target": f"{modname}.py::{fn}", "inputs": {"case": "ZIP with two 3,000,000-byte all-zero members (entry compression ratio > 500)"},
                "expected": "ExtractionZipBombError", "observed": res}
    return None


# ----------------------------------------------------------------- runtime event monitor (property: observe_at) --
EXTRACTORS = (("ms_modern.docx_extractor", "read_docx", ("modern_ms/headings.docx",)),
              ("ms_modern.pptx_extractor", "read_pptx", ("modern_ms/pptx_table.pptx",)),
              ("ms_modern.xlsx_extractor", "read_xlsx", ("modern_ms/image_in_excel.xlsx", "modern_ms/mwe.xlsx")),
              ("open_office.odt_extractor", "read_odt", ("open_office/sample_document.odt",)),
              ("open_office.ods_extractor", "read_ods", ("open_office/sample_spreadsheet.ods",)),
              ("open_office.odp_extractor", "read_odp", ("open_office/sample_presentation.odp",)),
              ("open_office.odg_extractor", "read_odg", ("open_office/drawing.odg",)),
              ("open_office.odf_extractor", "read_odf", ("open_office/formular.odf",)),
              ("epub_extractor", "read_epub", ("epub/sample.epub",)))


def _fixture(rel):
    import os
    import sharepoint2text
    p = os.path.join(os.path.dirname(sharepoint2text.__file__), "tests", "resources", rel)
    try:
        with open(p, "rb") as fh:
            return fh.read()
    except OSError:
        return None


def _with_bomb_member(data):
    """The same container plus one all-zero member of 3,000,000 bytes (entry compression ratio ~ 1000 > 500)."""
    import zipfile
    buf = io.BytesIO(data)
    with zipfile.ZipFile(buf, "a", zipfile.ZIP_DEFLATED) as zf:
        zf.writestr("zz_padding.bin", b"\0" * 3_000_000)
    return buf.getvalue()


class Monitor:
    """Records, per container (ZipFile object and content digest), the order of `validate_zipfile` acceptances and member
    accesses (`ZipFile.open`, which `read` / `extract` / `extractall` / `testzip` go through).  A member access on a container
    that has not been accepted before -- neither this ZipFile object nor another ZipFile over the same bytes -- is a violation
    of "checked before any member is decompressed"."""

    def __init__(self):
        self.events, self.violations = [], []
        self.ok_objs, self.ok_keys = set(), set()
        self._undo = []

    @staticmethod
    def _key(file):
        import hashlib
        import os
        try:
            if hasattr(file, "getvalue"):
                data = file.getvalue()
            elif isinstance(file, (str, bytes, os.PathLike)):
                with open(file, "rb") as fh:
                    data = fh.read()
            else:
                pos = file.tell()
                file.seek(0)
                data = file.read()
                file.seek(pos)
            return hashlib.sha1(data).hexdigest()[:12]
        except Exception:  # noqa
            return None

    def __enter__(self):
        import sys
        import zipfile
        from sharepoint2text.parsing.extractors.util import zip_bomb
        mon = self
        o_init, o_open = zipfile.ZipFile.__init__, zipfile.ZipFile.open

        def init(zself, file, mode="r", *a, **k):
            key = mon._key(file) if mode == "r" else None
            zself._c11_key = key
            zself._c11_mode = mode
            o_init(zself, file, mode, *a, **k)
            if mode == "r":
                mon.events.append(("construct", key, id(zself)))

        def zopen(zself, name, mode="r", *a, **k):
            if getattr(zself, "_c11_mode", "r") == "r" and mode == "r":
                key = getattr(zself, "_c11_key", None)
                nm = getattr(name, "filename", name)
                ok = id(zself) in mon.ok_objs or (key is not None and key in mon.ok_keys)
                mon.events.append(("member-access", key, nm, "validated" if ok else "NOT-VALIDATED"))
                if not ok:
                    mon.violations.append((key, nm))
            return o_open(zself, name, mode, *a, **k)

        zipfile.ZipFile.__init__, zipfile.ZipFile.open = init, zopen
        self._undo.append(lambda: (setattr(zipfile.ZipFile, "__init__", o_init), setattr(zipfile.ZipFile, "open", o_open)))
        o_val = getattr(zip_bomb, "validate_zipfile", None)
        if o_val is not None:
            def validate(zf, *a, **k):
                r = o_val(zf, *a, **k)
                mon.ok_objs.add(id(zf))
                mon._keep = getattr(mon, "_keep", []) + [zf]          # keep the object alive: ids must not be recycled
                key = getattr(zf, "_c11_key", None)
                if key is not None:
                    mon.ok_keys.add(key)
                mon.events.append(("validated", key, id(zf)))
                return r
            validate.__wrapped__ = o_val
            holders = [m for m in list(sys.modules.values()) if getattr(m, "__name__", "").startswith("sharepoint2text")
                       and getattr(m, "validate_zipfile", None) is o_val]
            for m in holders:
                m.validate_zipfile = validate
            self._undo.append(lambda: [setattr(m, "validate_zipfile", o_val) for m in holders])
        return self

    def __exit__(self, *exc):
        for u in reversed(self._undo):
            u()
        return False

    def trace(self, n=8):
        return [list(e) for e in self.events[:n]]


def _run(fn, *args):
    from sharepoint2text.parsing.exceptions import ExtractionZipBombError
    try:
        r = fn(*args)
        if hasattr(r, "__next__"):
            list(r)
        return "returned"
    except ExtractionZipBombError:
        return "ExtractionZipBombError"
    except Exception as e:  # noqa
        return type(e).__name__


ORDER_EXPECT = "validate_zipfile accepts the container (this ZipFile or one over the same bytes) before the first ZipFile.open/read"


def _subjects():
    """(target, label, callable, data) over every ZIP-container entry point of the package that exists in this tree."""
    import importlib
    out = []
    for modname, fn, fixtures in EXTRACTORS:
        try:
            f = getattr(importlib.import_module("sharepoint2text.parsing.extractors." + modname), fn)
        except Exception:  # noqa
            continue
        for rel in fixtures:
            data = _fixture(rel)
            if data is not None:
                out.append((f"{modname}.py::{fn}", rel, (lambda b, f=f, rel=rel: f(io.BytesIO(b), rel.split("/")[-1])), data))
    try:
        import sharepoint2text as top                      # the public wrappers of the package root
        for modname, fn, fixtures in EXTRACTORS:
            w = getattr(top, fn, None)
            data = _fixture(fixtures[0])
            if callable(w) and data is not None:
                out.append((f"__init__.py::{fn}", fixtures[0], (lambda b, w=w, rel=fixtures[0]: w(io.BytesIO(b), rel.split("/")[-1])), data))
    except Exception:  # noqa
        pass
    try:
        from sharepoint2text.parsing.extractors.util import encryption
        for rel in ("open_office/sample_document.odt", "open_office/sample_spreadsheet.ods"):
            data = _fixture(rel)
            if data is not None and hasattr(encryption, "is_odf_encrypted"):
                out.append(("encryption.py::is_odf_encrypted", rel, (lambda b: encryption.is_odf_encrypted(io.BytesIO(b))), data))
    except Exception:  # noqa
        pass
    try:
        from sharepoint2text.parsing.extractors.util.zip_context import ZipContext

        def use_context(b):
            ctx = ZipContext(io.BytesIO(b))
            try:
                for nm in sorted(ctx.namelist)[:2]:
                    if not nm.endswith("/"):
                        ctx.read_bytes(nm)
            finally:
                ctx.close()
        data = _fixture("open_office/sample_document.odt")
        if data is not None:
            out.append(("zip_context.py::ZipContext", "open_office/sample_document.odt", use_context, data))
    except Exception:  # noqa
        pass
    return out


def _hinted_subjects(targets):
    """Functions named by the static analysis (e.g. the function that constructs a container outside the guard module): called
    with a stream of a well-formed container in the usual extractor signatures."""
    import importlib
    out = []
    datas = [(rel, _fixture(rel)) for rel in ("open_office/sample_document.odt", "modern_ms/headings.docx", "epub/sample.epub")]
    datas = [(r, d) for r, d in datas if d is not None] + [("synthetic two-member zip", _zip_bytes([("a.txt", b"hello"), ("b/c.xml", b"<x/>")]))]
    for t in targets or []:
        try:
            rel, qual = t
            obj = importlib.import_module(rel[:-3].replace("/", "."))
            for part in qual.split("."):
                obj = getattr(obj, part)
        except Exception:  # noqa
            continue
        if not callable(obj) or isinstance(obj, type) or "." in qual:
            continue
        for r, d in datas:
            def call(b, obj=obj, r=r):
                last = None
                for args in ((io.BytesIO(b),), (io.BytesIO(b), r.split("/")[-1])):
                    try:
                        res = obj(*args)
                        if hasattr(res, "__next__"):
                            list(res)
                        return res
                    except TypeError as e:
                        last = e
                if last is not None:
                    raise last
            out.append((f"{rel.split('/')[-1]}::{qual}", r, call, d))
    return out


def _eocd(data):
    """(offset, end) of the last end-of-central-directory record of a well-formed container, or None."""
    pos = data.rfind(b"PK\x05\x06")
    if pos < 0 or pos + 22 > len(data):
        return None
    return pos, pos + 22 + int.from_bytes(data[pos + 20:pos + 22], "little")


def _damaged(data):
    """The error paths of the container grammar: the same bytes in the shapes that gateways / downloads / self-extractors
    produce and that stock `zipfile` refuses or reads differently -- data after the end record (more than the 64 KiB window
    zipfile searches, and a little), a stub in front, a ZIP comment, a truncated end record, a central directory that is gone
    (local headers only).  Whatever a reader does with them (refuse, recover, repair), no member may be decompressed from a
    container the guard has not accepted."""
    out = [("followed by 70,000 zero bytes after the end-of-central-directory record", data + b"\0" * 70000),
           ("followed by 300 bytes of trailing data", data + b"\r\n--gateway-signature--" * 12 + b"\0" * 12),
           ("preceded by a 4,096-byte stub (self-extractor style)", b"MZ" + b"\x90" * 4094 + data)]
    e = _eocd(data)
    if e is not None:
        pos, end = e
        if end == len(data):
            out.append(("with a 40-byte archive comment", data[:pos + 20] + (40).to_bytes(2, "little") + b"c" * 40))
        out.append(("with the end-of-central-directory record cut after 10 bytes", data[:pos + 10]))
        cd_off = int.from_bytes(data[pos + 16:pos + 20], "little")
        if 0 < cd_off < pos:
            out.append(("with the central directory cut off (local headers only)", data[:cd_off]))
    return out


def _stock_opens(data):
    """A shape that stock zipfile reads is a readable bomb: it has to come back as the zip-bomb error like the undamaged one."""
    import zipfile
    try:
        with zipfile.ZipFile(io.BytesIO(data), "r") as zf:
            return len(zf.infolist()) > 0
    except Exception:  # noqa
        return False


def native_order(only=None, extra_subjects=()):
    """Runs every ZIP-container entry point on a well-formed document and on the same document with a bomb member under the
    event monitor.  Failure = a member access on a container nobody validated, or a bomb that does not come back as
    ExtractionZipBombError.  Then the error paths: the bomb document in the damaged shapes of `_damaged` -- a shape stock zipfile
    still reads must be rejected like the undamaged bomb, for the others any outcome is fine except a member access on a
    container nobody validated."""
    hinted = {id(x[2]) for x in extra_subjects}
    for target, rel, call, data in list(extra_subjects) + _subjects():
        if only and not any(o in target for o in only):
            continue
        cases = [("well-formed document", data, True)]
        try:
            bomb = _with_bomb_member(data)
            cases.append(("same document plus a 3,000,000-byte all-zero member", bomb, True))
            cases += [(f"same document plus a 3,000,000-byte all-zero member, {how}", d, _stock_opens(d)) for how, d in _damaged(bomb)]
        except Exception:  # noqa
            pass
        for label, payload, strict in cases:
            with Monitor() as mon:
                res = _run(call, payload)
            if mon.violations:
                key, nm = mon.violations[0]
                return {"target": target, "inputs": {"fixture": "tests/resources/" + rel, "case": label},
                        "expected": ORDER_EXPECT,
                        "observed": f"member `{nm}` opened on a container that was never validated ({len(mon.violations)} such access(es); "
                                    f"call ended with {res}); first events: {mon.trace()}"}
            if strict and label != "well-formed document" and res != "ExtractionZipBombError" and id(call) not in hinted:
                return {"target": target, "inputs": {"fixture": "tests/resources/" + rel, "case": label},
                        "expected": "ExtractionZipBombError", "observed": res}
    return None


# ----------------------------------------------------------- call sequences (state kept between calls) --
def _refill(buf, data):
    buf.seek(0)
    buf.truncate(0)
    buf.write(data)
    buf.seek(0)


def _guard_subjects():
    """Entry points of the guard module itself, as callables over a stream (default limits)."""
    out = []
    try:
        from sharepoint2text.parsing.extractors.util import zip_bomb
    except Exception:  # noqa
        return out
    benign = _zip_bytes([("a.txt", b"hello world"), ("d/", b""), ("b/c.xml", b"<x>1</x>")])
    if hasattr(zip_bomb, "open_zipfile"):
        def use_open(buf):
            zf = zip_bomb.open_zipfile(buf, source="replay")
            try:
                for nm in zf.namelist()[:2]:
                    if not nm.endswith("/"):
                        zf.read(nm)
            finally:
                zf.close()
        out.append(("zip_bomb.py::open_zipfile", "synthetic three-member zip", use_open, benign))
    if hasattr(zip_bomb, "validate_zip_bytesio"):
        out.append(("zip_bomb.py::validate_zip_bytesio", "synthetic three-member zip",
                    (lambda buf: zip_bomb.validate_zip_bytesio(buf, source="replay")), benign))
    return out


def native_sequences(only=None):
    """Call SEQUENCES on every ZIP-container entry point: the decision for a container must not depend on what the same
    stream object (or an earlier object at the same address, or an earlier call with other limits) held before.
    recycle: accept a well-formed document from a buffer, rewrite the SAME buffer object with a bomb, call again -> must be
    rejected with the zip-bomb error before any member access; reverse: bomb first, then the well-formed document in the same
    buffer -> must be accepted; address reuse: a fresh buffer allocated after the first one died; limits: lenient limits
    first, then strict limits on the same buffer."""
    import gc
    stream_subjects = _guard_subjects() + _stream_subjects()
    for target, rel, call, data in stream_subjects:
        if only and not any(o in target for o in only):
            continue
        try:
            bomb = _with_bomb_member(data)
        except Exception:  # noqa
            continue
        plans = (("recycled buffer: well-formed document, then the same BytesIO rewritten with a bomb member", (data, bomb), "same"),
                 ("recycled buffer: bomb first, then the same BytesIO rewritten with the well-formed document", (bomb, data), "same"),
                 ("a fresh BytesIO allocated after the first one was freed: well-formed document, then a bomb", (data, bomb), "fresh"))
        for label, (first, second), mode in plans:
            with Monitor() as mon:
                buf = io.BytesIO()
                _refill(buf, first)
                r1 = _run(call, buf)
                if mode == "same":
                    _refill(buf, second)
                else:
                    del buf
                    gc.collect()
                    buf = io.BytesIO(second)
                n_before = len(mon.violations)
                r2 = _run(call, buf)
            want2 = "ExtractionZipBombError" if second is bomb else "returned"
            want1 = "ExtractionZipBombError" if first is bomb else "returned"
            if r1 != want1:
                break          # the single-call behaviour is not what this scope is about (native_order reports it)
            bad_access = mon.violations[n_before:]
            if r2 != want2 or bad_access:
                obs = f"second call ended with {r2}"
                if bad_access:
                    obs += f"; member `{bad_access[0][1]}` opened on a container that was never validated"
                return {"target": target, "inputs": {"fixture": rel, "sequence": label, "first_call": r1},
                        "expected": f"second call: {want2}, no member access before validation", "observed": obs}
    # limits are part of the decision: lenient first, strict second on the same buffer
    try:
        from sharepoint2text.parsing.extractors.util import zip_bomb
        data = _zip_bytes([("a.txt", b"\0" * 200000)])
        lenient = zip_bomb.ZipBombLimits(max_entry_compression_ratio=1e9, max_total_compression_ratio=1e9)
        strict = zip_bomb.ZipBombLimits(max_entry_compression_ratio=2.0)
        for name in ("open_zipfile", "validate_zip_bytesio"):
            fn = getattr(zip_bomb, name, None)
            if fn is None or (only and not any(o in "zip_bomb.py::" + name for o in only)):
                continue

            def go(buf, lim, fn=fn):
                r = fn(buf, limits=lim, source="replay")
                if r is not None and hasattr(r, "close"):
                    r.close()
            buf = io.BytesIO(data)
            r1 = _run(go, buf, lenient)
            r2 = _run(go, buf, strict)
            if r1 == "returned" and r2 != "ExtractionZipBombError":
                return {"target": f"zip_bomb.py::{name}", "inputs": {"sequence": "same BytesIO: lenient limits (ratio 1e9), then entry ratio limit 2",
                                                                       "container": "one 200000-byte all-zero member"},
                        "expected": "second call: ExtractionZipBombError", "observed": f"second call ended with {r2}"}
    except Exception:  # noqa
        pass
    return None


def _stream_subjects():
    """The entry points of _subjects() as callables over a caller-owned stream (the object identity matters here)."""
    import importlib
    out = []
    for modname, fn, fixtures in EXTRACTORS:
        try:
            f = getattr(importlib.import_module("sharepoint2text.parsing.extractors." + modname), fn)
        except Exception:  # noqa
            continue
        data = _fixture(fixtures[0])
        if data is not None:
            out.append((f"{modname}.py::{fn}", "tests/resources/" + fixtures[0],
                        (lambda buf, f=f, rel=fixtures[0]: f(buf, rel.split("/")[-1])), data))
    odt = _fixture("open_office/sample_document.odt")
    if odt is not None:
        try:
            from sharepoint2text.parsing.extractors.util import encryption
            if hasattr(encryption, "is_odf_encrypted"):
                out.append(("encryption.py::is_odf_encrypted", "tests/resources/open_office/sample_document.odt",
                            (lambda buf: encryption.is_odf_encrypted(buf)), odt))
        except Exception:  # noqa
            pass
        try:
            from sharepoint2text.parsing.extractors.util.zip_context import ZipContext

            def use_context(buf):
                ctx = ZipContext(buf)
                try:
                    for nm in sorted(ctx.namelist)[:2]:
                        if not nm.endswith("/"):
                            ctx.read_bytes(nm)
                finally:
                    ctx.close()
            out.append(("zip_context.py::ZipContext", "tests/resources/open_office/sample_document.odt", use_context, odt))
        except Exception:  # noqa
            pass
    return out


def predicate_sequences():
    """validate_zipfile itself: the same container object judged twice with different directories in between."""
    L = {"max_entries": 3, "total": 100, "single": 60, "total_ratio": 2, "entry_ratio": 3}
    from sharepoint2text.parsing.extractors.util import zip_bomb
    from sharepoint2text.parsing.exceptions import ExtractionZipBombError
    lim = zip_bomb.ZipBombLimits(max_entries=3, max_total_uncompressed_bytes=100, max_single_uncompressed_bytes=60,
                                 max_total_compression_ratio=2.0, max_entry_compression_ratio=3.0)
    good, bad = [(4, 4, False)], [(50, 1, False)]
    for first, second in ((good, bad), (bad, good)):
        z = FakeZip(first)
        outs = []
        for ent in (first, second):
            z._e = FakeZip(ent)._e
            try:
                zip_bomb.validate_zipfile(z, limits=lim, source="replay")
                outs.append("accepted")
            except ExtractionZipBombError:
                outs.append("rejected")
            except Exception as e:  # noqa
                outs.append(f"other:{type(e).__name__}")
        want = ["rejected" if spec_reject_py(e, L) else "accepted" for e in (first, second)]
        if outs != want:
            return {"target": "zip_bomb.py::validate_zipfile", "inputs": {"sequence": "same container object, directory replaced between the calls",
                                                                         "entries": [first, second], "limits": L},
                    "expected": want, "observed": outs}
    return None


# ------------------------------------------------- the configured limits: defaults and non-default settings --
GIB = 1024 ** 3
SPEC_DEFAULTS = {"max_entries": 50000, "total": 4 * GIB, "single": 1 * GIB, "total_ratio": 200, "entry_ratio": 500}
FIELD_OF = {"max_entries": "max_entries", "total": "max_total_uncompressed_bytes", "single": "max_single_uncompressed_bytes",
            "total_ratio": "max_total_compression_ratio", "entry_ratio": "max_entry_compression_ratio"}


def _default_vectors(counts=True):
    """Entry vectors at -1/0/+1 of every threshold of the documented default configuration."""
    vectors = []
    for d in (-1, 0, 1):
        vectors.append((f"total uncompressed = 4 GiB{d:+d}", [(GIB, GIB // 100, False)] * 3 + [(GIB + d, GIB // 100, False)]))
        vectors.append((f"single entry = 1 GiB{d:+d}", [(GIB + d, GIB // 100, False)]))
        vectors.append((f"entry ratio = 500 (uncompressed 500*1000{d:+d}, compressed 1000)", [(500 * 1000 + d, 1000, False), (10, 1000000, False)]))
        vectors.append((f"total ratio = 200 (two entries 200*1000{d:+d} / 1000)", [(200 * 1000 + d, 1000, False), (200 * 1000, 1000, False)]))
        if counts:
            vectors.append((f"entry count = 50000{d:+d}", [(1, 1, False)] * (50000 + d)))
            vectors.append((f"entry count = 50000{d:+d} with directory records", [(1, 1, False)] * (49990 + d) + [(0, 0, True)] * 10))
    return vectors


def _forged_zip(entries):
    """A real ZIP whose central directory claims the given (file_size, compress_size) per record (members are empty, stored;
    directory records end with '/'): what a reader that trusts the central directory sees.  Sizes must fit 32 bits."""
    import struct
    import zipfile
    buf = io.BytesIO()
    with zipfile.ZipFile(buf, "w", zipfile.ZIP_STORED) as zf:
        for i, (_fs, _cs, d) in enumerate(entries):
            zf.writestr(f"m{i}/" if d else f"m{i}.bin", b"")
    raw = bytearray(buf.getvalue())
    pos = raw.find(b"PK\x01\x02")
    for (fs_, cs_, _d) in entries:
        if pos < 0 or raw[pos:pos + 4] != b"PK\x01\x02":
            raise ValueError("central directory not where expected")
        struct.pack_into("<II", raw, pos + 20, cs_, fs_)
        nlen, xlen, clen = struct.unpack_from("<HHH", raw, pos + 28)
        pos += 46 + nlen + xlen + clen
    return bytes(raw)


def native_default_wrappers():
    """open_zipfile / validate_zip_bytesio / ZipContext called WITHOUT limits (what every in-library caller does) on real ZIPs with forged
    central directories at -1/0/+1 of every default threshold; expected outcome from the executable spec on the records stock
    zipfile lists, under the documented default configuration."""
    import zipfile
    try:
        from sharepoint2text.parsing.extractors.util import zip_bomb
        from sharepoint2text.parsing.exceptions import ExtractionZipBombError
    except Exception:  # noqa
        return None
    vectors = _default_vectors(counts=False) + [(f"entry count = 50000{d:+d} with directory records", [(1, 1, False)] * (49990 + d) + [(0, 0, True)] * 10)
                                                for d in (0, 1)]
    for label, ent in vectors:
        try:
            payload = _forged_zip(ent)
            with zipfile.ZipFile(io.BytesIO(payload)) as z:
                seen = [(i.file_size, i.compress_size, i.is_dir()) for i in z.infolist()]
        except Exception:  # noqa
            continue
        want = "rejected" if spec_reject_py(seen, SPEC_DEFAULTS) else "accepted"
        subjects = [(f"zip_bomb.py::{name}", getattr(zip_bomb, name, None)) for name in ("open_zipfile", "validate_zip_bytesio")]
        try:                   # the in-library caller every container extractor goes through: it configures nothing
            from sharepoint2text.parsing.extractors.util.zip_context import ZipContext
            subjects.append(("zip_context.py::ZipContext", ZipContext))
        except Exception:  # noqa
            pass
        for name, fn in subjects:
            if fn is None:
                continue
            try:
                r = fn(io.BytesIO(payload))
                if r is not None and hasattr(r, "close"):
                    r.close()
                got = "accepted"
            except ExtractionZipBombError:
                got = "rejected"
            except Exception as e:  # noqa
                got = f"other:{type(e).__name__}"
            if got != want:
                shown = seen if len(seen) <= 6 else f"{len(seen)} records, first {seen[0]}, last {seen[-1]}"
                return {"target": f"{name} (limits not passed: the default configuration)",
                        "inputs": {"case": label + " (real ZIP, forged central directory)", "entries (file_size, compress_size, is_dir)": shown,
                                   "limits": "default"}, "expected": want, "observed": got}
    return None


def native_defaults():
    """The default configuration (property: 50000 entries, 4 GiB total, 1 GiB single, total ratio 200, entry ratio 500):
    field values of ZipBombLimits() / DEFAULT_ZIP_BOMB_LIMITS, the default of every `limits` parameter, and the decision of
    validate_zipfile called WITHOUT limits on entry vectors at -1/0/+1 of every default threshold."""
    import inspect
    from sharepoint2text.parsing.extractors.util import zip_bomb
    from sharepoint2text.parsing.exceptions import ExtractionZipBombError
    L = SPEC_DEFAULTS
    vectors = _default_vectors()
    for label, ent in vectors:
        want = "rejected" if spec_reject_py(ent, L) else "accepted"
        try:
            zip_bomb.validate_zipfile(FakeZip(ent))
            got = "accepted"
        except ExtractionZipBombError:
            got = "rejected"
        except Exception as e:  # noqa
            got = f"other:{type(e).__name__}"
        if got != want:
            shown = ent if len(ent) <= 6 else f"{len(ent)} records, first {ent[0]}, last {ent[-1]}"
            return {"target": "zip_bomb.py::validate_zipfile (limits not passed: the default configuration)",
                    "inputs": {"case": label, "entries": shown, "limits": "default"}, "expected": want, "observed": got}
    for name, obj in (("ZipBombLimits()", getattr(zip_bomb, "ZipBombLimits", lambda: None)()), ("DEFAULT_ZIP_BOMB_LIMITS", getattr(zip_bomb, "DEFAULT_ZIP_BOMB_LIMITS", None))):
        for k, fld in FIELD_OF.items():
            v = getattr(obj, fld, None)
            if v != L[k]:
                return {"target": f"zip_bomb.py::{name}", "inputs": {"field": fld}, "expected": L[k], "observed": v}
    for fn in ("validate_zipfile", "open_zipfile", "validate_zip_bytesio"):
        f = getattr(zip_bomb, fn, None)
        if f is None:
            continue
        p_ = inspect.signature(f).parameters.get("limits")
        dv = p_.default if p_ is not None else None
        for k, fld in FIELD_OF.items():
            if getattr(dv, fld, None) != L[k]:
                break
        else:
            continue
        if dv is None:
            continue          # resolved inside the function: the vectors above / the wrapper lattice decide
        return {"target": f"zip_bomb.py::{fn}", "inputs": {"parameter": "limits"}, "expected": "default = the default configuration",
                "observed": repr(dv)[:200]}
    return None


def native_limits_lattice():
    """open_zipfile / validate_zip_bytesio with NON-default limits on real ZIPs that lie between the configured and the
    default thresholds: each limit set to the container's own value (accept) and just below it (reject); expected outcome from
    the executable spec on the container's real central directory."""
    import zipfile
    from sharepoint2text.parsing.extractors.util import zip_bomb
    from sharepoint2text.parsing.exceptions import ExtractionZipBombError
    data = _zip_bytes([("a.txt", b"abcdefghij" * 40), ("b/", b""), ("b/c.xml", b"<x>" + b"y" * 3000 + b"</x>"), ("d.bin", bytes(range(256)) * 4)])
    with zipfile.ZipFile(io.BytesIO(data)) as z:
        ent = [(i.file_size, i.compress_size, i.is_dir()) for i in z.infolist()]
    files = [e for e in ent if not e[2]]
    tu, tc = sum(e[0] for e in files), sum(e[1] for e in files)
    big = max(e[0] for e in files)
    from fractions import Fraction
    er = max(Fraction(e[0], e[1]) for e in files)
    tr = Fraction(tu, tc)
    base = {"max_entries": 1000, "total": 10 ** 9, "single": 10 ** 9, "total_ratio": 10 ** 6, "entry_ratio": 10 ** 6}
    settings = []
    for k, exact, below in (("max_entries", len(ent), len(ent) - 1), ("total", tu, tu - 1), ("single", big, big - 1),
                            ("entry_ratio", float(er) + 0.5, float(er) - 0.5), ("total_ratio", float(tr) + 0.5, float(tr) - 0.5)):
        settings.append(dict(base, **{k: exact}))
        settings.append(dict(base, **{k: below}))
    # a laxer-than-default setting must be honoured too: ratio ~1000 accepted when the ratio limits are raised
    lax_data = _zip_bytes([("pad.txt", b" " * 2_000_000)])
    with zipfile.ZipFile(io.BytesIO(lax_data)) as z:
        lax_ent = [(i.file_size, i.compress_size, i.is_dir()) for i in z.infolist()]
    cases = [(data, ent, L) for L in settings] + [(lax_data, lax_ent, dict(base, total_ratio=5000, entry_ratio=5000))]
    for payload, entries, L in cases:
        want = "rejected" if spec_reject_py(entries, L) else "accepted"
        lim = zip_bomb.ZipBombLimits(max_entries=L["max_entries"], max_total_uncompressed_bytes=L["total"], max_single_uncompressed_bytes=L["single"],
                                     max_total_compression_ratio=float(L["total_ratio"]), max_entry_compression_ratio=float(L["entry_ratio"]))
        for name in ("open_zipfile", "validate_zip_bytesio"):
            fn = getattr(zip_bomb, name, None)
            if fn is None:
                continue
            try:
                r = fn(io.BytesIO(payload), limits=lim, source="replay")
                if r is not None and hasattr(r, "close"):
                    r.close()
                got = "accepted"
            except ExtractionZipBombError:
                got = "rejected"
            except Exception as e:  # noqa
                got = f"other:{type(e).__name__}"
            if got != want:
                return {"target": f"zip_bomb.py::{name}", "inputs": {"entries (file_size, compress_size, is_dir)": entries, "limits": L},
                        "expected": want, "observed": got}
    return None


def _dirflag():
    """Directory flag: must agree with ZipInfo.is_dir() of the real library."""
    import zipfile
    from sharepoint2text.parsing.extractors.util import zip_bomb
    if not hasattr(zip_bomb, "_is_directory"):
        return None
    for name, attr in (("d/", 0), ("f.xml", 0x10), ("f.xml", 0), ("d/", 0x10), ("word/document.xml", 0x10 | (0o100644 << 16))):
        zi = zipfile.ZipInfo(name)
        zi.external_attr = attr
        got = zip_bomb._is_directory(zi)
        if got != zi.is_dir():
            return {"target": "zip_bomb.py::_is_directory", "inputs": {"filename": name, "external_attr": attr},
                    "expected": f"is_dir() == {zi.is_dir()}", "observed": f"_is_directory == {got}"}
    return None


def native_wrappers():
    """Position restore / close-on-failure / directory flag, on real zipfile objects."""
    import zipfile
    from sharepoint2text.parsing.extractors.util import zip_bomb
    r0 = native_extractors() or native_order()
    if r0 is not None:
        return r0
    good = _zip_bytes([("a.txt", b"hello"), ("d/", b"")])
    bomb = _zip_bytes([("a.txt", b"\0" * 200000)])
    low = zip_bomb.ZipBombLimits(max_entry_compression_ratio=2.0)
    # round 6: every starting position class -- 0 (the falsy one), 1, inside, last byte, end of data, beyond the end -- on
    # acceptance, rejection and a buffer that is no ZIP at all; and the outcome itself (accept returns, a bomb is answered with
    # the zip-bomb error, whatever the position was: a wrapper that restores by swallowing would pass the position test alone)
    from sharepoint2text.parsing.exceptions import ExtractionZipBombError
    for label, data, lim in (("accepted", good, zip_bomb.DEFAULT_ZIP_BOMB_LIMITS), ("rejected", bomb, low),
                             ("not-a-zip", b"garbage" * 10, zip_bomb.DEFAULT_ZIP_BOMB_LIMITS)):
        for start in (3, 0, 1, len(data) // 2, len(data) - 1, len(data), len(data) + 7):
            bio = io.BytesIO(data)
            bio.seek(start)
            exc = None
            try:
                zip_bomb.validate_zip_bytesio(bio, limits=lim, source="replay")
                res = "returned"
            except Exception as e:  # noqa
                res, exc = type(e).__name__, e
            if bio.closed or bio.tell() != start:
                return {"target": "zip_bomb.py::validate_zip_bytesio", "inputs": {"case": label, "start_position": start},
                        "expected": f"stream open at position {start} after the call",
                        "observed": ("stream closed" if bio.closed else f"position {bio.tell()}") + f" after {res}"}
            want = {"accepted": "returned", "rejected": "ExtractionZipBombError"}.get(label)
            if (want is not None and res != want) or (label == "not-a-zip" and (res == "returned" or isinstance(exc, ExtractionZipBombError))):
                return {"target": "zip_bomb.py::validate_zip_bytesio", "inputs": {"case": label, "start_position": start},
                        "expected": want or "an error that is not the zip-bomb error", "observed": res}
            if bio.getvalue() != data:
                return {"target": "zip_bomb.py::validate_zip_bytesio", "inputs": {"case": label, "start_position": start},
                        "expected": "buffer content untouched", "observed": f"{len(bio.getvalue())} bytes, content changed"}
    r1 = _dirflag()
    if r1 is not None:
        return r1
    # close on failure
    closed = []
    orig = zipfile.ZipFile.close
    def spy(self):
        closed.append(id(self))
        return orig(self)
    zipfile.ZipFile.close = spy
    try:
        try:
            zip_bomb.open_zipfile(io.BytesIO(bomb), limits=low, source="replay")
            res = "returned"
        except Exception as e:  # noqa
            res = type(e).__name__
    finally:
        zipfile.ZipFile.close = orig
    if res != "ExtractionZipBombError" or not closed:
        return {"target": "zip_bomb.py::open_zipfile", "inputs": {"case": "ratio bomb, entry ratio limit 2"},
                "expected": "ExtractionZipBombError and container closed", "observed": f"{res}, close calls={len(closed)}"}
    return None


def native_consumers():
    """Round 7 (the consumers of the guard under deductive contracts: ZipContext, zip_utils readers, the ODF probe).  Every
    zipfile.ZipFile constructed during a call is recorded; checked natively: (a) is_odf_encrypted leaves no container open on any
    exit (no manifest / plain manifest / malformed manifest / bomb member); (b) ZipContext(...) keeps exactly one open container on
    success, none on failure (bomb member -> ExtractionZipBombError), its handle is closed by close(); (c) no member is read from a
    container holding a bomb member (the read methods are wrapped)."""
    import zipfile
    from sharepoint2text.parsing.exceptions import ExtractionZipBombError
    from sharepoint2text.parsing.extractors.util import encryption, zip_context
    made, reads = [], []
    real_init, real_read, real_open = zipfile.ZipFile.__init__, zipfile.ZipFile.read, zipfile.ZipFile.open

    def init(self, *a, **k):
        real_init(self, *a, **k)
        made.append(self)

    def read(self, name, *a, **k):
        reads.append(("read", name))
        return real_read(self, name, *a, **k)

    def open_(self, name, *a, **k):
        reads.append(("open", getattr(name, "filename", name)))
        return real_open(self, name, *a, **k)

    plain = b'<?xml version="1.0"?><manifest:manifest xmlns:manifest="urn:oasis:names:tc:opendocument:xmlns:manifest:1.0"/>'
    docs = {
        "no manifest": _zip_bytes([("content.xml", b"<a/>")]),
        "plain manifest": _zip_bytes([("META-INF/manifest.xml", plain), ("content.xml", b"<a/>")]),
        "malformed manifest": _zip_bytes([("META-INF/manifest.xml", b"<a"), ("content.xml", b"<a/>")]),
    }
    bombs = {k + " + bomb member": _with_bomb_member(v) for k, v in docs.items()}
    zipfile.ZipFile.__init__, zipfile.ZipFile.read, zipfile.ZipFile.open = init, read, open_
    try:
        for label, data in list(docs.items()) + list(bombs.items()):
            bomb = label in bombs
            # (a) the ODF probe
            del made[:], reads[:]
            try:
                out = ("returned", encryption.is_odf_encrypted(io.BytesIO(data)))
            except Exception as e:  # noqa
                out = ("raised", type(e).__name__)
            left = [z for z in made if z.fp is not None]
            bad = None
            if left:
                bad = f"{len(left)} container(s) left open"
            elif bomb and (out != ("raised", "ExtractionZipBombError") or reads):
                bad = f"bomb member: {out}, member accesses {reads}"
            if bad:
                return {"target": "sharepoint2text/parsing/extractors/util/encryption.py::is_odf_encrypted",
                        "inputs": {"document": label, "size": len(data)}, "expected": "no container left open; a bomb member is answered by "
                        "ExtractionZipBombError before any member access", "observed": bad}
            # (b) the context class
            del made[:], reads[:]
            ctx = None
            try:
                ctx = zip_context.ZipContext(io.BytesIO(data))
                out = ("returned", None)
            except Exception as e:  # noqa
                out = ("raised", type(e).__name__)
            left = [z for z in made if z.fp is not None]
            bad = None
            if bomb and (out != ("raised", "ExtractionZipBombError") or left or reads):
                bad = f"bomb member: {out}, {len(left)} container(s) open, member accesses {reads}"
            elif not bomb and (out[0] != "returned" or len(left) != 1):
                bad = f"{out}, {len(left)} container(s) open after construction"
            elif not bomb:
                try:
                    ctx.read_bytes("content.xml")
                    ctx.read_text("content.xml")
                    ctx.read_xml_root("content.xml")
                    ctx.open_stream("content.xml").close()
                except Exception as e:  # noqa
                    bad = f"member access through the context raised {type(e).__name__}"
                if bad is None and [z for z in made if z.fp is not None] != left:
                    bad = "a method of the context opened another container"
                if bad is None:
                    ctx.close()
                    if [z for z in made if z.fp is not None]:
                        bad = "close() left a container open"
            if bad:
                return {"target": "sharepoint2text/parsing/extractors/util/zip_context.py::ZipContext",
                        "inputs": {"document": label, "size": len(data)}, "expected": "one accepted open container kept, none on failure, "
                        "closed by close(); no member access on a container with a bomb member", "observed": bad}
    finally:
        zipfile.ZipFile.__init__, zipfile.ZipFile.read, zipfile.ZipFile.open = real_init, real_read, real_open
    return None


def _family(req):
    """Which native search answers an obligation: "order" (typestate / policy: event monitor), "propagate" (exception type at
    the extractors), "predicate" (validate_zipfile and its helpers: boundary lattice), "all"."""
    hint = req.get("extra") or {}
    if isinstance(hint, dict) and hint.get("family"):
        return hint["family"], hint
    oid = req.get("obligation") or ""
    if "/typestate#" in oid or "/policy#" in oid:
        return "order", {}
    if "/exc-ensures#" in oid:
        parts = oid.split("/")
        fq = parts[1] if len(parts) > 2 else ""
        return "propagate", {"file": fq.split("::")[0], "function": fq.split("::")[-1].split(".")[0]}
    if any(k in oid for k in ("zip_context.py::", "zip_utils.py::", "encryption.py::")):
        return "consumer", {}
    if "zip_bomb.py::validate_zipfile/" in oid or "zip_bomb.py::_is_directory/" in oid or "zip_bomb.py::spec/" in oid:
        return "predicate", {}
    return "all", {}


def find(req):
    tried = 0
    fam, hint = _family(req)
    if fam == "limits":
        r = native_defaults() or native_default_wrappers() or native_limits_lattice()
        if r is not None:
            r.update(reproduced=True, found_by="default-configuration boundary vectors / non-default limits on real ZIPs")
            return r
        return {"reproduced": False, "note": "defaults equal the documented configuration; configured limits are honoured by both wrappers"}
    if fam == "sequence":
        r = native_sequences() or predicate_sequences()
        if r is not None:
            r.update(reproduced=True, found_by="call sequences over recycled / re-allocated buffers")
            return r
        return {"reproduced": False, "note": "no entry point lets an earlier call on the same buffer change its decision"}
    if fam == "consumer":
        try:
            r = native_consumers()
        except Exception:  # noqa -- the scope itself does not fit this tree: the other scopes decide
            r = None
        if r is None:
            r = native_order() or native_extractors() or native_sequences()
        if r is not None:
            r.update(reproduced=True, found_by="native scope over the consumers of the guard (open containers / member accesses recorded)")
            return r
        fam = "all"
    if fam in ("order", "propagate"):
        only = None
        if fam == "propagate":
            names = [x for x in (hint.get("file"), "::" + hint["function"] if hint.get("function") else None) if x]
            mine = [t for (t, _r, _c, _d) in _subjects() if any(n in t for n in names)]
            only = names if mine else None
        extra = _hinted_subjects(hint.get("targets")) if isinstance(hint, dict) else []
        r = (native_order(None, extra) if extra else None) or native_order(only) or (native_order() if only else None) or native_extractors() \
            or native_sequences(only if fam == "propagate" else None) or (native_sequences() if fam == "propagate" and only else None)
        if r is not None:
            r.update(reproduced=True, found_by="runtime event monitor over the ZIP-container entry points")
            return r
        return {"reproduced": False, "note": "every ZIP-container entry point validates before the first member access and "
                                             "answers a bomb member with ExtractionZipBombError"}
    r = (native_wrappers() or native_limits_lattice() or native_defaults() or native_default_wrappers() or native_sequences()
         or predicate_sequences()) if fam == "all" \
        else (_dirflag() or native_defaults() or predicate_sequences())
    if r is not None:
        r.update(reproduced=True, found_by="native wrapper cases")
        return r
    w = req.get("witness") or {}
    if w.get("entries") is not None and w.get("limits"):
        want, got = check([tuple(e) for e in w["entries"]], w["limits"])
        tried += 1
        if want != got:
            return _res(w["entries"], w["limits"], want, got, tried, "solver model")
    for ent, L in lattice():
        tried += 1
        want, got = check(ent, L)
        if want != got:
            return _res(ent, L, want, got, tried, "boundary lattice")
        if tried > 400000:
            break
    return {"reproduced": False, "note": f"{tried} boundary-lattice vectors agree with the spec predicate"}


def _res(ent, L, want, got, tried, how):
    return {"reproduced": True, "target": "sharepoint2text/parsing/extractors/util/zip_bomb.py::validate_zipfile",
            "inputs": {"entries": [list(e) for e in ent], "limits": L}, "expected": want, "observed": got,
            "found_by": how, "tried": tried}


def rerun(stored):
    if "entries" not in stored.get("inputs", {}):
        r = native_wrappers()
        return dict(r or {}, reproduced=r is not None)
    ent = [tuple(e) for e in stored["inputs"]["entries"]]
    L = stored["inputs"]["limits"]
    want, got = check(ent, L)
    return {"reproduced": want != got, "expected": want, "observed": got, "inputs": stored["inputs"]}
