"""Native replay for C03 (runs under /venv/bin/python on the REAL code, no z3).

Executable form of the property: for a content object (hand-built dataclass instance, or the result
of a real extractor on a generated document) with element list E,
  * units == one per element, in order;  unit k number == k+1 (1-based source position);
  * unit k text == the element's text function (table TEXT_OF, written from the class docs);
  * numbers strictly increasing, no repetition;
  * for the eleven formats of the statement: get_full_text() == "\\n".join(unit texts).strip().
`find(req)` runs the checks that belong to the function named in the request and returns the first
failing input; `rerun(stored)` re-executes one stored check.
"""
import io
import itertools
import os
import struct
import sys
import zipfile

TEXTS = ["", " ", "A", " B b \n", "x\ny", "\n"]
N_MAX = 3


def _dt():
    from sharepoint2text.parsing.extractors import data_types
    return data_types


def observe(content, **kw):
    us = list(content.iterate_units(**kw))
    return [(u.get_metadata().unit_number, u.get_text()) for u in us]


def spec_fulltext(obs):
    return "\n".join(t for _n, t in obs).strip()


# ---- element builders / text functions per paged class (executable spec) -------------------------
def _paged():
    dt = _dt()
    return {
        "PdfContent": ("pages", lambda t, k: dt.PdfPage(text=t), lambda e, kw: e.text, {}),
        "PptContent": ("slides", lambda t, k: dt.PptSlideContent(slide_number=k, title=(t or None), body_text=[t] if t.strip() else []),
                       lambda e, kw: e.text_combined, {}),
        "PptxContent": ("slides", lambda t, k: dt.PptxSlide(slide_number=k, base_text=t, text=t,
                                                             formulas=[dt.PptxFormula(latex="x", is_display=False)] if t == "A" else []),
                        lambda e, kw: e.get_text(**kw).strip(), {"include_image_captions": False}),
        "XlsContent": ("sheets", lambda t, k: dt.XlsSheet(name=f"S{k}", text=t, data=[{"h": t}] if t.strip() else []),
                       lambda e, kw: e.text.strip(), {}),
        "XlsxContent": ("sheets", lambda t, k: dt.XlsxSheet(name=f"S{k}", text=t, data=[[t]] if t.strip() else []),
                        lambda e, kw: e.name + "\n" + e.text.strip(), {}),
        "OdpContent": ("slides", lambda t, k: dt.OdpSlide(slide_number=k, title=t, body_text=[t] if t.strip() else []),
                       lambda e, kw: e.text_combined, {}),
        "OdsContent": ("sheets", lambda t, k: dt.OdsSheet(name=("" if t == "\n" else f"S{k}"), text=t, data=[[t]] if t.strip() else []),
                       lambda e, kw: (e.name + "\n" + e.text.strip()).strip(), {}),
        "EpubContent": ("chapters", lambda t, k: dt.EpubChapter(chapter_number=k, href=f"c{k}.xhtml", text=t), lambda e, kw: e.text, {}),
        "RtfContent": ("pages", lambda t, k: t, lambda e, kw: e, {}),
    }


FULLTEXT = {"PdfContent", "PptxContent", "OdpContent", "XlsxContent", "OdsContent", "EpubContent",
            "HtmlContent", "PlainTextContent", "EmailContent", "OdgContent", "OdfContent"}


def check_paged(cls, texts, kw=None):
    """-> None or failure dict for cls built from the list of element texts."""
    dt = _dt()
    field, mk, text_of, default_kw = _paged()[cls]
    kw = default_kw if kw is None else kw
    elems = [mk(t, k) for k, t in enumerate(texts, start=1)]
    content = getattr(dt, cls)(**{field: elems})
    obs = observe(content, **kw)
    want = [(k, text_of(e, kw)) for k, e in enumerate(elems, start=1)]
    if cls == "RtfContent" and not texts:
        want = []          # no explicit pages, no text: nothing to report
    inputs = {"class": cls, "element_texts": texts, "kwargs": kw}
    if obs != want:
        return {"target": f"data_types.py::{cls}.iterate_units", "inputs": inputs,
                "expected": f"units (number, text) == {want!r}", "observed": repr(obs), "check": "paged"}
    nums = [n for n, _t in obs]
    if any(not (isinstance(n, int) and n >= 1) for n in nums) or any(a >= b for a, b in zip(nums, nums[1:])):
        return {"target": f"data_types.py::{cls}.iterate_units", "inputs": inputs,
                "expected": "unit numbers positive and strictly increasing", "observed": repr(nums), "check": "paged"}
    if cls in FULLTEXT:
        ft = content.get_full_text(**kw)
        if ft != spec_fulltext(obs):
            return {"target": f"data_types.py::{cls}.get_full_text", "inputs": inputs,
                    "expected": repr(spec_fulltext(obs)), "observed": repr(ft), "check": "paged"}
    return None


def sweep_paged(cls):
    kws = [None]
    if cls == "PptxContent":
        kws = [{"include_image_captions": False}, {"include_image_captions": True}]
    for kw in kws:                                   # the telling case first: an empty element between two others
        r = check_paged(cls, ["A", "", "x\ny"], kw)
        if r:
            return r
    for n in range(0, N_MAX + 1):
        for texts in itertools.product(TEXTS, repeat=n):
            for kw in kws:
                r = check_paged(cls, list(texts), kw)
                if r:
                    return r
    return None


def check_single(cls, text, html=""):
    dt = _dt()
    if cls == "EmailContent":
        c = dt.EmailContent(from_email=dt.EmailAddress(), body_plain=text, body_html=html)
        want_text = c.body_plain if c.body_plain else (c.body_html if c.body_html else "")
    elif cls in ("PlainTextContent", "HtmlContent"):
        c = getattr(dt, cls)(content=text)
        want_text = text.strip()
    else:
        c = getattr(dt, cls)(full_text=text)
        want_text = text.strip()
    obs = observe(c)
    inputs = {"class": cls, "text": text, "html": html}
    if obs != [(1, want_text)]:
        return {"target": f"data_types.py::{cls}.iterate_units", "inputs": inputs, "expected": repr([(1, want_text)]),
                "observed": repr(obs), "check": "single"}
    ft = c.get_full_text()
    if ft != spec_fulltext(obs):
        return {"target": f"data_types.py::{cls}.get_full_text", "inputs": inputs, "expected": repr(spec_fulltext(obs)),
                "observed": repr(ft), "check": "single"}
    return None


def sweep_single(cls):
    for t in TEXTS + [" A \n B "]:
        for h in (["", "<p>h</p>"] if cls == "EmailContent" else [""]):
            r = check_single(cls, t, h)
            if r:
                return r
    return None


def check_join(texts):
    dt = _dt()
    units = [dt.PlainTextUnit(text=t) for t in texts]
    got = dt._join_unit_text(iter(units))
    want = "\n".join(texts).strip()
    if got != want:
        return {"target": "data_types.py::_join_unit_text", "inputs": {"unit_texts": texts}, "expected": repr(want),
                "observed": repr(got), "check": "join"}
    return None


def sweep_join():
    for n in range(0, N_MAX + 1):
        for texts in itertools.product(TEXTS, repeat=n):
            r = check_join(list(texts))
            if r:
                return r
    return None


# ---- heading-section iterators (doc / docx / odt): numbers 1..m ------------------------------------
def _heading_docs():
    dt = _dt()
    H = [("h", 1), ("h", 2), ("p", 0), ("e", 0), ("h", 1)]
    for n in range(0, 5):
        for kinds in itertools.product(["h1", "h2", "p", "e", "h0"], repeat=n):
            yield kinds


def check_heading(cls, kinds):
    dt = _dt()
    if cls == "DocxContent":
        paras = []
        for i, k in enumerate(kinds):
            if k.startswith("h"):
                paras.append(dt.DocxParagraph(text=("" if k == "h0" else f"Head{i}"), style=f"Heading {2 if k == 'h2' else 1}"))
            else:
                paras.append(dt.DocxParagraph(text=("" if k == "e" else f"para {i}"), style="Normal"))
        c = dt.DocxContent(paragraphs=paras, full_text="\n".join(p.text for p in paras))
    elif cls == "OdtContent":
        paras = []
        for i, k in enumerate(kinds):
            if k.startswith("h"):
                paras.append(dt.OdtParagraph(text=("" if k == "h0" else f"Head{i}"), outline_level=2 if k == "h2" else 1))
            else:
                paras.append(dt.OdtParagraph(text=("" if k == "e" else f"para {i}")))
        c = dt.OdtContent(paragraphs=paras, full_text="\n".join(p.text for p in paras))
    else:
        lines = []
        for i, k in enumerate(kinds):
            if k.startswith("h"):
                lines.append("" if k == "h0" else (f"Subsection {i}" if k == "h2" else f"Chapter {i}"))
            else:
                lines.append("" if k == "e" else f"para {i}")
        c = dt.DocContent(main_text="\n".join(lines))
    nums = [u.get_metadata().unit_number for u in c.iterate_units()]
    if nums != list(range(1, len(nums) + 1)):
        return {"target": f"data_types.py::{cls}.iterate_units", "inputs": {"class": cls, "paragraph_kinds": list(kinds)},
                "expected": "unit numbers 1..m, strictly increasing", "observed": repr(nums), "check": "heading"}
    return None


def sweep_heading(cls):
    for kinds in _heading_docs():
        r = check_heading(cls, kinds)
        if r:
            return r
    return None


# ---- heading sections (doc / docx / odt): every body paragraph lands in the unit of ITS section ------------------
# A document is a list of paragraphs [kind, text]: kind "h1"/"h2" = heading of that outline level, "p" = body.
# Spec (statement): headings with non-empty text split the body into sections, in order; the non-empty body
# paragraphs of one section are the text of exactly one unit ("\n"-joined), no unit holds text of two sections,
# units numbered 1..m.  Units without text (heading-only sections) are allowed: their heading is their heading path.
HEAD_TEXT = {"DocContent": {"h1": "Chapter One", "h2": "Subsection One"}, "DocxContent": {"h1": "Item", "h2": "Sub"},
             "OdtContent": {"h1": "Item", "h2": "Sub"}}


def build_heading_doc(cls, paras):
    dt = _dt()
    if cls == "DocxContent":
        ps = [dt.DocxParagraph(text=t, style=("Normal" if k == "p" else f"Heading {k[1]}" if k[0] == "h" else f"heading{k[1]}")) for k, t in paras]
        return dt.DocxContent(paragraphs=ps, full_text="\n".join(p.text for p in ps))
    if cls == "OdtContent":
        ps = [dt.OdtParagraph(text=t, outline_level=(None if k == "p" else int(k[1]))) for k, t in paras]
        return dt.OdtContent(paragraphs=ps, full_text="\n".join(p.text for p in ps))
    return dt.DocContent(main_text="\n".join(t for _k, t in paras))


def section_spec(paras):
    """-> (list of section body texts that are non-empty, in order, has_heading)"""
    secs, cur, has = [], [], False
    for k, t in paras:
        if k != "p" and t.strip():
            has = True
            secs.append(cur)
            cur = []
        elif k == "p" and t.strip():
            cur.append(t.strip())
    secs.append(cur)
    return ["\n".join(x) for x in secs if x], has


def section_features(cls, paras):
    """Features of a document shape used by recorded findings (known_findings.json, `exclusion`)."""
    f = set()
    first_h = next((i for i, (k, t) in enumerate(paras) if k != "p" and t.strip()), None)
    if first_h is not None and any(k == "p" and t.strip() for k, t in paras[:first_h]):
        f.add("body-before-first-heading")
    if any(k != "p" and not t.strip() for k, t in paras):
        f.add("heading-without-text")
    if _bare_subtrees(paras):
        f.add(BARE)
    return sorted(f)


BARE = "heading-subtree-without-body"      # a feature that only switches off the heading-path check of the headings concerned
LOCAL_FEATURES = {BARE}


def _bare_subtrees(paras):
    """indices of headings (with text) below which there is no body text up to the next heading of the same or a higher rank"""
    out = []
    for i, (k, t) in enumerate(paras):
        if k == "p" or not t.strip():
            continue
        body = False
        for k2, t2 in paras[i + 1:]:
            if k2 != "p" and t2.strip() and int(k2[1]) <= int(k[1]):
                break
            if k2 == "p" and t2.strip():
                body = True
                break
        if not body:
            out.append(i)
    return out


def check_sections(cls, paras, exclude=()):
    paras = [tuple(x) for x in paras]
    c = build_heading_doc(cls, paras)
    obs = observe(c)
    want, has = section_spec(paras)
    nums = [n for n, _t in obs]
    inputs = {"class": cls, "paragraphs": [list(x) for x in paras], "features": section_features(cls, paras)}
    if nums != list(range(1, len(nums) + 1)):
        return {"target": f"data_types.py::{cls}.iterate_units", "inputs": inputs, "expected": "unit numbers 1..m",
                "observed": repr(obs), "check": "sections"}
    if not has:
        ok = len(obs) == 1
        want_s = "one unit for a document without headings"
    else:
        got = [t.strip() for _n, t in obs if t.strip()]
        ok = got == want
        want_s = f"the non-empty unit texts are the section bodies in order: {want!r}"
        if not ok and not want and cls == "DocContent" and len(obs) == 1:
            # headings only, no body text below any of them: the legacy .doc reader has no section to report and falls back
            # to one unit holding the whole main text (repair c042a15; before it there was no unit to attach images to)
            whole = "\n".join(t for _k, t in paras).strip()
            ok = obs[0][1].strip() == whole
            want_s += " (or the single fallback unit with the whole main text)"
    if not ok:
        return {"target": f"data_types.py::{cls}.iterate_units", "inputs": inputs, "expected": want_s, "observed": repr(obs), "check": "sections"}
    if has and cls != "DocContent":
        # "heading text counts as covered by the heading path of its section unit": a heading whose text identifies it (unique in the
        # document) is in the heading path of at least one unit, and of no unit in front of its own section
        bare = _bare_subtrees(paras) if BARE in exclude else []
        heads = [t.strip() for i, (k, t) in enumerate(paras) if k != "p" and t.strip() and i not in bare]
        all_heads = [t.strip() for k, t in paras if k != "p" and t.strip()]
        paths = [(n, list(u.get_metadata().heading_path)) for n, u in zip(nums, c.iterate_units())]
        for h in heads:
            if all_heads.count(h) == 1 and not any(h in t for k, t in paras if k == "p") and not any(h in hp for _n, hp in paths):
                return {"target": f"data_types.py::{cls}.iterate_units", "inputs": inputs, "expected": f"heading {h!r} is in the heading path of a unit",
                        "observed": f"units (number, heading path, text) = {[(n, hp, t) for (n, hp), (_n, t) in zip(paths, obs)]!r}", "check": "sections"}
    return None


def section_docs(cls, max_len=5):
    H = HEAD_TEXT[cls]
    pool = [("h1", H["h1"]), ("h2", H["h2"]), ("p", None), ("p", ""), ("p", "same line")]
    if cls != "DocContent":
        pool.append(("h1", ""))
    for n in range(0, max_len + 1):
        for kinds in itertools.product(pool, repeat=n):
            yield [(k, (f"body {i}" if t is None else t)) for i, (k, t) in enumerate(kinds)]
    if cls != "DocContent":
        # outlines that skip levels / start below level 1 / come back up, every heading with a text of its own: sections with and without body
        for n in range(1, max_len + 1):
            for kinds in itertools.product(["h1", "h2", "h3", "p"], repeat=n):
                if sum(k != "p" for k in kinds) >= 2 and len({k for k in kinds if k != "p"}) >= 2:
                    yield [(k, (f"body {i}" if k == "p" else f"Head {i}")) for i, k in enumerate(kinds)]


def sweep_sections(cls, exclude=(), collect=False):
    """First failing document whose features are not all excluded (recorded findings); with collect=True the list of
    (features, first failing doc) per feature set."""
    seen = {}
    for paras in section_docs(cls):
        feats = section_features(cls, paras)
        if feats and (set(feats) - LOCAL_FEATURES) & set(exclude) and not collect:
            continue
        r = check_sections(cls, paras, () if collect else exclude)
        if r:
            if not collect:
                return r
            seen.setdefault(tuple(feats), r)
    return seen if collect else None


# ---- legacy PPT: record streams built natively -----------------------------------------------------
def _rec(rtype, data=b"", ver=0, inst=0):
    return struct.pack("<HHI", (inst << 4) | ver, rtype, len(data)) + data


def ppt_stream(slide_texts, loose_texts=()):
    """PowerPoint Document stream: one SlideListWithText container (instance 0) with a SlidePersistAtom per
    slide followed by that slide's TextCharsAtoms, plus text atoms outside any slide list (found only by the
    raw-text fallback)."""
    body = b""
    for texts in slide_texts:
        body += _rec(0x03F3, b"\0" * 20)
        for t in texts:
            body += _rec(0x0F9F, struct.pack("<I", 1)) + _rec(0x0FA0, t.encode("utf-16-le"))
    data = _rec(0x0FF0, body, ver=0x0F, inst=0)
    for t in loose_texts:
        data += _rec(0x0FA0, t.encode("utf-16-le"))
    return data


def check_ppt_parse(slide_texts, loose_texts):
    from sharepoint2text.parsing.extractors.ms_legacy import ppt_extractor as P
    dt = _dt()
    data = ppt_stream(slide_texts, loose_texts)
    content = dt.PptContent()
    P._parse_ppt_document(data, content)
    nums = [s.slide_number for s in content.slides]
    unums = [n for n, _t in observe(content)]
    if nums != list(range(1, len(nums) + 1)) or unums != nums:
        return {"target": "ppt_extractor.py::_parse_ppt_document",
                "inputs": {"slide_list_texts": [list(t) for t in slide_texts], "texts_outside_slide_list": list(loose_texts),
                           "stream_hex": data.hex()},
                "expected": "slide numbers / unit numbers 1..len(slides) without repetition",
                "observed": f"slide numbers {nums}, unit numbers {unums}", "check": "ppt_parse"}
    return None


def sweep_ppt_parse():
    pools = [[], ["T"], ["T", "U"]]
    for n in range(0, 3):
        for st in itertools.product(pools, repeat=n):
            for loose in ([], ["Raw text"]):
                r = check_ppt_parse([list(x) for x in st], loose)
                if r:
                    return r
    return None


def check_ppt_build(slide_texts):
    from sharepoint2text.parsing.extractors.ms_legacy import ppt_extractor as P
    dt = _dt()
    content = dt.PptContent()
    blocks = [[P._make_text_block(t, ty) for (t, ty) in sl] for sl in slide_texts]
    P._build_slides_from_text_blocks(content, blocks)
    nums = [s.slide_number for s in content.slides]
    ok = nums == list(range(1, len(slide_texts) + 1)) and len(content.all_text) == sum(len(s) for s in slide_texts)
    if not ok:
        return {"target": "ppt_extractor.py::_build_slides_from_text_blocks", "inputs": {"slides_texts": slide_texts},
                "expected": "one slide per entry numbered 1..n; all_text grows by the number of blocks",
                "observed": f"numbers {nums}, len(all_text) {len(content.all_text)}", "check": "ppt_build"}
    return None


def sweep_ppt_build():
    pool = [[], [("T", 0)], [("B", 1), ("N", 2)], [("T", 6), ("T2", 0), ("o", None)]]
    for n in range(0, 4):
        for st in itertools.product(pool, repeat=n):
            r = check_ppt_build([list(x) for x in st])
            if r:
                return r
    return None


def check_ppt_fixture():
    """API level: the repository's own slide_with_notes.ppt (SlideListWithText without text + raw fallback)."""
    repo = os.environ.get("VERIF_REPO", "/repo")
    p = os.path.join(repo, "sharepoint2text/tests/resources/legacy_ms/slide_with_notes.ppt")
    if not os.path.exists(p):
        p = "/repo/sharepoint2text/tests/resources/legacy_ms/slide_with_notes.ppt"
    if not os.path.exists(p):
        return None
    from sharepoint2text.parsing.extractors.ms_legacy.ppt_extractor import read_ppt
    c = next(read_ppt(io.BytesIO(open(p, "rb").read()), path=p))
    nums = [n for n, _t in observe(c)]
    if nums != list(range(1, len(nums) + 1)):
        return {"target": "ppt_extractor.py::read_ppt", "inputs": {"file": "sharepoint2text/tests/resources/legacy_ms/slide_with_notes.ppt"},
                "expected": "unit numbers 1..n without repetition", "observed": repr(nums), "check": "ppt_fixture"}
    return None


# ---- RTF documents generated natively -------------------------------------------------------------
RTF_ESC = {"П": "\\u1055?", "р": "\\u1088?", "и": "\\u1080?", "é": "\\'e9", "\\": "\\\\", "{": "\\{", "}": "\\}", "\u00a0": "\\~"}


def rtf_escape(text):
    """page text -> RTF source: non-ASCII letters as \\uN? runs, e-acute as a hex escape, specials escaped"""
    return "".join(RTF_ESC.get(ch, ch) for ch in text)


def rtf_doc(pages):
    return ("{\\rtf1\\ansi " + "\\page ".join(rtf_escape(p) for p in pages) + "}").encode("ascii")


def check_rtf(pages):
    from sharepoint2text.parsing.extractors.ms_legacy.rtf_extractor import read_rtf
    c = next(read_rtf(io.BytesIO(rtf_doc(pages))))
    obs = observe(c)
    if len(pages) == 1:
        want = [(1, pages[0].strip())] if pages[0].strip() else None     # flowing text: one unit (or none when empty)
        ok = (obs == want) if want else (len(obs) <= 1 and all(n == 1 for n, _t in obs))
    else:
        want = [(k, p.strip()) for k, p in enumerate(pages, start=1)]
        ok = obs == want
    if not ok:
        return {"target": "rtf_extractor.py::read_rtf", "inputs": {"page_texts": pages, "rtf": rtf_doc(pages).decode("ascii")},
                "expected": f"one unit per explicit page, number = 1-based source position, holding exactly that page's text: {want!r}",
                "observed": f"pages={c.pages!r} units={obs!r}", "check": "rtf"}
    return None


def sweep_rtf():
    # the telling cases first: an empty page shifts every later number; escapes of several kinds (Unicode runs, hex,
    # specials) in front of a page break must not move the break
    for pages in (["A", "", "B"], ["", "A"], ["При", "B"], ["xПриy При", "é{z}", "C"], ["é\\", "B"], ["a\u00a0b", "c"]):
        r = check_rtf(pages)
        if r:
            return r
    pool = ["A", "", " ", "B b", "При", "éé"]
    for n in range(1, 4):
        for pages in itertools.product(pool, repeat=n):
            r = check_rtf(list(pages))
            if r:
                return r
    return None


# ---- generated documents for the other construction sites -----------------------------------------
def pptx_doc(slide_texts):
    buf = io.BytesIO()
    with zipfile.ZipFile(buf, "w") as z:
        z.writestr("[Content_Types].xml", '<?xml version="1.0"?><Types xmlns="http://schemas.openxmlformats.org/package/2006/content-types"/>')
        n = len(slide_texts)
        part = lambda i: n - i          # slide in show position i+1 is stored as part slide<n-i>.xml (decks get re-arranged)
        ids = "".join(f'<p:sldId id="{300 - i}" r:id="rId{i + 1}"/>' for i in range(n))
        z.writestr("ppt/presentation.xml",
                   '<?xml version="1.0"?><p:presentation xmlns:p="http://schemas.openxmlformats.org/presentationml/2006/main" '
                   'xmlns:r="http://schemas.openxmlformats.org/officeDocument/2006/relationships"><p:sldIdLst>' + ids + '</p:sldIdLst></p:presentation>')
        # relationships deliberately listed in reverse order: the order must come from sldIdLst
        rels = "".join(f'<Relationship Id="rId{i + 1}" Type="http://schemas.openxmlformats.org/officeDocument/2006/relationships/slide" '
                       f'Target="slides/slide{part(i)}.xml"/>' for i in reversed(range(len(slide_texts))))
        z.writestr("ppt/_rels/presentation.xml.rels",
                   '<?xml version="1.0"?><Relationships xmlns="http://schemas.openxmlformats.org/package/2006/relationships">' + rels + '</Relationships>')
        for i, t in enumerate(slide_texts):
            sp = ""
            if t is not None:
                sp = ('<p:sp><p:nvSpPr><p:cNvPr id="2" name="tb"/><p:cNvSpPr/><p:nvPr/></p:nvSpPr><p:spPr/>'
                      f'<p:txBody><a:bodyPr/><a:p><a:r><a:t>{t}</a:t></a:r></a:p></p:txBody></p:sp>')
            hidden = ' show="0"' if t == "Hidden" else ""
            z.writestr(f"ppt/slides/slide{part(i)}.xml",
                       f'<?xml version="1.0"?><p:sld{hidden} xmlns:p="http://schemas.openxmlformats.org/presentationml/2006/main" '
                       'xmlns:a="http://schemas.openxmlformats.org/drawingml/2006/main"><p:cSld><p:spTree>'
                       '<p:nvGrpSpPr><p:cNvPr id="1" name=""/><p:cNvGrpSpPr/><p:nvPr/></p:nvGrpSpPr><p:grpSpPr/>' + sp +
                       '</p:spTree></p:cSld></p:sld>')
    return buf.getvalue()


def _check_doc(target, reader, data, want_texts, inputs, contains=True):
    c = next(reader(io.BytesIO(data)))
    obs = observe(c)
    nums = [n for n, _t in obs]
    ok = nums == list(range(1, len(want_texts) + 1)) and all((w in t) if contains else (w == t) for (_n, t), w in zip(obs, want_texts))
    if ok and type(c).__name__ in FULLTEXT and c.get_full_text() != spec_fulltext(obs):
        ok = False
    if not ok:
        return {"target": target, "inputs": inputs, "expected": f"units 1..{len(want_texts)} in order, unit k holding text {want_texts!r}; "
                "full text == joined unit texts", "observed": f"units={obs!r} full_text={c.get_full_text()!r}", "check": inputs["check"]}
    return None


def check_pptx(slide_texts):
    from sharepoint2text.parsing.extractors.ms_modern.pptx_extractor import read_pptx
    return _check_doc("pptx_extractor.py::read_pptx", read_pptx, pptx_doc(slide_texts), [t or "" for t in slide_texts],
                      {"check": "pptx", "slide_texts": slide_texts})


def sweep_pptx():
    pool = ["Alpha", None, "Beta", "Hidden"]
    for n in range(0, 4):
        for st in itertools.product(pool, repeat=n):
            r = check_pptx(list(st))
            if r:
                return r
    return None


def odp_doc(slide_texts):
    buf = io.BytesIO()
    ns = ('xmlns:office="urn:oasis:names:tc:opendocument:xmlns:office:1.0" xmlns:draw="urn:oasis:names:tc:opendocument:xmlns:drawing:1.0" '
          'xmlns:text="urn:oasis:names:tc:opendocument:xmlns:text:1.0" xmlns:presentation="urn:oasis:names:tc:opendocument:xmlns:presentation:1.0" '
          'xmlns:svg="urn:oasis:names:tc:opendocument:xmlns:svg-compatible:1.0" xmlns:xlink="http://www.w3.org/1999/xlink"')
    pages = ""
    for i, t in enumerate(slide_texts):
        frame = "" if t is None else f'<draw:frame presentation:class="outline"><draw:text-box><text:p>{t}</text:p></draw:text-box></draw:frame>'
        pages += f'<draw:page draw:name="p{9 - i}">{frame}</draw:page>'      # names sort the other way round than the pages come
    with zipfile.ZipFile(buf, "w") as z:
        z.writestr("mimetype", "application/vnd.oasis.opendocument.presentation")
        z.writestr("content.xml", f'<?xml version="1.0"?><office:document-content {ns}><office:body><office:presentation>{pages}'
                                  '</office:presentation></office:body></office:document-content>')
        z.writestr("meta.xml", f'<?xml version="1.0"?><office:document-meta {ns}><office:meta/></office:document-meta>')
        z.writestr("META-INF/manifest.xml", '<?xml version="1.0"?><manifest:manifest xmlns:manifest="urn:oasis:names:tc:opendocument:xmlns:manifest:1.0"/>')
    return buf.getvalue()


def check_odp(slide_texts):
    from sharepoint2text.parsing.extractors.open_office.odp_extractor import read_odp
    return _check_doc("odp_extractor.py::read_odp", read_odp, odp_doc(slide_texts), [t or "" for t in slide_texts],
                      {"check": "odp", "slide_texts": slide_texts})


def sweep_odp():
    pool = ["Alpha", None, "Beta"]
    for n in range(0, 4):
        for st in itertools.product(pool, repeat=n):
            r = check_odp(list(st))
            if r:
                return r
    return None


def epub_doc(chapter_texts):
    buf = io.BytesIO()
    with zipfile.ZipFile(buf, "w") as z:
        z.writestr("mimetype", "application/epub+zip")
        z.writestr("META-INF/container.xml", '<?xml version="1.0"?><container version="1.0" xmlns="urn:oasis:names:tc:opendocument:xmlns:container">'
                                             '<rootfiles><rootfile full-path="OEBPS/content.opf" media-type="application/oebps-package+xml"/></rootfiles></container>')
        # a chapter text of None = spine entry whose manifest item is missing (skipped by the extractor)
        items = "".join(f'<item id="c{i}" href="c{i}.xhtml" media-type="application/xhtml+xml"/>' for i, t in enumerate(chapter_texts) if t is not None)
        # a chapter given as [text, "no"] is an auxiliary spine item (linear="no"): still spine position k
        refs = "".join(f'<itemref idref="c{i}"' + (f' linear="{t[1]}"' if isinstance(t, (list, tuple)) else "") + "/>"
                       for i, t in enumerate(chapter_texts))
        chapter_texts = [t[0] if isinstance(t, (list, tuple)) else t for t in chapter_texts]
        z.writestr("OEBPS/content.opf", '<?xml version="1.0"?><package xmlns="http://www.idpf.org/2007/opf" version="3.0" unique-identifier="id">'
                                        '<metadata xmlns:dc="http://purl.org/dc/elements/1.1/"><dc:title>T</dc:title><dc:identifier id="id">x</dc:identifier></metadata>'
                                        f'<manifest>{items}</manifest><spine>{refs}</spine></package>')
        for i, t in enumerate(chapter_texts):
            if t is None:
                continue
            z.writestr(f"OEBPS/c{i}.xhtml", f'<?xml version="1.0"?><html xmlns="http://www.w3.org/1999/xhtml"><head><title>c{i}</title></head><body><p>{t}</p></body></html>')
    return buf.getvalue()


def check_epub(chapter_texts):
    from sharepoint2text.parsing.extractors.epub_extractor import read_epub
    c = next(read_epub(io.BytesIO(epub_doc(chapter_texts))))
    obs = observe(c)
    plain = [t[0] if isinstance(t, (list, tuple)) else t for t in chapter_texts]
    want = [(k, t) for k, t in enumerate(plain, start=1) if t is not None]     # number = 1-based spine position
    ok = [n for n, _t in obs] == [n for n, _t in want] and all(w in t for (_n, t), (_k, w) in zip(obs, want)) \
        and c.get_full_text() == spec_fulltext(obs)
    if not ok:
        return {"target": "epub_extractor.py::read_epub", "inputs": {"check": "epub", "chapter_texts": chapter_texts},
                "expected": f"one unit per readable spine item, numbered by 1-based spine position: {want!r}; full text == joined unit texts",
                "observed": f"units={obs!r} full_text={c.get_full_text()!r}", "check": "epub"}
    return None


def sweep_epub():
    for st in (["Alpha", ["Aux", "no"], "Beta"], [["Cover", "no"], "Alpha"], ["Alpha", ["Aux", "yes"], "Beta"]):
        r = check_epub(st)
        if r:
            return r
    pool = ["Alpha", "", None, "Beta"]
    for n in range(0, 4):
        for st in itertools.product(pool, repeat=n):
            r = check_epub(list(st))
            if r:
                return r
    return None


def xlsx_doc(sheets):
    """sheets: [(name, [[cell,...],...])] in workbook order (names deliberately not sorted)."""
    import openpyxl
    wb = openpyxl.Workbook()
    wb.remove(wb.active)
    for name, rows in sheets:
        ws = wb.create_sheet(name)
        for r in rows:
            ws.append(r)
    buf = io.BytesIO()
    wb.save(buf)
    return buf.getvalue()


SHEET_NAMES = ["Zeta", "Alpha", "Mid"]


SHEET_ROWS = {"empty": 0, "data": 2, "one-row": 1, "three-rows": 3, "one-cell": -1, "ragged": -2, "gaps": -3}


def _sheet_specs(kinds):
    """kind -> rows: every row carries a token `cell<sheet>r<row>` (one-cell: a single cell in a single row; ragged: an earlier
    row reaches further right than the last one; gaps: empty cells / an empty row between cells that carry data) -- every
    string cell `cell...` is a token that has to be found in the unit of its sheet"""
    out = []
    for i, k in enumerate(kinds):
        n = SHEET_ROWS[k]
        if n == -1:
            rows = [[f"cell{i}r0"]]
        elif n == -2:
            rows = [[f"cell{i}r0"], [f"cell{i}r1", f"cell{i}s1", f"cell{i}t1", f"cell{i}u1"], [f"cell{i}r2", f"cell{i}s2"]]
        elif n == -3:
            rows = [[f"cell{i}r0", None, f"cell{i}t0"], [None, None, None], [None, f"cell{i}s2"]]
        else:
            rows = [[f"cell{i}r{r}", r] for r in range(n)]
        out.append((SHEET_NAMES[i], rows))
    return out


def _cell_tokens(sheets):
    return {c: i + 1 for i, (_s, rows) in enumerate(sheets) for row in rows for c in row if isinstance(c, str) and c.startswith("cell")}


def check_sheets(fmt, kinds):
    sheets = _sheet_specs(kinds)
    if fmt == "xlsx":
        from sharepoint2text.parsing.extractors.ms_modern.xlsx_extractor import read_xlsx as reader
        data = xlsx_doc(sheets)
    else:
        from sharepoint2text.parsing.extractors.open_office.ods_extractor import read_ods as reader
        data = ods_doc(sheets)
    c = next(reader(io.BytesIO(data)))
    us = list(c.iterate_units())
    obs = [(u.get_metadata().unit_number, u.get_metadata().sheet_name, u.get_text()) for u in us]
    ok = [(n, nm) for n, nm, _t in obs] == [(k, nm) for k, (nm, _r) in enumerate(sheets, start=1)] \
        and token_coverage([(n, t) for n, _nm, t in obs], _cell_tokens(sheets), "cell") is None \
        and c.get_full_text() == "\n".join(t for _n, _nm, t in obs).strip()
    if not ok:
        return {"target": f"{fmt}_extractor.py::read_{fmt}", "inputs": {"check": "sheets", "format": fmt, "sheet_kinds": list(kinds), "sheet_names": SHEET_NAMES[:len(kinds)]},
                "expected": "one unit per sheet in workbook order, numbered 1..n, carrying that sheet's name and cells; full text == joined unit texts",
                "observed": repr(obs)[:400], "check": "sheets"}
    return None


def sweep_sheets(fmt):
    for n in range(1, 4):
        for kinds in itertools.product(["data", "empty", "one-row", "one-cell", "three-rows", "ragged", "gaps"] if n < 3 else ["data", "empty", "one-row"], repeat=n):
            r = check_sheets(fmt, list(kinds))
            if r:
                return r
    return None


def ods_doc(sheets):
    ns = ('xmlns:office="urn:oasis:names:tc:opendocument:xmlns:office:1.0" xmlns:table="urn:oasis:names:tc:opendocument:xmlns:table:1.0" '
          'xmlns:text="urn:oasis:names:tc:opendocument:xmlns:text:1.0" xmlns:draw="urn:oasis:names:tc:opendocument:xmlns:drawing:1.0" '
          'xmlns:xlink="http://www.w3.org/1999/xlink" xmlns:svg="urn:oasis:names:tc:opendocument:xmlns:svg-compatible:1.0"')
    tabs = ""
    for name, rows in sheets:
        body = "".join("<table:table-row>" + "".join(f'<table:table-cell office:value-type="string"><text:p>{c}</text:p></table:table-cell>' if c is not None else "<table:table-cell/>" for c in r)
                       + "</table:table-row>" for r in rows)
        tabs += f'<table:table table:name="{name}">{body}</table:table>'
    buf = io.BytesIO()
    with zipfile.ZipFile(buf, "w") as z:
        z.writestr("mimetype", "application/vnd.oasis.opendocument.spreadsheet")
        z.writestr("content.xml", f'<?xml version="1.0"?><office:document-content {ns}><office:body><office:spreadsheet>{tabs}'
                                  '</office:spreadsheet></office:body></office:document-content>')
        z.writestr("meta.xml", f'<?xml version="1.0"?><office:document-meta {ns}><office:meta/></office:document-meta>')
        z.writestr("META-INF/manifest.xml", '<?xml version="1.0"?><manifest:manifest xmlns:manifest="urn:oasis:names:tc:opendocument:xmlns:manifest:1.0"/>')
    return buf.getvalue()


def check_pdf(n_pages):
    from pypdf import PdfWriter
    from sharepoint2text.parsing.extractors.pdf.pdf_extractor import read_pdf
    w = PdfWriter()
    for _ in range(n_pages):
        w.add_blank_page(width=200, height=200)
    buf = io.BytesIO()
    w.write(buf)
    return _check_doc("pdf_extractor.py::read_pdf", read_pdf, buf.getvalue(), [""] * n_pages, {"check": "pdf", "blank_pages": n_pages})


def sweep_pdf():
    for n in range(1, 4):
        r = check_pdf(n)
        if r:
            return r
    return None


# ---- token coverage: every piece of body text is in the unit of its element, and in no other ---------------------
def token_coverage(obs, want, what):
    """obs: [(unit number, unit text)]; want: {token: unit number it belongs to}.  -> description of the first problem or None"""
    by = {n: t for n, t in obs}
    for tok, k in want.items():
        holders = [n for n, t in obs if tok in t]
        if holders != [k]:
            return f"{what} {tok!r} belongs to unit {k} but is found in units {holders}"
        if by[k].count(tok) != 1:
            return f"{what} {tok!r} occurs {by[k].count(tok)} times in unit {k}"
    return None


ODP_STYLES = {"title": "Title", "title2": "TitleText", "body": "BodyText", "outline": "P3", "none": None}


def odp_rich_doc(slides, notes=None):
    """slides: [[(style key, text), ...]]: every paragraph in a text box of its own frame, frames top to bottom.
    notes: per slide None or (placement, [texts]): a <presentation:notes> child of the page (the notes PAGE of the slide: thumbnail +
    notes text frame(s); it is not slide body) placed "first" / "last" among the page's children, its frames positioned above the body frames."""
    ns = ('xmlns:office="urn:oasis:names:tc:opendocument:xmlns:office:1.0" xmlns:draw="urn:oasis:names:tc:opendocument:xmlns:drawing:1.0" '
          'xmlns:text="urn:oasis:names:tc:opendocument:xmlns:text:1.0" xmlns:presentation="urn:oasis:names:tc:opendocument:xmlns:presentation:1.0" '
          'xmlns:svg="urn:oasis:names:tc:opendocument:xmlns:svg-compatible:1.0" xmlns:xlink="http://www.w3.org/1999/xlink"')
    pages = ""
    for i, paras in enumerate(slides):
        frames = ""
        for j, (style, text) in enumerate(paras):
            st = f' text:style-name="{ODP_STYLES[style]}"' if ODP_STYLES[style] else ""
            frames += f'<draw:frame svg:x="1cm" svg:y="{j + 1}cm"><draw:text-box><text:p{st}>{text}</text:p></draw:text-box></draw:frame>'
        note = ""
        if notes and notes[i]:
            where, texts = notes[i]
            nf = "".join(f'<draw:frame presentation:class="notes" svg:x="0cm" svg:y="0.{j}cm"><draw:text-box><text:p>{t}</text:p></draw:text-box></draw:frame>'
                         for j, t in enumerate(texts))
            note = f'<presentation:notes><draw:page-thumbnail presentation:class="page"/>{nf}</presentation:notes>'
            frames = note + frames if where == "first" else frames + note
        pages += f'<draw:page draw:name="s{9 - i}">{frames}</draw:page>'
    buf = io.BytesIO()
    with zipfile.ZipFile(buf, "w") as z:
        z.writestr("mimetype", "application/vnd.oasis.opendocument.presentation")
        z.writestr("content.xml", f'<?xml version="1.0"?><office:document-content {ns}><office:body><office:presentation>{pages}'
                                  '</office:presentation></office:body></office:document-content>')
        z.writestr("meta.xml", f'<?xml version="1.0"?><office:document-meta {ns}><office:meta/></office:document-meta>')
        z.writestr("META-INF/manifest.xml", '<?xml version="1.0"?><manifest:manifest xmlns:manifest="urn:oasis:names:tc:opendocument:xmlns:manifest:1.0"/>')
    return buf.getvalue()


def check_odp_rich(slide_styles, notes=None):
    """notes: per slide None or [placement, number of note paragraphs]: speaker notes are not slide body -- their text is in no unit"""
    from sharepoint2text.parsing.extractors.open_office.odp_extractor import read_odp
    slides = [[(st, f"tok{i}x{j}") for j, st in enumerate(styles)] for i, styles in enumerate(slide_styles)]
    nts = [((n[0], [f"note{i}n{j}" for j in range(n[1])]) if n else None) for i, n in enumerate(notes)] if notes else None
    c = next(read_odp(io.BytesIO(odp_rich_doc(slides, nts))))
    obs = observe(c)
    want = {t: i + 1 for i, ps in enumerate(slides) for (_s, t) in ps}
    why = None if [n for n, _t in obs] == list(range(1, len(slides) + 1)) else f"unit numbers {[n for n, _t in obs]}"
    why = why or token_coverage(obs, want, "paragraph")
    if why is None and nts:
        for n in nts:
            for t in (n[1] if n else ()):
                holders = [k for k, u in obs if t in u]
                if holders:
                    why = f"speaker note {t!r} (not slide body) is found in units {holders}"
                    break
    if why is None and c.get_full_text() != spec_fulltext(obs):
        why = "full text differs from the joined unit texts"
    if why:
        return {"target": "odp_extractor.py::read_odp", "inputs": {"check": "odp_rich", "paragraph_styles_per_slide": slide_styles, "notes_per_slide": notes},
                "expected": "one unit per slide; every paragraph text exactly once, in the unit of its slide; speaker notes in no unit",
                "observed": f"{why}; units={obs!r}", "check": "odp_rich"}
    return None


def sweep_odp_rich():
    keys = list(ODP_STYLES)
    for styles in itertools.chain(itertools.product(keys, repeat=1), itertools.product(keys, repeat=2), itertools.product(["title", "body", "none"], repeat=3)):
        for layout in ([list(styles)], [["body"], list(styles)], [list(styles), list(styles)]):
            r = check_odp_rich(layout)
            if r:
                return r
    for layout in ([["title", "body"]], [["body"], ["none", "body"]], [[], ["body"]]):      # slides with a notes page (also an image-only / empty slide)
        for where in ("last", "first"):
            for k in (1, 2):
                for which in itertools.product([False, True], repeat=len(layout)):
                    if any(which):
                        r = check_odp_rich(layout, [[where, k] if w else None for w in which])
                        if r:
                            return r
    return None


PPTX_PH = {"title": '<p:nvPr><p:ph type="title"/></p:nvPr>', "ctrTitle": '<p:nvPr><p:ph type="ctrTitle"/></p:nvPr>', "body": '<p:nvPr><p:ph type="body" idx="1"/></p:nvPr>',
           "subTitle": '<p:nvPr><p:ph type="subTitle" idx="1"/></p:nvPr>', "textbox": '<p:nvPr/>'}


def pptx_rich_doc(slides):
    buf = io.BytesIO()
    with zipfile.ZipFile(buf, "w") as z:
        z.writestr("[Content_Types].xml", '<?xml version="1.0"?><Types xmlns="http://schemas.openxmlformats.org/package/2006/content-types"/>')
        n = len(slides)
        ids = "".join(f'<p:sldId id="{300 - i}" r:id="rId{i + 1}"/>' for i in range(n))
        z.writestr("ppt/presentation.xml",
                   '<?xml version="1.0"?><p:presentation xmlns:p="http://schemas.openxmlformats.org/presentationml/2006/main" '
                   'xmlns:r="http://schemas.openxmlformats.org/officeDocument/2006/relationships"><p:sldIdLst>' + ids + '</p:sldIdLst></p:presentation>')
        rels = "".join(f'<Relationship Id="rId{i + 1}" Type="http://schemas.openxmlformats.org/officeDocument/2006/relationships/slide" '
                       f'Target="slides/slide{n - i}.xml"/>' for i in range(n))
        z.writestr("ppt/_rels/presentation.xml.rels",
                   '<?xml version="1.0"?><Relationships xmlns="http://schemas.openxmlformats.org/package/2006/relationships">' + rels + '</Relationships>')
        for i, shapes in enumerate(slides):
            sp = ""
            for j, (kind, text) in enumerate(shapes):
                sp += (f'<p:sp><p:nvSpPr><p:cNvPr id="{j + 2}" name="s{j}"/><p:cNvSpPr/>{PPTX_PH[kind]}</p:nvSpPr>'
                       f'<p:spPr><a:xfrm><a:off x="100" y="{(j + 1) * 1000}"/><a:ext cx="10" cy="10"/></a:xfrm></p:spPr>'
                       f'<p:txBody><a:bodyPr/><a:p><a:r><a:t>{text}</a:t></a:r></a:p></p:txBody></p:sp>')
            z.writestr(f"ppt/slides/slide{n - i}.xml",
                       '<?xml version="1.0"?><p:sld xmlns:p="http://schemas.openxmlformats.org/presentationml/2006/main" '
                       'xmlns:a="http://schemas.openxmlformats.org/drawingml/2006/main"><p:cSld><p:spTree>'
                       '<p:nvGrpSpPr><p:cNvPr id="1" name=""/><p:cNvGrpSpPr/><p:nvPr/></p:nvGrpSpPr><p:grpSpPr/>' + sp +
                       '</p:spTree></p:cSld></p:sld>')
    return buf.getvalue()


def check_pptx_rich(slide_kinds):
    from sharepoint2text.parsing.extractors.ms_modern.pptx_extractor import read_pptx
    slides = [[(k, f"tok{i}x{j}") for j, k in enumerate(kinds)] for i, kinds in enumerate(slide_kinds)]
    c = next(read_pptx(io.BytesIO(pptx_rich_doc(slides))))
    obs = observe(c)
    want = {t: i + 1 for i, ps in enumerate(slides) for (_k, t) in ps}
    why = None if [n for n, _t in obs] == list(range(1, len(slides) + 1)) else f"unit numbers {[n for n, _t in obs]}"
    why = why or token_coverage(obs, want, "shape text")
    if why is None and c.get_full_text() != spec_fulltext(obs):
        why = "full text differs from the joined unit texts"
    if why:
        return {"target": "pptx_extractor.py::read_pptx", "inputs": {"check": "pptx_rich", "shape_kinds_per_slide": slide_kinds},
                "expected": "one unit per slide; every shape text exactly once, in the unit of its slide", "observed": f"{why}; units={obs!r}", "check": "pptx_rich"}
    return None


def sweep_pptx_rich():
    keys = list(PPTX_PH)
    for kinds in itertools.chain(itertools.product(keys, repeat=1), itertools.product(keys, repeat=2), itertools.product(["title", "body", "textbox"], repeat=3)):
        for layout in ([list(kinds)], [["body"], list(kinds)]):
            r = check_pptx_rich(layout)
            if r:
                return r
    return None


def eml_bytes(parts, subtype="mixed"):
    from email.mime.multipart import MIMEMultipart
    from email.mime.text import MIMEText
    if len(parts) == 1 and subtype is None:
        m = MIMEText(parts[0][1], parts[0][0])
    else:
        m = MIMEMultipart(subtype or "mixed")
        for st, t in parts:
            m.attach(MIMEText(t, st))
    m["From"], m["To"], m["Subject"] = "a@x.org", "b@x.org", "subj"
    m["Date"], m["Message-ID"] = "Mon, 1 Jan 2024 00:00:00 +0000", "<1@x>"
    return m.as_bytes()


def check_mail_parts(fmt, kinds, subtype="mixed"):
    """kinds: sequence of "plain" / "html" inline text parts.  Statement: the unit of a message holds its body text -- every inline
    part of the body kind that is shown (plain if there is one, else html)."""
    parts = [(k, (f"tok{j}" if k == "plain" else f"<p>tok{j}</p>")) for j, k in enumerate(kinds)]
    raw = eml_bytes(parts, subtype)
    if fmt == "eml":
        from sharepoint2text.parsing.extractors.mail.eml_email_extractor import read_eml_format_mail as reader
        data = raw
    else:
        from sharepoint2text.parsing.extractors.mail.mbox_email_extractor import read_mbox_format_mail as reader
        data = b"From a@x.org Mon Jan  1 00:00:00 2024\n" + raw + b"\n\n"
    res = list(reader(io.BytesIO(data)))
    shown = "plain" if "plain" in kinds else "html"
    want = {f"tok{j}": 1 for j, k in enumerate(kinds) if k == shown}
    why = None
    if len(res) != 1:
        why = f"{len(res)} messages"
    else:
        obs = observe(res[0])
        why = token_coverage(obs, want, f"text/{shown} part") if [n for n, _t in obs] == [1] else f"units {obs!r}"
        if why is None and res[0].get_full_text() != spec_fulltext(obs):
            why = "full text differs from the joined unit texts"
    if why:
        return {"target": f"{fmt}_email_extractor.py::read_{fmt}_format_mail", "inputs": {"check": "mail_parts", "format": fmt, "inline_parts": list(kinds), "subtype": subtype},
                "expected": f"one unit numbered 1 holding every inline text/{shown} part exactly once", "observed": why, "check": "mail_parts"}
    return None


def sweep_mail_parts(fmt, exclude=()):
    for subtype in ("mixed", "alternative"):
        for n in (1, 2, 3):
            for kinds in itertools.product(["plain", "html"], repeat=n):
                feats = mail_features(kinds)
                if set(feats) & set(exclude):
                    continue
                r = check_mail_parts(fmt, list(kinds), subtype)
                if r:
                    r["inputs"]["features"] = feats
                    return r
    return None


def mail_features(kinds):
    shown = "plain" if "plain" in kinds else "html"
    return ["several-inline-parts-of-the-body-kind"] if list(kinds).count(shown) > 1 else []


PDF_LAYOUTS = ("own", "form", "form-shared-stream", "encoding")


def pdf_text_doc(n_pages, unreadable=(), layout="own", blank=()):
    """n pages with one text token each; pages listed in `unreadable` get a content stream pypdf cannot decode.
    pages listed in `blank` have no content at all (scanned sheets without a text layer, separator pages).
    layout: what a page shows is its content stream RESOLVED AGAINST ITS OWN /Resources --
      "own"                 every page has its own content stream with the text in it;
      "form"                every page's content stream is the same wrapper bytes (`q /Fx0 Do Q`, the output of imposition / stamping /
                            import-as-XObject tools), the page's /Resources bind /Fx0 to the form XObject with that page's text;
      "form-shared-stream"  the same, and the wrapper is ONE indirect stream object referenced by every page;
      "encoding"            identical content bytes `<41> Tj`, every page's /F1 has its own /Differences encoding for code 0x41."""
    from pypdf import PdfWriter
    from pypdf.generic import ArrayObject, DictionaryObject, FloatObject, NameObject, NumberObject, StreamObject
    w = PdfWriter()
    mkfont = lambda: DictionaryObject({NameObject("/Type"): NameObject("/Font"), NameObject("/Subtype"): NameObject("/Type1"), NameObject("/BaseFont"): NameObject("/Helvetica")})
    shared = None
    for i in range(n_pages):
        p = w.add_blank_page(width=200, height=200)
        if i in blank:
            continue
        s = StreamObject()
        res = DictionaryObject({NameObject("/Font"): DictionaryObject({NameObject("/F1"): w._add_object(mkfont())})})
        if i in unreadable:
            s[NameObject("/Filter")] = NameObject("/ASCIIHexDecode")
            s._data = b"ZZ not hex >"
        elif layout in ("form", "form-shared-stream"):
            form = StreamObject()
            form._data = f"BT /F1 12 Tf 20 100 Td (tok{i}) Tj ET".encode()
            form[NameObject("/Type")] = NameObject("/XObject")
            form[NameObject("/Subtype")] = NameObject("/Form")
            form[NameObject("/BBox")] = ArrayObject([FloatObject(0), FloatObject(0), FloatObject(200), FloatObject(200)])
            form[NameObject("/Resources")] = res
            res = DictionaryObject({NameObject("/XObject"): DictionaryObject({NameObject("/Fx0"): w._add_object(form)})})
            s._data = b"q 1 0 0 1 0 0 cm /Fx0 Do Q"
        elif layout == "encoding":
            # the glyph names zero .. nine: page i shows the digit i for the one code in the stream (tokens are "tok<i>" elsewhere; here "<i>")
            names = ["zero", "one", "two", "three", "four", "five", "six", "seven", "eight", "nine"]
            f = mkfont()
            f[NameObject("/Encoding")] = DictionaryObject({NameObject("/Type"): NameObject("/Encoding"), NameObject("/BaseEncoding"): NameObject("/WinAnsiEncoding"),
                                                          NameObject("/Differences"): ArrayObject([NumberObject(0x41), NameObject("/" + names[i])])})
            res = DictionaryObject({NameObject("/Font"): DictionaryObject({NameObject("/F1"): w._add_object(f)})})
            s._data = b"BT /F1 12 Tf 20 100 Td (tokA) Tj ET"
        else:
            s._data = f"BT /F1 12 Tf 20 100 Td (tok{i}) Tj ET".encode()
        if layout == "form-shared-stream" and i not in unreadable:
            shared = shared or w._add_object(s)
            p[NameObject("/Contents")] = shared
        else:
            p[NameObject("/Contents")] = w._add_object(s)
        p[NameObject("/Resources")] = res
    buf = io.BytesIO()
    w.write(buf)
    return buf.getvalue()


def check_pdf_text(n_pages, unreadable=(), layout="own", blank=()):
    """A document is either refused as a whole or every page is a unit at its own position (a page that cannot be read must not
    make the later pages move up)."""
    from sharepoint2text.parsing.extractors.pdf.pdf_extractor import read_pdf
    try:
        c = next(read_pdf(io.BytesIO(pdf_text_doc(n_pages, tuple(unreadable), layout, tuple(blank)))))
    except Exception as e:  # noqa  -- refusing the document is allowed (failure surface is C01's)
        if unreadable:
            return None
        return {"target": "pdf_extractor.py::read_pdf", "inputs": {"check": "pdf_text", "pages": n_pages, "unreadable": list(unreadable), "layout": layout, "blank": list(blank)},
                "expected": "a well-formed PDF is extracted", "observed": f"{type(e).__name__}: {e}"[:200], "check": "pdf_text"}
    obs = observe(c)
    want = {f"tok{i}": i + 1 for i in range(n_pages) if i not in unreadable and i not in blank}
    why = None if [n for n, _t in obs] == list(range(1, n_pages + 1)) else f"{n_pages} pages but unit numbers {[n for n, _t in obs]}"
    why = why or token_coverage(obs, want, "page text")
    if why is None:
        full = [n for n, t in obs if n - 1 in blank and t.strip()]
        why = f"page(s) {full} have no content but their units have text" if full else None
    if why is None and c.get_full_text() != spec_fulltext(obs):
        why = "full text differs from the joined unit texts"
    if why:
        return {"target": "pdf_extractor.py::read_pdf", "inputs": {"check": "pdf_text", "pages": n_pages, "unreadable": list(unreadable), "layout": layout, "blank": list(blank)},
                "expected": "one unit per page, numbered by page position, each holding that page's text (or the document is refused)",
                "observed": f"{why}; units={obs!r}", "check": "pdf_text"}
    return None


def sweep_pdf_text():
    r = check_pdf_text(3, (1,))        # the telling case first: an unreadable page in the middle
    if r:
        return r
    for n in (1, 2, 3):
        for k in range(0, n + 1):
            for bad in itertools.combinations(range(n), k):
                r = check_pdf_text(n, bad)
                if r:
                    return r
    for n in (2, 3):                     # pages without content among pages with text
        for k in range(1, n):
            for bl in itertools.combinations(range(n), k):
                r = check_pdf_text(n, (), "own", bl)
                if r:
                    return r
    for layout in PDF_LAYOUTS[1:]:       # pages whose content bytes are identical: what they show comes from their own /Resources
        for n, bad in ((3, ()), (2, ()), (3, (1,)), (3, (0,))):
            r = check_pdf_text(n, bad, layout)
            if r:
                return r
    return None


MBOX_IDS = ("unique", "none", "same", "empty", "first-only", "identical")     # identical: every header line is the same (a message stored twice)


def _mbox_id_line(mode, i):
    """Message-ID header line of message i: the header is OPTIONAL (RFC 5322 3.6: SHOULD) and nothing makes stored messages carry
    distinct ones (drafts, local delivery, cron mail, re-sent list mail); a message is what stands between two separator lines."""
    if mode == "none" or (mode == "first-only" and i > 0):
        return ""
    if mode == "same":
        return "Message-ID: <same@x>\n"
    if mode == "empty":
        return "Message-ID: \n"
    return f"Message-ID: <{i}@x>\n"


def mbox_doc(bodies, pad="\n\n", eol="\n", header_only=(), ids="unique"):
    """Mailbox: every message starts with a `From ` separator LINE (that is the format's definition of a message
    boundary); `pad` is what the writer puts after a body (a blank line, only the line end, nothing more), `eol` the
    line ending; messages listed in header_only have no body at all (they end with their last header line)."""
    out = ""
    for j, b in enumerate(bodies):
        i = 0 if ids == "identical" else j
        out += f"From s{i}@x.org Mon Jan  1 00:00:0{i} 2024\nFrom: s{i}@x.org\nTo: r@x.org\nSubject: m{i}\n" \
               f"Date: Mon, 1 Jan 2024 00:00:0{i} +0000\n" + _mbox_id_line(ids, i)
        i = j
        if i in header_only:
            continue
        out += f"\n{b}{pad}"
    return out.replace("\n", eol).encode()


def check_mbox(bodies, pad="\n\n", eol="\n", header_only=(), loose=False, ids="unique"):
    """loose=True: a body line may come back with one level of '>' quoting removed (mboxrd readers differ); everything else exact"""
    from sharepoint2text.parsing.extractors.mail.mbox_email_extractor import read_mbox_format_mail
    header_only = tuple(header_only)
    data = mbox_doc(bodies, pad, eol, header_only, ids)
    res = list(read_mbox_format_mail(io.BytesIO(data)))
    subj = [m.subject for m in res]
    per = [observe(m) for m in res]
    want = [("" if i in header_only else b.replace("\n", eol).strip()) for i, b in enumerate(bodies)]
    ok = subj == [f"m{0 if ids == 'identical' else i}" for i in range(len(bodies))] \
        and all(len(o) == 1 and o[0][0] == 1 and _same_body(o[0][1].replace("\r\n", "\n"), w.replace("\r\n", "\n"), loose) for o, w in zip(per, want)) \
        and all(m.get_full_text() == spec_fulltext(o) for m, o in zip(res, per))
    if not ok:
        return {"target": "mbox_email_extractor.py::read_mbox_format_mail",
                "inputs": {"check": "mbox", "bodies": bodies, "pad": pad, "eol": eol, "header_only": list(header_only), "loose": loose, "message_ids": ids, "mbox": data.decode()},
                "expected": "one EmailContent per `From ` separator line, in mailbox order, each with one unit numbered 1 holding that message's body",
                "observed": f"{len(res)} message(s): subjects={subj} units={per}", "check": "mbox"}
    return None


def _same_body(got, want, loose):
    if got == want:
        return True
    if not loose:
        return False
    import re
    unq = lambda t: re.sub(r"(?m)^>(>*From )", r"\1", t)
    return unq(got) == unq(want)


def sweep_mbox():
    quoted = [">From bob@x.org Mon Jan  1 00:00:00 2019", "intro\n>From the release notes of 2019\nrest", ">>From a@x.org Tue Jan  2 00:00:00 2024\ntail"]
    for q in quoted:                              # mboxrd quoting: these lines belong to the body, they never start a message
        for bodies in ([q], ["hello", q], [q, "bye"]):
            r = check_mbox(bodies, "\n\n", "\n", (), loose=True)
            if r:
                return r
    pool = ["hello", "", "two\nlines"]
    for pad in ("\n\n", "\n"):                 # blank line after every message / only the line end
        for eol in ("\n", "\r\n"):
            for n in range(1, 4):
                for st in itertools.product(pool, repeat=n):
                    r = check_mbox(list(st), pad, eol)
                    if r:
                        return r
    for ids in MBOX_IDS[1:]:                      # messages without / with repeated Message-ID headers, equal and different bodies
        for bodies in (["hello", "", "two\nlines"], ["hello", "hello"], ["a", "b", "a"]):
            r = check_mbox(bodies, "\n\n", "\n", (), ids=ids)
            if r:
                return r
    for ho in ((0,), (1,), (0, 1)):               # messages without a body
        for eol in ("\n", "\r\n"):
            r = check_mbox(["a", "b", "c"], "\n\n", eol, ho)
            if r:
                return r
    return None


# ---- dispatch ----------------------------------------------------------------------------------------
# ---- round 7: slide text accessors and the xlsx "cell carries data" predicate (verified contracts) -----------------
def check_slide_text(cls, title, body, other):
    dt = _dt()
    slide = getattr(dt, cls)(slide_number=1, title=title, body_text=list(body), other_text=list(other))
    got = slide.text_combined
    want = "\n".join(([title] if title else []) + list(body) + list(other))
    if got != want:
        return {"target": f"data_types.py::{cls}.text_combined", "inputs": {"class": cls, "title": title, "body_text": list(body), "other_text": list(other)},
                "expected": repr(want), "observed": repr(got), "check": "slide_text"}
    return None


def sweep_slide_text(cls):
    titles = ["", "T"] + ([None] if cls == "PptSlideContent" else [])
    lists = [[], ["b1"], ["b1", "b2"]]
    for title in titles:
        for body in lists:
            for other in ([], ["o1"], ["o1", "o2"]):
                r = check_slide_text(cls, title, body, other)
                if r:
                    return r
    return None


def check_pptx_text(base, formulas, descriptions, captions):
    """PptxSlide.get_text against the documented composition: base text, one piece per formula, one caption per described image"""
    dt = _dt()
    slide = dt.PptxSlide(slide_number=1, base_text=base, text=base,
                         formulas=[dt.PptxFormula(latex=l, is_display=bool(d)) for l, d in formulas],
                         images=[dt.PptxImage(image_index=i + 1, description=d) for i, d in enumerate(descriptions)])
    got = slide.get_text(include_image_captions=captions)
    want = ([base] if base else []) + [(f"$${l}$$" if d else f"${l}$") for l, d in formulas]
    if captions:
        want += [f"[Image: {d}]" for d in descriptions if d]
    want = "\n".join(want)
    if got != want:
        return {"target": "data_types.py::PptxSlide.get_text", "inputs": {"base_text": base, "formulas": [list(f) for f in formulas],
                                                                          "image_descriptions": list(descriptions), "include_image_captions": captions},
                "expected": repr(want), "observed": repr(got), "check": "pptx_text"}
    return None


def sweep_pptx_text():
    fs = [("x", 0), ("y", 1)]
    for base in ("", "B", "d1"):
        for nf in range(0, 3):
            for formulas in itertools.product(fs, repeat=nf):
                for ni in range(0, 4):
                    for descs in itertools.product(("", "d1", "d2"), repeat=ni):
                        for captions in (False, True):
                            r = check_pptx_text(base, list(formulas), list(descs), captions)
                            if r:
                                return r
    return None


CELL_VALUES = [(None, False), ("", False), (" ", False), ("\n\t", False), ("x", True), (" x ", True), (0, True), (0.0, True), (False, True), (7, True)]


def check_cell_non_empty(i):
    from sharepoint2text.parsing.extractors.ms_modern import xlsx_extractor
    v, want = CELL_VALUES[i]
    got = xlsx_extractor._is_cell_non_empty(v)
    if bool(got) != want or not isinstance(got, bool):
        return {"target": "xlsx_extractor.py::_is_cell_non_empty", "inputs": {"value_index": i, "value": repr(v)}, "expected": repr(want),
                "observed": repr(got), "check": "cell_non_empty"}
    return None


def sweep_cell_non_empty():
    for i in range(len(CELL_VALUES)):
        r = check_cell_non_empty(i)
        if r:
            return r
    return None


def sweeps_for(target):
    t = target or ""
    out = []
    for cls in ("PptSlideContent", "OdpSlide"):
        if f"{cls}.text_combined" in t:
            out.append(("slide_text:" + cls, lambda cls=cls: sweep_slide_text(cls)))
    if "_is_cell_non_empty" in t:
        out.append(("cell_non_empty", sweep_cell_non_empty))
    if "PptxSlide.get_text" in t:
        out.append(("pptx_text", sweep_pptx_text))
    for cls in _paged():
        if f"{cls}." in t:
            out.append(("paged:" + cls, lambda cls=cls: sweep_paged(cls)))
            if cls == "RtfContent":
                out.append(("rtf", sweep_rtf))
    for cls in ("PlainTextContent", "HtmlContent", "OdgContent", "OdfContent", "EmailContent"):
        if f"{cls}." in t:
            out.append(("single:" + cls, lambda cls=cls: sweep_single(cls)))
    for cls in ("DocContent", "DocxContent", "OdtContent"):
        if f"{cls}." in t or f"[{cls}]" in t:
            out.append(("heading:" + cls, lambda cls=cls: sweep_heading(cls)))
            out.append(("sections:" + cls, lambda cls=cls: sweep_sections(cls, exclude=EXCLUDE.get(cls) or _recorded(cls))))
    if "_join_unit_text" in t:
        out.append(("join", sweep_join))
    if "_build_slides_from_text_blocks" in t:
        out.append(("ppt_build", sweep_ppt_build))
    if "_parse_ppt_document" in t or "_extract_ppt_content_structured" in t or "_distribute_images" in t:
        out.append(("ppt_parse", sweep_ppt_parse))
        out.append(("ppt_fixture", check_ppt_fixture))
    if "rtf_extractor" in t or "flush_page" in t:
        out.append(("rtf", sweep_rtf))
    if "pptx_extractor" in t:
        out.append(("pptx", sweep_pptx))
        out.append(("pptx_rich", sweep_pptx_rich))
    if "odp_extractor" in t:
        out.append(("odp", sweep_odp))
        out.append(("odp_rich", sweep_odp_rich))
    if "epub_extractor" in t:
        out.append(("epub", sweep_epub))
        out.append(("epub_rich", sweep_epub_rich))
        out.append(("epub_soup", sweep_epub_soup))
    if "pdf_extractor" in t:
        out.append(("pdf", sweep_pdf))
        out.append(("pdf_text", sweep_pdf_text))
    if "eml_email_extractor" in t or "EmailContent." in t:
        out.append(("mail_parts:eml", lambda: sweep_mail_parts("eml")))
    if "mbox_email_extractor" in t:
        out.append(("mail_parts:mbox", lambda: sweep_mail_parts("mbox", exclude=EXCLUDE.get("mbox") or _recorded("mbox"))))
    if "xlsx_extractor" in t:
        out.append(("xlsx", lambda: sweep_sheets("xlsx")))
    if "ods_extractor" in t:
        out.append(("ods", lambda: sweep_sheets("ods")))
    if "mbox" in t:
        out.append(("mbox", sweep_mbox))
    return out


def all_sweeps():
    out = []
    for cls in _paged():
        out.append(("paged:" + cls, lambda cls=cls: sweep_paged(cls)))
    for cls in ("PlainTextContent", "HtmlContent", "OdgContent", "OdfContent", "EmailContent"):
        out.append(("single:" + cls, lambda cls=cls: sweep_single(cls)))
    for cls in ("DocContent", "DocxContent", "OdtContent"):
        out.append(("heading:" + cls, lambda cls=cls: sweep_heading(cls)))
        out.append(("sections:" + cls, lambda cls=cls: sweep_sections(cls, exclude=_recorded(cls))))
    out += [("join", sweep_join), ("ppt_build", sweep_ppt_build), ("ppt_parse", sweep_ppt_parse), ("ppt_fixture", check_ppt_fixture),
            ("rtf", sweep_rtf), ("pptx", sweep_pptx), ("odp", sweep_odp), ("epub", sweep_epub), ("pdf", sweep_pdf), ("mbox", sweep_mbox),
            ("xlsx", lambda: sweep_sheets("xlsx")), ("ods", lambda: sweep_sheets("ods")),
            ("odp_rich", sweep_odp_rich), ("pptx_rich", sweep_pptx_rich), ("pdf_text", sweep_pdf_text), ("epub_rich", sweep_epub_rich), ("epub_soup", sweep_epub_soup),
            ("ppt_tokens", sweep_ppt_tokens), ("flowing:txt", lambda: sweep_flowing("txt")), ("flowing:html", lambda: sweep_flowing("html")),
            ("mail_parts:eml", lambda: sweep_mail_parts("eml")), ("mail_parts:mbox", lambda: sweep_mail_parts("mbox", exclude=_recorded("mbox")))]
    out += [("slide_text:PptSlideContent", lambda: sweep_slide_text("PptSlideContent")), ("slide_text:OdpSlide", lambda: sweep_slide_text("OdpSlide")),
            ("cell_non_empty", sweep_cell_non_empty), ("pptx_text", sweep_pptx_text)]
    return out


EXCLUDE = {}      # class -> features excluded by recorded findings (filled from the request)


def _recorded(cls):
    import json
    try:
        kf = json.load(open(os.path.join(os.path.dirname(os.path.dirname(os.path.abspath(__file__))), "known_findings.json")))["findings"]
    except (OSError, ValueError, KeyError):
        return ()
    return sorted({x for f in kf if f.get("property") == "C03" and f.get("class") == cls for x in f.get("exclusion", [])})


def check_epub_rich(chapter_shapes):
    """chapters given as lists of block kinds (h1 / p / li): every block text exactly once, in the unit of its chapter"""
    from sharepoint2text.parsing.extractors.epub_extractor import read_epub
    chapters = []
    for i, kinds in enumerate(chapter_shapes):
        body = ""
        for j, k in enumerate(kinds):
            t = f"tok{i}x{j}"
            body += f"<ul><li>{t}</li></ul>" if k == "li" else f"<{k}>{t}</{k}>"
        chapters.append(body)
    buf = io.BytesIO()
    with zipfile.ZipFile(buf, "w") as z:
        z.writestr("mimetype", "application/epub+zip")
        z.writestr("META-INF/container.xml", '<?xml version="1.0"?><container version="1.0" xmlns="urn:oasis:names:tc:opendocument:xmlns:container">'
                                             '<rootfiles><rootfile full-path="OEBPS/content.opf" media-type="application/oebps-package+xml"/></rootfiles></container>')
        items = "".join(f'<item id="c{i}" href="c{i}.xhtml" media-type="application/xhtml+xml"/>' for i in range(len(chapters)))
        refs = "".join(f'<itemref idref="c{i}"/>' for i in range(len(chapters)))
        z.writestr("OEBPS/content.opf", '<?xml version="1.0"?><package xmlns="http://www.idpf.org/2007/opf" version="3.0" unique-identifier="id">'
                                        '<metadata xmlns:dc="http://purl.org/dc/elements/1.1/"><dc:title>T</dc:title><dc:identifier id="id">x</dc:identifier></metadata>'
                                        f'<manifest>{items}</manifest><spine>{refs}</spine></package>')
        for i, b in enumerate(chapters):
            z.writestr(f"OEBPS/c{i}.xhtml", f'<?xml version="1.0"?><html xmlns="http://www.w3.org/1999/xhtml"><head><title>c{i}</title></head><body>{b}</body></html>')
    c = next(read_epub(io.BytesIO(buf.getvalue())))
    obs = observe(c)
    want = {f"tok{i}x{j}": i + 1 for i, kinds in enumerate(chapter_shapes) for j in range(len(kinds))}
    why = None if [n for n, _t in obs] == list(range(1, len(chapter_shapes) + 1)) else f"unit numbers {[n for n, _t in obs]}"
    why = why or token_coverage(obs, want, "block")
    if why is None and c.get_full_text() != spec_fulltext(obs):
        why = "full text differs from the joined unit texts"
    if why:
        return {"target": "epub_extractor.py::read_epub", "inputs": {"check": "epub_rich", "blocks_per_chapter": chapter_shapes},
                "expected": "one unit per chapter; every block text exactly once, in the unit of its chapter", "observed": f"{why}; units={obs!r}", "check": "epub_rich"}
    return None


EPUB_SOUP = {"object": "<p>{t}</p><object data='x'>", "noscript": "<p>{t}</p><noscript>", "iframe": "<p>{t}</p><iframe src='x'>",
             "td": "<p>{t}</p><table><tr><td>cell", "title": "<p>{t}</p><title>late", "script": "<p>{t}</p><script>var a = 1;", "style": "<p>{t}</p><style>p {{}}"}


def check_epub_soup(kind, n_after=2):
    """chapter 1 ends inside an element that is never closed; the text of the FOLLOWING chapters must still be in their units"""
    from sharepoint2text.parsing.extractors.epub_extractor import read_epub
    bodies = [EPUB_SOUP[kind].format(t="tok0")] + [f"<p>tok{i}</p>" for i in range(1, n_after + 1)]
    buf = io.BytesIO()
    with zipfile.ZipFile(buf, "w") as z:
        z.writestr("mimetype", "application/epub+zip")
        z.writestr("META-INF/container.xml", '<?xml version="1.0"?><container version="1.0" xmlns="urn:oasis:names:tc:opendocument:xmlns:container">'
                                             '<rootfiles><rootfile full-path="OEBPS/content.opf" media-type="application/oebps-package+xml"/></rootfiles></container>')
        items = "".join(f'<item id="c{i}" href="c{i}.xhtml" media-type="application/xhtml+xml"/>' for i in range(len(bodies)))
        refs = "".join(f'<itemref idref="c{i}"/>' for i in range(len(bodies)))
        z.writestr("OEBPS/content.opf", '<?xml version="1.0"?><package xmlns="http://www.idpf.org/2007/opf" version="3.0" unique-identifier="id">'
                                        '<metadata xmlns:dc="http://purl.org/dc/elements/1.1/"><dc:title>T</dc:title><dc:identifier id="id">x</dc:identifier></metadata>'
                                        f'<manifest>{items}</manifest><spine>{refs}</spine></package>')
        for i, b in enumerate(bodies):
            z.writestr(f"OEBPS/c{i}.xhtml", f'<html><head></head><body>{b}</body></html>' if i == 0 else
                       f'<?xml version="1.0"?><html xmlns="http://www.w3.org/1999/xhtml"><head><title>c{i}</title></head><body>{b}</body></html>')
    c = next(read_epub(io.BytesIO(buf.getvalue())))
    obs = observe(c)
    want = {f"tok{i}": i + 1 for i in range(1, n_after + 1)}        # (what a reader makes of the broken chapter itself is not judged)
    why = None if [n for n, _t in obs] == list(range(1, len(bodies) + 1)) else f"unit numbers {[n for n, _t in obs]}"
    why = why or token_coverage(obs, want, "paragraph of a later chapter")
    if why:
        return {"target": "epub_extractor.py::read_epub", "inputs": {"check": "epub_soup", "unclosed": kind, "chapters_after": n_after},
                "expected": "the chapters after a malformed content document are units of their own holding their own text", "observed": f"{why}; units={obs!r}",
                "check": "epub_soup"}
    return None


def sweep_epub_soup():
    for kind in EPUB_SOUP:
        r = check_epub_soup(kind)
        if r:
            return r
    return None


def sweep_epub_rich():
    for kinds in itertools.chain(itertools.product(["h1", "p", "li"], repeat=2), itertools.product(["h1", "p", "li"], repeat=3)):
        for layout in ([list(kinds)], [["p"], list(kinds)]):
            r = check_epub_rich(layout)
            if r:
                return r
    return None


def check_ppt_tokens(slide_counts, loose=0):
    """legacy ppt record stream: slide k carries slide_counts[k] text atoms; every atom text exactly once in the unit of its slide"""
    from sharepoint2text.parsing.extractors.ms_legacy import ppt_extractor as P
    dt = _dt()
    slides = [[f"tok{i}x{j}" for j in range(n)] for i, n in enumerate(slide_counts)]
    data = ppt_stream(slides, [f"loose{j}" for j in range(loose)])
    content = dt.PptContent()
    P._parse_ppt_document(data, content)
    obs = observe(content)
    want = {t: i + 1 for i, ts in enumerate(slides) for t in ts}
    why = token_coverage(obs, want, "text atom")
    if why:
        return {"target": "ppt_extractor.py::_parse_ppt_document", "inputs": {"check": "ppt_tokens", "text_atoms_per_slide": list(slide_counts), "loose": loose},
                "expected": "every text atom of a slide exactly once, in the unit of that slide", "observed": f"{why}; units={obs!r}", "check": "ppt_tokens"}
    return None


def sweep_ppt_tokens():
    for n in (1, 2, 3):
        for counts in itertools.product([1, 2, 3], repeat=n):
            r = check_ppt_tokens(list(counts))
            if r:
                return r
    return None


def check_flowing(fmt, paragraphs):
    """plain text / html: one unit numbered 1 holding every paragraph exactly once"""
    toks = [f"tok{j}" for j in range(paragraphs)]
    if fmt == "txt":
        from sharepoint2text.parsing.extractors.plain_extractor import read_plain_text as reader
        data = ("\n\n".join(toks) + "\n").encode()
    else:
        from sharepoint2text.parsing.extractors.html_extractor import read_html as reader
        data = ("<html><head><title>t</title></head><body>" + "".join(f"<p>{t}</p>" if j % 2 == 0 else f"<div>{t}</div>" for j, t in enumerate(toks)) + "</body></html>").encode()
    c = next(reader(io.BytesIO(data)))
    obs = observe(c)
    why = token_coverage(obs, {t: 1 for t in toks}, "paragraph") if [n for n, _t in obs] == [1] else f"units {obs!r}"
    if why is None and c.get_full_text() != spec_fulltext(obs):
        why = "full text differs from the joined unit texts"
    if why:
        return {"target": f"{'plain' if fmt == 'txt' else 'html'}_extractor.py::read", "inputs": {"check": "flowing", "format": fmt, "paragraphs": paragraphs},
                "expected": "one unit numbered 1 holding every paragraph exactly once", "observed": why, "check": "flowing"}
    return None


def sweep_flowing(fmt):
    for n in (0, 1, 2, 3):
        r = check_flowing(fmt, n)
        if r:
            return r
    return None


DOCUMENT_SCOPES = {
    # format -> native sweeps over generated documents (read with the real extractor): numbering, order, token coverage, full text
    "pdf": lambda: sweep_pdf() or sweep_pdf_text(),
    "pptx": lambda: sweep_pptx() or sweep_pptx_rich(),
    "odp": lambda: sweep_odp() or sweep_odp_rich(),
    "epub": lambda: sweep_epub() or sweep_epub_rich() or sweep_epub_soup(),
    "txt": lambda: sweep_flowing("txt"),
    "html": lambda: sweep_flowing("html"),
    "rtf": lambda: sweep_rtf(),
    "xlsx": lambda: sweep_sheets("xlsx"),
    "ods": lambda: sweep_sheets("ods"),
    "eml": lambda: sweep_mail_parts("eml", exclude=EXCLUDE.get("eml", ())),
    "mbox": lambda: sweep_mbox() or sweep_mail_parts("mbox", exclude=EXCLUDE.get("mbox") or _recorded("mbox")),
    "ppt": lambda: sweep_ppt_parse() or sweep_ppt_tokens() or check_ppt_fixture(),
}


def find(req):
    import logging
    logging.disable(logging.CRITICAL)
    EXCLUDE.clear()
    EXCLUDE.update(req.get("exclude_features") or {})
    if req.get("scope") == "documents":
        out = {}
        for fmt, fn in DOCUMENT_SCOPES.items():
            try:
                out[fmt] = fn()
            except Exception as e:  # noqa
                import traceback
                out[fmt] = {"error": traceback.format_exc()[-600:]}
        return {"reproduced": any(v and "error" not in v for v in out.values()), "results": out}
    if "[documents:" in (req.get("obligation") or ""):
        fmt = req["obligation"].split("[documents:")[1].split("]")[0]
        r = DOCUMENT_SCOPES[fmt]()
        return dict(r or {}, reproduced=r is not None, found_by=f"native document scope `{fmt}`")
    if req.get("known_finding"):
        w = req.get("witness") or {}
        if w.get("check") == "mail_parts":
            r = check_mail_parts(w["format"], w["inline_parts"], w.get("subtype", "mixed"))
        else:
            r = check_sections(w["class"], w["paragraphs"])
        return dict(r or {}, reproduced=r is not None)
    target = (req.get("function") or "") + " " + (req.get("obligation") or "")
    sw = sweeps_for(target)
    if not sw:
        return {"reproduced": False, "note": f"no native check registered for {target.strip()}"}
    ran = []
    for name, fn in sw:
        r = fn()
        ran.append(name)
        if r:
            r.update(reproduced=True, found_by=f"native small-scope sweep `{name}`")
            return r
    return {"reproduced": False, "note": f"native sweeps {ran} found no failing input"}


def rerun(stored):
    import logging
    logging.disable(logging.CRITICAL)
    inp, chk = stored.get("inputs", {}), stored.get("check")
    r = None
    if chk == "paged":
        r = check_paged(inp["class"], inp["element_texts"], inp.get("kwargs"))
    elif chk == "single":
        r = check_single(inp["class"], inp["text"], inp.get("html", ""))
    elif chk == "join":
        r = check_join(inp["unit_texts"])
    elif chk == "slide_text":
        r = check_slide_text(inp["class"], inp["title"], inp["body_text"], inp["other_text"])
    elif chk == "cell_non_empty":
        r = check_cell_non_empty(inp["value_index"])
    elif chk == "pptx_text":
        r = check_pptx_text(inp["base_text"], [tuple(f) for f in inp["formulas"]], inp["image_descriptions"], inp["include_image_captions"])
    elif chk == "epub_soup":
        r = check_epub_soup(inp["unclosed"], inp.get("chapters_after", 2))
    elif chk == "epub_rich":
        r = check_epub_rich(inp["blocks_per_chapter"])
    elif chk == "ppt_tokens":
        r = check_ppt_tokens(inp["text_atoms_per_slide"], inp.get("loose", 0))
    elif chk == "flowing":
        r = check_flowing(inp["format"], inp["paragraphs"])
    elif chk == "odp_rich":
        r = check_odp_rich(inp["paragraph_styles_per_slide"], inp.get("notes_per_slide"))
    elif chk == "pptx_rich":
        r = check_pptx_rich(inp["shape_kinds_per_slide"])
    elif chk == "mail_parts":
        r = check_mail_parts(inp["format"], inp["inline_parts"], inp.get("subtype", "mixed"))
    elif chk == "pdf_text":
        r = check_pdf_text(inp["pages"], inp.get("unreadable", ()), inp.get("layout", "own"), inp.get("blank", ()))
    elif chk == "sheets":
        r = check_sheets(inp["format"], inp["sheet_kinds"])
    elif chk == "sections":
        r = check_sections(inp["class"], inp["paragraphs"])
    elif chk == "heading":
        r = check_heading(inp["class"], inp["paragraph_kinds"])
    elif chk == "ppt_parse":
        r = check_ppt_parse(inp["slide_list_texts"], inp["texts_outside_slide_list"])
    elif chk == "ppt_build":
        r = check_ppt_build([[tuple(b) for b in s] for s in inp["slides_texts"]])
    elif chk == "ppt_fixture":
        r = check_ppt_fixture()
    elif chk == "rtf":
        r = check_rtf(inp["page_texts"])
    elif chk == "pptx":
        r = check_pptx(inp["slide_texts"])
    elif chk == "odp":
        r = check_odp(inp["slide_texts"])
    elif chk == "epub":
        r = check_epub(inp["chapter_texts"])
    elif chk == "pdf":
        r = check_pdf(inp["blank_pages"])
    elif chk == "mbox":
        r = check_mbox(inp["bodies"], inp.get("pad", "\n\n"), inp.get("eol", "\n"), inp.get("header_only", ()), inp.get("loose", False), inp.get("message_ids", "unique"))
    if r:
        r["reproduced"] = True
        return r
    return {"reproduced": False, "inputs": inp}


if __name__ == "__main__":
    # stand-alone: run every native sweep against $VERIF_REPO (default /repo)
    sys.path.insert(0, os.environ.get("VERIF_REPO", "/repo"))
    import logging
    logging.disable(logging.CRITICAL)
    bad = 0
    for name, fn in all_sweeps():
        r = fn()
        print(name, "OK" if r is None else f"FAIL {r['target']} inputs={r['inputs']} expected={r['expected']} observed={r['observed']}"[:600])
        bad += r is not None
    sys.exit(1 if bad else 0)
