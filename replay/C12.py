"""Native replay for C12: explicit limits at their boundaries, and the recorded amplification /
oversize-member findings (witnesses built in memory, kept small enough to run in seconds)."""
import builtins
import io
import os
import tempfile
import zipfile

NS = ('xmlns:office="urn:oasis:names:tc:opendocument:xmlns:office:1.0" xmlns:table="urn:oasis:names:tc:opendocument:xmlns:table:1.0" '
      'xmlns:text="urn:oasis:names:tc:opendocument:xmlns:text:1.0"')


def ods(body_rows):
    content = (f'<?xml version="1.0"?><office:document-content {NS}><office:body><office:spreadsheet>'
               f'<table:table table:name="S">{body_rows}</table:table></office:spreadsheet></office:body></office:document-content>')
    buf = io.BytesIO()
    with zipfile.ZipFile(buf, "w", zipfile.ZIP_DEFLATED) as z:
        z.writestr("mimetype", "application/vnd.oasis.opendocument.spreadsheet")
        z.writestr("content.xml", content)
        z.writestr("META-INF/manifest.xml", '<?xml version="1.0"?><manifest:manifest xmlns:manifest="urn:oasis:names:tc:opendocument:xmlns:manifest:1.0"/>')
    return buf.getvalue()


def cell(v, attrs=""):
    return f'<table:table-cell office:value-type="string" {attrs}><text:p>{v}</text:p></table:table-cell>'


def finding(fid):
    from sharepoint2text.parsing.extractors.open_office.ods_extractor import read_ods
    if fid == "F11-cell-repeat":
        data = ods(f'<table:table-row>{cell("x", "table:number-columns-repeated=" + chr(34) + "400000" + chr(34))}</table:table-row>')
        r = list(read_ods(io.BytesIO(data), "a.ods"))[0]
        n = sum(len(row) for s in r.sheets for row in s.data)
        return n > 1000 * len(data) / 8, {"input_bytes": len(data), "attribute": "table:number-columns-repeated=400000"}, f"{n} cells materialised from {len(data)} input bytes"
    if fid == "F11-row-repeat":
        data = ods(f'<table:table-row table:number-rows-repeated="200000">{cell("x")}</table:table-row>')
        r = list(read_ods(io.BytesIO(data), "a.ods"))[0]
        n = sum(len(s.data) for s in r.sheets)
        return n > 1000 * len(data) / 8, {"input_bytes": len(data), "attribute": "table:number-rows-repeated=200000"}, f"{n} rows materialised from {len(data)} input bytes"
    if fid == "F11-text-s":
        data = ods(f'<table:table-row><table:table-cell office:value-type="string"><text:p>a<text:s text:c="3000000"/>b</text:p></table:table-cell></table:table-row>')
        r = list(read_ods(io.BytesIO(data), "a.ods"))[0]
        n = len(r.get_full_text())
        return n > 1000 * len(data), {"input_bytes": len(data), "attribute": "text:s text:c=3000000"}, f"{n} characters of text from {len(data)} input bytes"
    if fid == "F12-7z-oversize-members-decompressed":
        from sharepoint2text.parsing.extractors import archive_extractor as ae
        repo = os.environ.get("VERIF_REPO", "/repo")
        data = open(os.path.join(repo, "sharepoint2text/tests/resources/archives/test_archive.7z"), "rb").read()
        written = []
        real_open = builtins.open
        def spy(file, mode="r", *a, **k):
            if "w" in str(mode):
                written.append(str(file))
            return real_open(file, mode, *a, **k)
        old = ae._config
        ae.configure_archive_extraction(max_memory_size=1)
        builtins.open = spy
        try:
            res = list(ae.read_archive(io.BytesIO(data), "t.7z"))
        finally:
            builtins.open = real_open
            ae._config = old
        return (not res) and len(written) > 0, {"archive": "tests/resources/archives/test_archive.7z", "max_memory_size": 1}, \
            f"{len(res)} results (all members above the limit) but {len(written)} member files were decompressed and written to disk"
    return False, {}, "unknown finding"


def limits():
    import sharepoint2text
    from sharepoint2text.parsing.exceptions import ExtractionFileTooLargeError
    with tempfile.TemporaryDirectory() as d:
        p = os.path.join(d, "a.txt")
        open(p, "wb").write(b"x" * 100)
        for lim, want in ((99, "too-large"), (100, "ok"), (101, "ok"), (0, "ok"), (-5, "ok"), (1, "too-large")):
            try:
                list(sharepoint2text.read_file(p, max_file_size=lim))
                got = "ok"
            except ExtractionFileTooLargeError:
                got = "too-large"
            except Exception as e:  # noqa
                got = type(e).__name__
            if got != want:
                return {"target": "sharepoint2text/__init__.py::read_file", "inputs": {"file_size": 100, "max_file_size": lim}, "expected": want, "observed": got}
    from sharepoint2text.parsing.extractors import archive_extractor as ae
    repo = os.environ.get("VERIF_REPO", "/repo")
    data = open(os.path.join(repo, "sharepoint2text/tests/resources/archives/test_archive.7z"), "rb").read()
    old = ae.MAX_7Z_FILE_SIZE
    try:
        for lim, want in ((len(data) - 1, "too-large"), (len(data), "ok"), (len(data) + 1, "ok")):
            ae.MAX_7Z_FILE_SIZE = lim
            try:
                list(ae.read_archive(io.BytesIO(data), "t.7z"))
                got = "ok"
            except ExtractionFileTooLargeError:
                got = "too-large"
            except Exception as e:  # noqa
                got = type(e).__name__
            if got != want:
                return {"target": "archive_extractor.py::_extract_from_7z_optimized", "inputs": {"archive_size": len(data), "limit": lim}, "expected": want, "observed": got}
    finally:
        ae.MAX_7Z_FILE_SIZE = old
    return None


def find(req):
    if req.get("known_finding"):
        ok, inputs, obs = finding(req["known_finding"])
        return {"reproduced": bool(ok), "inputs": inputs, "observed": obs,
                "expected": "cost bounded by a fixed multiple of the input size / oversize members not decompressed"}
    r = limits()
    if r is not None:
        r["reproduced"] = True
        return r
    ob = req.get("obligation", "")
    for fid, key in (("F11-cell-repeat", "amp-bounded#repeat-site"), ("F11-row-repeat", "amp-bounded#repeat-site"), ("F11-text-s", "_append_element_text/amp-bounded"),
                     ("F12-7z-oversize-members-decompressed", "oversize-members-are-not-decompressed")):
        if key in ob:
            ok, inputs, obs = finding(fid)
            if ok:
                return {"reproduced": True, "target": ob, "inputs": inputs, "observed": obs,
                        "expected": "cost bounded by a fixed multiple of the input size / oversize members not decompressed"}
    return {"reproduced": False, "note": "explicit limits hold at their boundaries natively"}


def rerun(stored):
    return find({"obligation": stored.get("obligation", "")})
