"""Native replay for C12: explicit limits at their boundaries, and the recorded amplification /
oversize-member findings (witnesses built in memory, kept small enough to run in seconds)."""
import builtins
import io
import os
import tempfile
import zipfile

NS = ('xmlns:office="urn:oasis:names:tc:opendocument:xmlns:office:1.0" xmlns:table="urn:oasis:names:tc:opendocument:xmlns:table:1.0" '
      'xmlns:text="urn:oasis:names:tc:opendocument:xmlns:text:1.0"')


def ods(body_rows):
    content = (f'<?xml version="1.0"?><office:document-content {NS}><office:body><office:spreadsheet>'
               f'<table:table table:name="S">{body_rows}</table:table></office:spreadsheet></office:body></office:document-content>')
    buf = io.BytesIO()
    with zipfile.ZipFile(buf, "w", zipfile.ZIP_DEFLATED) as z:
        z.writestr("mimetype", "application/vnd.oasis.opendocument.spreadsheet")
        z.writestr("content.xml", content)
        z.writestr("META-INF/manifest.xml", '<?xml version="1.0"?><manifest:manifest xmlns:manifest="urn:oasis:names:tc:opendocument:xmlns:manifest:1.0"/>')
    return buf.getvalue()


def cell(v, attrs=""):
    return f'<table:table-cell office:value-type="string" {attrs}><text:p>{v}</text:p></table:table-cell>'


def finding(fid):
    from sharepoint2text.parsing.extractors.open_office.ods_extractor import read_ods
    if fid == "F11-cell-repeat":
        data = ods(f'<table:table-row>{cell("x", "table:number-columns-repeated=" + chr(34) + "400000" + chr(34))}</table:table-row>')
        r = list(read_ods(io.BytesIO(data), "a.ods"))[0]
        n = sum(len(row) for s in r.sheets for row in s.data)
        return n > 1000 * len(data) / 8, {"input_bytes": len(data), "attribute": "table:number-columns-repeated=400000"}, f"{n} cells materialised from {len(data)} input bytes"
    if fid == "F11-row-repeat":
        data = ods(f'<table:table-row table:number-rows-repeated="200000">{cell("x")}</table:table-row>')
        r = list(read_ods(io.BytesIO(data), "a.ods"))[0]
        n = sum(len(s.data) for s in r.sheets)
        return n > 1000 * len(data) / 8, {"input_bytes": len(data), "attribute": "table:number-rows-repeated=200000"}, f"{n} rows materialised from {len(data)} input bytes"
    if fid == "F11-text-s":
        data = ods(f'<table:table-row><table:table-cell office:value-type="string"><text:p>a<text:s text:c="3000000"/>b</text:p></table:table-cell></table:table-row>')
        r = list(read_ods(io.BytesIO(data), "a.ods"))[0]
        n = len(r.get_full_text())
        return n > 1000 * len(data), {"input_bytes": len(data), "attribute": "text:s text:c=3000000"}, f"{n} characters of text from {len(data)} input bytes"
    if fid == "F12-7z-oversize-members-decompressed":
        from sharepoint2text.parsing.extractors import archive_extractor as ae
        repo = os.environ.get("VERIF_REPO", "/repo")
        data = open(os.path.join(repo, "sharepoint2text/tests/resources/archives/test_archive.7z"), "rb").read()
        written = []
        real_open = builtins.open
        def spy(file, mode="r", *a, **k):
            if "w" in str(mode):
                written.append(str(file))
            return real_open(file, mode, *a, **k)
        old = ae._config
        ae.configure_archive_extraction(max_memory_size=1)
        builtins.open = spy
        try:
            res = list(ae.read_archive(io.BytesIO(data), "t.7z"))
        finally:
            builtins.open = real_open
            ae._config = old
        return (not res) and len(written) > 0, {"archive": "tests/resources/archives/test_archive.7z", "max_memory_size": 1}, \
            f"{len(res)} results (all members above the limit) but {len(written)} member files were decompressed and written to disk"
    return False, {}, "unknown finding"



# ------------------------------------------------------ cost amplifiers --
def _nested_png(k):
    """k PNG signatures, each opening one chunk that ends exactly in front of one shared IEND chunk: every signature carves a PNG
    that reaches to the end, so overlapping carving copies ~k/2 times the input."""
    import struct
    sig = b"\x89PNG\r\n\x1a\n"
    P = 16 * k + 4
    out = bytearray()
    for j in range(k):
        out += sig + struct.pack(">I", P - 4 - 16 * (j + 1)) + b"daTa"
    out += b"\0\0\0\0" + struct.pack(">I", 0) + b"IEND" + b"\0\0\0\0"
    return bytes(out)


def amp_png():
    from sharepoint2text.parsing.extractors.ms_legacy.doc_extractor import _DocReader
    data = _nested_png(600)
    imgs = _DocReader._extract_png_images_from_bytes(data)
    total = sum(len(i.data) for i in imgs)
    return total > 4 * len(data), {"builder": "600 nested PNG signatures sharing one IEND chunk", "input_bytes": len(data)}, \
        f"{len(imgs)} carved images, {total} bytes of image data from {len(data)} input bytes"


def _overlapping_dibs(k, claimed):
    """k BITMAPINFOHEADERs (1x1, 24 bpp, uncompressed) 48 bytes apart, each claiming `claimed` bytes of pixel data."""
    import struct
    out = bytearray()
    for j in range(k):
        out += struct.pack("<IiiHHIIiiII", 40, 1, 1, 1, 24, 0, claimed, 2835, 2835, 0, 0) + bytes([j & 255, (j >> 8) & 255, 7, 0]) + b"\0\0\0\0"
    out += b"\0" * (claimed + 64)
    return bytes(out)


def amp_dib():
    from sharepoint2text.parsing.extractors.ms_legacy.doc_extractor import _DocReader
    fn = getattr(_DocReader, "_extract_images_from_word_document", None)
    if fn is None:
        return False, {}, "no _extract_images_from_word_document"
    best = (False, {}, "no amplification")
    for k, claimed in ((300, 20000), (300, 14400)):
        data = _overlapping_dibs(k, claimed)
        try:
            imgs = fn(data)
        except Exception as e:  # noqa
            continue
        total = sum(len(i.data or b"") for i in imgs)
        if total > 4 * len(data):
            return True, {"builder": f"{k} 1x1 DIB headers 48 bytes apart, biSizeImage={claimed}", "input_bytes": len(data)}, \
                f"{len(imgs)} images, {total} bytes of image data from {len(data)} input bytes"
        best = (False, {"input_bytes": len(data)}, f"{len(imgs)} images, {total} bytes from {len(data)} input bytes")
    return best


def _nested_ppt(k, rec_type, inst=0):
    import struct
    out = bytearray()
    for j in range(k):
        out += struct.pack("<HHI", 0x000F | (inst << 4), rec_type, 8 * (k - j - 1))
    return bytes(out)


def amp_ppt():
    from sharepoint2text.parsing.extractors.ms_legacy import ppt_extractor as P
    k = 400
    data = _nested_ppt(k, P.RT_SLIDE_LIST_WITH_TEXT)
    copied = sum(len(r.data) for r in P._iter_records(data))
    real = P._iter_records
    count = [0]

    def counting(*a, **kw):
        for r in real(*a, **kw):
            count[0] += 1
            yield r
    P._iter_records = counting
    try:
        P._extract_slide_list_texts(data)
    finally:
        P._iter_records = real
    bad = copied > 4 * len(data) or count[0] > 8 * k
    return bad, {"builder": f"{k} nested SlideListWithText containers ({len(data)} bytes)"}, \
        f"_iter_records copied {copied} bytes of record data; _extract_slide_list_texts visited {count[0]} records for {k} records in the stream"


def _scaling(fn, make, n1, n2):
    import time
    def t(n):
        data = make(n)
        best = None
        for _ in range(3):
            t0 = time.perf_counter()
            fn(data)
            d = time.perf_counter() - t0
            best = d if best is None or d < best else best
        return best, len(data)
    a, la = t(n1)
    b, lb = t(n2)
    return a, b, la, lb


def amp_mbox():
    from sharepoint2text.parsing.extractors.mail import mbox_email_extractor as M
    def make(n):
        return b"".join(b"From a@b.c Thu Jan  1 00:00:00 2020\nSubject: s%d\n\nbody %d\n\n" % (i, i) for i in range(n))
    split = getattr(M, "_split_mbox_messages", None)
    if split is None:
        return False, {}, "no _split_mbox_messages"
    a, b, la, lb = _scaling(lambda d: list(split(d)), make, 4000, 32000)
    ratio = b / max(a, 1e-6)
    return ratio > 24 and b > 0.5, {"builder": "mbox of n two-line messages, n = 4000 and 32000"}, \
        f"splitting {la} bytes took {a:.3f}s, {lb} bytes took {b:.3f}s (x{ratio:.1f} for x8 input)"


def amp_xml():
    """An internal entity in a ZIP part: refused by defusedxml at any part size; an expanding parser multiplies it."""
    import io as _io
    import zipfile as _zf
    from sharepoint2text.parsing.extractors.open_office.ods_extractor import read_ods
    ent = "A" * 1000
    for pad in (0, 1_200_000):
        content = (f'<?xml version="1.0"?><!DOCTYPE d [<!ENTITY a "{ent}">]><!--{"x" * pad}-->'
                   f'<office:document-content {NS}><office:body><office:spreadsheet><table:table table:name="S"><table:table-row>'
                   f'<table:table-cell office:value-type="string"><text:p>{"&a;" * 3000}</text:p></table:table-cell></table:table-row></table:table>'
                   f'</office:spreadsheet></office:body></office:document-content>')
        buf = _io.BytesIO()
        with _zf.ZipFile(buf, "w", _zf.ZIP_STORED) as z:       # stored: stays below the compression-ratio guard
            z.writestr("mimetype", "application/vnd.oasis.opendocument.spreadsheet")
            z.writestr("content.xml", content)
            z.writestr("META-INF/manifest.xml", '<?xml version="1.0"?><manifest:manifest xmlns:manifest="urn:oasis:names:tc:opendocument:xmlns:manifest:1.0"/>')
        try:
            r = list(read_ods(_io.BytesIO(buf.getvalue()), "a.ods"))
            n = len(r[0].get_full_text()) if r else 0
        except Exception:  # noqa
            continue
        if n >= 3000 * len(ent):
            return True, {"builder": f"ODS content.xml of {len(content)} bytes with <!ENTITY a '{len(ent)} x A'> referenced 3000 times"}, \
                f"entity references were expanded: {n} characters of text from a {len(content)}-byte part ({len(buf.getvalue())}-byte file)"
    return False, {}, "entity declarations are refused at both part sizes"


AMPLIFIERS = (("_extract_png_images_from_bytes/amp-bounded#carve", amp_png), ("_extract_images_from_word_document/amp-bounded#carve", amp_dib),
              ("ppt_extractor.py::_iter_records/amp-bounded#carve", amp_ppt), ("ppt_extractor.py::*/amp-bounded#nested-scans", amp_ppt),
              ("mbox_email_extractor.py::*/amp-bounded#no-self-suffix", amp_mbox), ("policy#xml-parsed", amp_xml))


def limits():
    import sharepoint2text
    from sharepoint2text.parsing.exceptions import ExtractionFileTooLargeError
    with tempfile.TemporaryDirectory() as d:
        p = os.path.join(d, "a.txt")
        open(p, "wb").write(b"x" * 100)
        for lim, want in ((99, "too-large"), (100, "ok"), (101, "ok"), (0, "ok"), (-5, "ok"), (1, "too-large")):
            try:
                list(sharepoint2text.read_file(p, max_file_size=lim))
                got = "ok"
            except ExtractionFileTooLargeError:
                got = "too-large"
            except Exception as e:  # noqa
                got = type(e).__name__
            if got != want:
                return {"target": "sharepoint2text/__init__.py::read_file", "inputs": {"file_size": 100, "max_file_size": lim}, "expected": want, "observed": got}
    from sharepoint2text.parsing.extractors import archive_extractor as ae
    repo = os.environ.get("VERIF_REPO", "/repo")
    data = open(os.path.join(repo, "sharepoint2text/tests/resources/archives/test_archive.7z"), "rb").read()
    old = ae.MAX_7Z_FILE_SIZE
    try:
        for lim, want in ((len(data) - 1, "too-large"), (len(data), "ok"), (len(data) + 1, "ok")):
            ae.MAX_7Z_FILE_SIZE = lim
            try:
                list(ae.read_archive(io.BytesIO(data), "t.7z"))
                got = "ok"
            except ExtractionFileTooLargeError:
                got = "too-large"
            except Exception as e:  # noqa
                got = type(e).__name__
            if got != want:
                return {"target": "archive_extractor.py::_extract_from_7z_optimized", "inputs": {"archive_size": len(data), "limit": lim}, "expected": want, "observed": got}
    finally:
        ae.MAX_7Z_FILE_SIZE = old
    return None


def find(req):
    if req.get("known_finding"):
        ok, inputs, obs = finding(req["known_finding"])
        return {"reproduced": bool(ok), "inputs": inputs, "observed": obs,
                "expected": "cost bounded by a fixed multiple of the input size / oversize members not decompressed"}
    r = limits()
    if r is not None:
        r["reproduced"] = True
        return r
    ob = req.get("obligation", "")
    if "member-size-check" in ob or "out-of-subset" in ob or not ob:
        import sys as _sys
        _sys.path.insert(0, os.path.dirname(os.path.abspath(__file__)))
        import archive_probe
        r = archive_probe.oversize_members()
        if r is not None:
            return r
    for key, fn in AMPLIFIERS:
        if key in ob:
            ok, inputs, obs = fn()
            if ok:
                return {"reproduced": True, "target": ob, "inputs": inputs, "observed": obs,
                        "expected": "work and output bounded by a fixed multiple of the input size"}
            return {"reproduced": False, "note": obs}
    if "out-of-subset" in ob or not ob:
        for key, fn in AMPLIFIERS:
            ok, inputs, obs = fn()
            if ok:
                return {"reproduced": True, "target": key, "inputs": inputs, "observed": obs,
                        "expected": "work and output bounded by a fixed multiple of the input size"}
    for fid, key in (("F11-cell-repeat", "amp-bounded#repeat-site"), ("F11-row-repeat", "amp-bounded#repeat-site"), ("F11-text-s", "_append_element_text/amp-bounded"),
                     ("F12-7z-oversize-members-decompressed", "oversize-members-are-not-decompressed")):
        if key in ob:
            ok, inputs, obs = finding(fid)
            if ok:
                return {"reproduced": True, "target": ob, "inputs": inputs, "observed": obs,
                        "expected": "cost bounded by a fixed multiple of the input size / oversize members not decompressed"}
    return {"reproduced": False, "note": "explicit limits hold at their boundaries natively"}


def rerun(stored):
    return find({"obligation": stored.get("obligation", "")})
