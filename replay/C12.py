"""Native replay for C12: explicit limits at their boundaries, and the recorded amplification /
oversize-member findings (witnesses built in memory, kept small enough to run in seconds)."""
import builtins
import io
import os
import tempfile
import zipfile

NS = ('xmlns:office="urn:oasis:names:tc:opendocument:xmlns:office:1.0" xmlns:table="urn:oasis:names:tc:opendocument:xmlns:table:1.0" '
      'xmlns:text="urn:oasis:names:tc:opendocument:xmlns:text:1.0"')


def ods(body_rows):
    content = (f'<?xml version="1.0"?><office:document-content {NS}><office:body><office:spreadsheet>'
               f'<table:table table:name="S">{body_rows}</table:table></office:spreadsheet></office:body></office:document-content>')
    buf = io.BytesIO()
    with zipfile.ZipFile(buf, "w", zipfile.ZIP_DEFLATED) as z:
        z.writestr("mimetype", "application/vnd.oasis.opendocument.spreadsheet")
        z.writestr("content.xml", content)
        z.writestr("META-INF/manifest.xml", '<?xml version="1.0"?><manifest:manifest xmlns:manifest="urn:oasis:names:tc:opendocument:xmlns:manifest:1.0"/>')
    return buf.getvalue()


def cell(v, attrs=""):
    return f'<table:table-cell office:value-type="string" {attrs}><text:p>{v}</text:p></table:table-cell>'


def finding(fid):
    from sharepoint2text.parsing.extractors.open_office.ods_extractor import read_ods
    if fid == "F11-cell-repeat":
        data = ods(f'<table:table-row>{cell("x", "table:number-columns-repeated=" + chr(34) + "400000" + chr(34))}</table:table-row>')
        r = list(read_ods(io.BytesIO(data), "a.ods"))[0]
        n = sum(len(row) for s in r.sheets for row in s.data)
        return n > 1000 * len(data) / 8, {"input_bytes": len(data), "attribute": "table:number-columns-repeated=400000"}, f"{n} cells materialised from {len(data)} input bytes"
    if fid == "F11-row-repeat":
        data = ods(f'<table:table-row table:number-rows-repeated="200000">{cell("x")}</table:table-row>')
        r = list(read_ods(io.BytesIO(data), "a.ods"))[0]
        n = sum(len(s.data) for s in r.sheets)
        return n > 1000 * len(data) / 8, {"input_bytes": len(data), "attribute": "table:number-rows-repeated=200000"}, f"{n} rows materialised from {len(data)} input bytes"
    if fid == "F11-text-s":
        data = ods(f'<table:table-row><table:table-cell office:value-type="string"><text:p>a<text:s text:c="3000000"/>b</text:p></table:table-cell></table:table-row>')
        r = list(read_ods(io.BytesIO(data), "a.ods"))[0]
        n = len(r.get_full_text())
        return n > 1000 * len(data), {"input_bytes": len(data), "attribute": "text:s text:c=3000000"}, f"{n} characters of text from {len(data)} input bytes"
    if fid == "F12-7z-oversize-members-decompressed":
        from sharepoint2text.parsing.extractors import archive_extractor as ae
        repo = os.environ.get("VERIF_REPO", "/repo")
        data = open(os.path.join(repo, "sharepoint2text/tests/resources/archives/test_archive.7z"), "rb").read()
        written = []
        real_open = builtins.open
        def spy(file, mode="r", *a, **k):
            if "w" in str(mode):
                written.append(str(file))
            return real_open(file, mode, *a, **k)
        old = ae._config
        ae.configure_archive_extraction(max_memory_size=1)
        builtins.open = spy
        try:
            res = list(ae.read_archive(io.BytesIO(data), "t.7z"))
        finally:
            builtins.open = real_open
            ae._config = old
        return (not res) and len(written) > 0, {"archive": "tests/resources/archives/test_archive.7z", "max_memory_size": 1}, \
            f"{len(res)} results (all members above the limit) but {len(written)} member files were decompressed and written to disk"
    if fid == "F30-pdf-mcid-order-list-scan":
        return amp_pdf_mcid()
    if fid == "F31-7z-lzma2-declared-size-ignored":
        r = sevenzip_declared("_decompress_lzma2")
        if r is None:
            return False, {}, "LZMA2 folders stop at the declared size"
        return True, r["inputs"], r["observed"]
    if fid == "F32-7z-file-count-sizes-tables":
        return sevenzip_file_count()
    return False, {}, "unknown finding"


def sevenzip_file_count(n=4_000_000):
    """A 43-byte 7z archive whose header declares `n` files and ends there: the per-entry tables are allocated before any entry is read."""
    import struct
    import tracemalloc
    import zlib
    from sharepoint2text.parsing.extractors.archive_extractor import read_archive
    hdr = bytes([0x01, 0x05]) + b"\xff" + struct.pack("<Q", n)          # PROP_HEADER, PROP_FILES_INFO, number of files; end of header
    start = struct.pack("<QQI", 0, len(hdr), zlib.crc32(hdr) & 0xFFFFFFFF)
    data = b"7z\xbc\xaf\x27\x1c" + bytes([0, 4]) + struct.pack("<I", zlib.crc32(start) & 0xFFFFFFFF) + start + hdr
    tracemalloc.start()
    err = None
    try:
        list(read_archive(io.BytesIO(data), "x.7z"))
    except Exception as e:  # noqa
        err = f"{type(e).__name__}: {str(e)[:80]}"
    peak = tracemalloc.get_traced_memory()[1]
    tracemalloc.stop()
    return peak > 1000 * len(data) + 1_000_000, {"input_bytes": len(data), "declared_files": n, "header": "01 05 ff <n as u64>"}, \
        f"peak additional memory {peak} bytes from a {len(data)}-byte archive declaring {n} files ({err})"



# ------------------------------------------------------ cost amplifiers --
def _nested_png(k):
    """k PNG signatures, each opening one chunk that ends exactly in front of one shared IEND chunk: every signature carves a PNG
    that reaches to the end, so overlapping carving copies ~k/2 times the input."""
    import struct
    sig = b"\x89PNG\r\n\x1a\n"
    P = 16 * k + 4
    out = bytearray()
    for j in range(k):
        out += sig + struct.pack(">I", P - 4 - 16 * (j + 1)) + b"daTa"
    out += b"\0\0\0\0" + struct.pack(">I", 0) + b"IEND" + b"\0\0\0\0"
    return bytes(out)


def amp_png():
    from sharepoint2text.parsing.extractors.ms_legacy.doc_extractor import _DocReader
    data = _nested_png(600)
    imgs = _DocReader._extract_png_images_from_bytes(data)
    total = sum(len(i.data) for i in imgs)
    return total > 4 * len(data), {"builder": "600 nested PNG signatures sharing one IEND chunk", "input_bytes": len(data)}, \
        f"{len(imgs)} carved images, {total} bytes of image data from {len(data)} input bytes"


def _overlapping_dibs(k, claimed):
    """k BITMAPINFOHEADERs (1x1, 24 bpp, uncompressed) 48 bytes apart, each claiming `claimed` bytes of pixel data."""
    import struct
    out = bytearray()
    for j in range(k):
        out += struct.pack("<IiiHHIIiiII", 40, 1, 1, 1, 24, 0, claimed, 2835, 2835, 0, 0) + bytes([j & 255, (j >> 8) & 255, 7, 0]) + b"\0\0\0\0"
    out += b"\0" * (claimed + 64)
    return bytes(out)


def amp_dib():
    from sharepoint2text.parsing.extractors.ms_legacy.doc_extractor import _DocReader
    fn = getattr(_DocReader, "_extract_images_from_word_document", None)
    if fn is None:
        return False, {}, "no _extract_images_from_word_document"
    best = (False, {}, "no amplification")
    for k, claimed in ((300, 20000), (300, 14400)):
        data = _overlapping_dibs(k, claimed)
        try:
            imgs = fn(data)
        except Exception as e:  # noqa
            continue
        total = sum(len(i.data or b"") for i in imgs)
        if total > 4 * len(data):
            return True, {"builder": f"{k} 1x1 DIB headers 48 bytes apart, biSizeImage={claimed}", "input_bytes": len(data)}, \
                f"{len(imgs)} images, {total} bytes of image data from {len(data)} input bytes"
        best = (False, {"input_bytes": len(data)}, f"{len(imgs)} images, {total} bytes from {len(data)} input bytes")
    return best


def _nested_ppt(k, rec_type, inst=0):
    import struct
    out = bytearray()
    for j in range(k):
        out += struct.pack("<HHI", 0x000F | (inst << 4), rec_type, 8 * (k - j - 1))
    return bytes(out)


def _nested_ppt_lists(k, rec_type, persist_type=None, text_type=None):
    """k SlideListWithText containers nested in each other; each level optionally starts with a SlidePersistAtom (so that the list
    yields a slide) and a short text atom."""
    import struct
    inner = b""
    for _ in range(k):
        body = b""
        if persist_type is not None:
            body += struct.pack("<HHI", 0, persist_type, 0)
        if text_type is not None:
            body += struct.pack("<HHI", 0, text_type, 2) + b"hi"
        body += inner
        inner = struct.pack("<HHI", 0x000F, rec_type, len(body)) + body
    return inner


def amp_ppt():
    from sharepoint2text.parsing.extractors.ms_legacy import ppt_extractor as P
    k = 400
    variants = [(f"{k} nested SlideListWithText containers", _nested_ppt(k, P.RT_SLIDE_LIST_WITH_TEXT), k)]
    persist, text = getattr(P, "RT_SLIDE_PERSIST_ATOM", None), getattr(P, "RT_TEXT_BYTES_ATOM", None)
    if persist is not None:
        variants.append((f"{k} nested SlideListWithText containers, each with a SlidePersistAtom", _nested_ppt_lists(k, P.RT_SLIDE_LIST_WITH_TEXT, persist), 2 * k))
        if text is not None:
            variants.append((f"{k} nested SlideListWithText containers, each with a SlidePersistAtom and a text atom",
                             _nested_ppt_lists(k, P.RT_SLIDE_LIST_WITH_TEXT, persist, text), 3 * k))
    last = (False, {}, "no variant amplifies")
    for label, data, nrec in variants:
        copied = sum(len(r.data) for r in P._iter_records(data))
        real = P._iter_records
        count = [0]

        def counting(*a, **kw):
            for r in real(*a, **kw):
                count[0] += 1
                yield r
        P._iter_records = counting
        try:
            P._extract_slide_list_texts(data)
        finally:
            P._iter_records = real
        obs = f"_iter_records copied {copied} bytes of record data; _extract_slide_list_texts visited {count[0]} records for {nrec} records in the stream"
        if copied > 4 * len(data) or count[0] > 8 * nrec:
            return True, {"builder": f"{label} ({len(data)} bytes)"}, obs
        last = (False, {"builder": label}, obs)
    return last


class CountingBytes(bytes):
    """bytes whose slices are counted: a deterministic measure of "bytes copied out of the scanned buffer" (slices of slices count too)."""
    copied = 0

    def __getitem__(self, k):
        r = bytes.__getitem__(self, k)
        if isinstance(k, slice):
            CountingBytes.copied += len(r)
            return CountingBytes(r)
        return r


def _overlapping_records(k, pack_header, types, tail=64):
    """k record headers 8 bytes apart, each of a picture type and each declaring a payload that reaches to the end of the stream
    (payloads are not images): a scan that re-enters a declared record copies the rest of the stream once per header."""
    total = 8 * k + tail
    out = bytearray()
    for j in range(k):
        out += pack_header(0, types[j % len(types)], total - 8 * (j + 1))
    out += bytes(tail)
    return bytes(out)


def amp_xls():
    """Workbook stream scanned by _extract_images_from_workbook, handed in through a stand-in for olefile (the container format is not
    what is under test) as CountingBytes."""
    import types as _types
    from sharepoint2text.parsing.extractors.ms_legacy import xls_extractor as X
    fn = getattr(X, "_extract_images_from_workbook", None)
    hdr = getattr(X, "_RECORD_HEADER", None)
    blips = sorted(getattr(X, "BLIP_TYPES", ()) or ())
    if fn is None or hdr is None or not blips:
        return False, {}, "no _extract_images_from_workbook / record header / BLIP types"
    meta = {getattr(X, n, None) for n in ("BLIP_TYPE_EMF", "BLIP_TYPE_WMF")}
    plain = [t for t in blips if t not in meta] or blips
    best = (False, {}, "no amplification")
    for label, types in (("picture types that need a recognised payload", plain), ("all BLIP types", blips)):
        for k in (1500,):
            payload = _overlapping_records(k, hdr.pack, types)

            class _Stream:
                def read(self, *a):
                    return CountingBytes(payload)

            class _Ole:
                def __init__(self, *a, **kw):
                    pass

                def __enter__(self):
                    return self

                def __exit__(self, *a):
                    return False

                def exists(self, name):
                    return name == "Workbook"

                def openstream(self, name):
                    return _Stream()

                def close(self):
                    pass
            fake = _types.SimpleNamespace(isOleFile=lambda *_a, **_k: True, OleFileIO=_Ole)
            saved = {n: getattr(X, n) for n in ("olefile", "OleFileIO", "isOleFile") if hasattr(X, n)}
            X.olefile = fake
            if "OleFileIO" in saved:
                X.OleFileIO = _Ole
            if "isOleFile" in saved:
                X.isOleFile = fake.isOleFile
            CountingBytes.copied = 0
            try:
                imgs = fn(io.BytesIO(b"\xd0\xcf\x11\xe0\xa1\xb1\x1a\xe1" + bytes(1024)))
            except Exception as e:  # noqa
                best = (False, {}, f"{type(e).__name__}: {e}")
                continue
            finally:
                for n, v in saved.items():
                    setattr(X, n, v)
                if "olefile" not in saved:
                    del X.olefile
            copied = CountingBytes.copied
            obs = f"{copied} bytes copied out of a {len(payload)}-byte Workbook stream ({len(imgs)} images)"
            if copied > 8 * len(payload):
                return True, {"builder": f"{k} overlapping 8-byte record headers ({label}), each declaring a payload up to the end of the stream", "input_bytes": len(payload)}, obs
            best = (False, {"input_bytes": len(payload)}, obs)
    return best


def _scaling(fn, make, n1, n2):
    import time
    def t(n):
        data = make(n)
        best = None
        for _ in range(3):
            t0 = time.perf_counter()
            fn(data)
            d = time.perf_counter() - t0
            best = d if best is None or d < best else best
        return best, len(data)
    a, la = t(n1)
    b, lb = t(n2)
    return a, b, la, lb


def amp_mbox():
    from sharepoint2text.parsing.extractors.mail import mbox_email_extractor as M
    def make(n):
        return b"".join(b"From a@b.c Thu Jan  1 00:00:00 2020\nSubject: s%d\n\nbody %d\n\n" % (i, i) for i in range(n))
    split = getattr(M, "_split_mbox_messages", None)
    if split is None:
        return False, {}, "no _split_mbox_messages"
    a, b, la, lb = _scaling(lambda d: list(split(d)), make, 4000, 32000)
    ratio = b / max(a, 1e-6)
    return ratio > 24 and b > 0.5, {"builder": "mbox of n two-line messages, n = 4000 and 32000"}, \
        f"splitting {la} bytes took {a:.3f}s, {lb} bytes took {b:.3f}s (x{ratio:.1f} for x8 input)"


RTF_BUILDERS = (
    ("n nested groups", lambda n: "{\\rtf1 " + "{" * n + "x" + "}" * n + "}"),
    ("n nested ignorable destinations", lambda n: "{\\rtf1 " + "{\\*\\foo " * n + "x" + "}" * n + "}"),
    ("n unicode escapes", lambda n: "{\\rtf1 " + "\\u8364?" * n + "}"),
    ("n hex escapes", lambda n: "{\\rtf1 " + "\\'e9" * n + "}"),
    ("n control words", lambda n: "{\\rtf1 " + "\\b0 " * n + "}"),
    ("n page breaks", lambda n: "{\\rtf1 " + "a\\page " * n + "}"),
    ("one control word of n letters", lambda n: "{\\rtf1 \\" + "a" * n + " x}"),
    ("n unterminated groups", lambda n: "{\\rtf1 " + "{\\b " * n),
    ("n sibling groups", lambda n: "{\\rtf1 " + "{\\b x}" * n + "}"),
    ("n sibling groups with white space after the brace", lambda n: "{\\rtf1 " + "{\r\n \\i x}" * n + "}"),
    ("n nested groups each followed by text", lambda n: "{\\rtf1 " + "{x " * n + "}" * n + "}"),
)


class CountingStr(str):
    """str whose slices are counted (characters copied out of the scanned text; slices of slices count too): a deterministic cost measure
    for a scanner that receives its text as an argument."""
    copied = 0

    def __getitem__(self, k):
        r = str.__getitem__(self, k)
        if isinstance(k, slice):
            CountingStr.copied += len(r)
            return CountingStr(r)
        return r


def _rtf_counted(ob):
    """The scan function named by the obligation (`<Class>.<method>(self, text)`), run on a parser instance over every builder at two sizes
    with the text handed in as CountingStr: characters sliced out of the text must grow linearly with it.  None when the function cannot
    be set up this way (then only the timing below decides)."""
    import re as _re
    from sharepoint2text.parsing.extractors.ms_legacy import rtf_extractor as Rm
    m = _re.search(r"::([A-Za-z_][\w]*)\.([A-Za-z_][\w]*)/", ob or "")
    if not m:
        return None
    cls = getattr(Rm, m.group(1), None)
    if cls is None or not callable(getattr(cls, m.group(2), None)):
        return None
    n1, n2 = 1500, 12000
    seen_any = False
    for label, build in RTF_BUILDERS:
        counts = []
        for n in (n1, n2):
            text = build(n)
            try:
                inst = cls(b"{\\rtf1 x}")
                CountingStr.copied = 0
                getattr(inst, m.group(2))(CountingStr(text))
            except RecursionError:
                counts = None
                break
            except Exception:  # noqa
                counts = None
                break
            counts.append((CountingStr.copied, len(text)))
        if not counts:
            continue
        seen_any = True
        (c1, l1), (c2, l2) = counts
        if c2 > 3 * (l2 / l1) * max(c1, l1) and c2 > 64 * l2:
            return True, {"builder": f"RTF body with {label}, n = {n1} and {n2}, handed to {m.group(1)}.{m.group(2)} as a str that counts the characters sliced out of it"}, \
                f"{c1} characters sliced out of a {l1}-character body, {c2} out of a {l2}-character body (x{c2 / max(c1, 1):.1f} for x{l2 / l1:.1f} input)"
    return (False, {}, "characters sliced out of the text grow linearly for every builder") if seen_any else None


def amp_rtf(ob=None):
    from sharepoint2text.parsing.extractors.ms_legacy import rtf_extractor as Rm
    read = getattr(Rm, "read_rtf", None)
    if read is None:
        return False, {}, "no read_rtf"
    try:
        counted = _rtf_counted(ob)
    except Exception:  # noqa
        counted = None
    if counted is not None and counted[0]:
        return counted
    worst = (False, {}, "no builder scales worse than linearly")
    for label, build in RTF_BUILDERS:
        def run(data):
            try:
                list(read(io.BytesIO(data), "a.rtf"))
            except RecursionError:
                pass
            except Exception:  # noqa
                pass
        a, b, la, lb = _scaling(run, lambda n: build(n).encode("latin-1"), 3000, 24000)
        ratio = b / max(a, 1e-6)
        if ratio > 24 and b > 0.5:
            return True, {"builder": f"RTF with {label}, n = 3000 and 24000"}, f"{la} bytes took {a:.3f}s, {lb} bytes took {b:.3f}s (x{ratio:.1f} for x8 input)"
        worst = (False, {"builder": label}, f"x{ratio:.1f} for x8 input ({b:.3f}s)")
    return worst


def amp_xml():
    """An internal entity in a ZIP part: refused by defusedxml at any part size; an expanding parser multiplies it."""
    import io as _io
    import zipfile as _zf
    from sharepoint2text.parsing.extractors.open_office.ods_extractor import read_ods
    ent = "A" * 1000
    for pad in (0, 1_200_000):
        content = (f'<?xml version="1.0"?><!DOCTYPE d [<!ENTITY a "{ent}">]><!--{"x" * pad}-->'
                   f'<office:document-content {NS}><office:body><office:spreadsheet><table:table table:name="S"><table:table-row>'
                   f'<table:table-cell office:value-type="string"><text:p>{"&a;" * 3000}</text:p></table:table-cell></table:table-row></table:table>'
                   f'</office:spreadsheet></office:body></office:document-content>')
        buf = _io.BytesIO()
        with _zf.ZipFile(buf, "w", _zf.ZIP_STORED) as z:       # stored: stays below the compression-ratio guard
            z.writestr("mimetype", "application/vnd.oasis.opendocument.spreadsheet")
            z.writestr("content.xml", content)
            z.writestr("META-INF/manifest.xml", '<?xml version="1.0"?><manifest:manifest xmlns:manifest="urn:oasis:names:tc:opendocument:xmlns:manifest:1.0"/>')
        try:
            r = list(read_ods(_io.BytesIO(buf.getvalue()), "a.ods"))
            n = len(r[0].get_full_text()) if r else 0
        except Exception:  # noqa
            continue
        if n >= 3000 * len(ent):
            return True, {"builder": f"ODS content.xml of {len(content)} bytes with <!ENTITY a '{len(ent)} x A'> referenced 3000 times"}, \
                f"entity references were expanded: {n} characters of text from a {len(content)}-byte part ({len(buf.getvalue())}-byte file)"
    return False, {}, "entity declarations are refused at both part sizes"


def _entity_dtd(root):
    """DOCTYPE with nested internal entities: &d; expands to 16*16*16*64 = 262144 characters."""
    a = "A" * 64
    return (f'<!DOCTYPE {root} [<!ENTITY a "{a}"><!ENTITY b "{"&a;" * 16}"><!ENTITY c "{"&b;" * 16}"><!ENTITY d "{"&c;" * 16}">]>')


def xml_entity_parts():
    """Every XML part a reader looks at may carry a DTD with (nested) internal entities; a hardened parser refuses the declaration,
    an expanding one multiplies it (measured: tracemalloc peak during the read against the file size)."""
    import tracemalloc
    import sharepoint2text
    MAN = "urn:oasis:names:tc:opendocument:xmlns:manifest:1.0"
    refs = "&d;" * 12
    odf_parts = {
        "META-INF/manifest.xml": lambda dtd: f'<?xml version="1.0"?>{dtd}<manifest:manifest xmlns:manifest="{MAN}"><manifest:file-entry manifest:full-path="/" manifest:media-type="{refs}"/>'
                                             f'<manifest:file-entry manifest:full-path="content.xml" manifest:media-type="text/xml">{refs}</manifest:file-entry></manifest:manifest>',
        "meta.xml": lambda dtd: f'<?xml version="1.0"?>{dtd}<office:document-meta {NS} xmlns:meta="urn:oasis:names:tc:opendocument:xmlns:meta:1.0" xmlns:dc="http://purl.org/dc/elements/1.1/">'
                                f'<office:meta><dc:title>{refs}</dc:title></office:meta></office:document-meta>',
        "styles.xml": lambda dtd: f'<?xml version="1.0"?>{dtd}<office:document-styles {NS}><office:master-styles><text:p>{refs}</text:p></office:master-styles></office:document-styles>',
    }
    docs = []
    for fmt, mt, body in (("odt", "application/vnd.oasis.opendocument.text", "<office:text><text:p>hello</text:p></office:text>"),
                          ("ods", "application/vnd.oasis.opendocument.spreadsheet", f'<office:spreadsheet><table:table table:name="S"><table:table-row>{cell("x")}</table:table-row></table:table></office:spreadsheet>'),
                          ("odp", "application/vnd.oasis.opendocument.presentation", "<office:presentation/>")):
        base = {"mimetype": mt,
                "content.xml": f'<?xml version="1.0"?><office:document-content {NS}><office:body>{body}</office:body></office:document-content>',
                "META-INF/manifest.xml": f'<?xml version="1.0"?><manifest:manifest xmlns:manifest="{MAN}"/>'}
        for part, build in odf_parts.items():
            root = {"META-INF/manifest.xml": "manifest:manifest", "meta.xml": "office:document-meta", "styles.xml": "office:document-styles"}[part]
            docs.append((fmt, f"a.{fmt}", part, dict(base, **{part: build(_entity_dtd(root))})))
    W = "http://schemas.openxmlformats.org/wordprocessingml/2006/main"
    ct = ('<Types xmlns="http://schemas.openxmlformats.org/package/2006/content-types"><Default Extension="rels" '
          'ContentType="application/vnd.openxmlformats-package.relationships+xml"/><Default Extension="xml" ContentType="application/xml"/>'
          '<Override PartName="/word/document.xml" ContentType="application/vnd.openxmlformats-officedocument.wordprocessingml.document.main+xml"/>{x}</Types>')
    rels = ('<Relationships xmlns="http://schemas.openxmlformats.org/package/2006/relationships"><Relationship Id="rId1" '
            'Type="http://schemas.openxmlformats.org/officeDocument/2006/relationships/officeDocument" Target="word/document.xml"/>{x}</Relationships>')
    docx_base = {"[Content_Types].xml": '<?xml version="1.0"?>' + ct.format(x=""), "_rels/.rels": '<?xml version="1.0"?>' + rels.format(x=""),
                 "word/document.xml": f'<?xml version="1.0"?><w:document xmlns:w="{W}"><w:body><w:p><w:r><w:t>hello</w:t></w:r></w:p></w:body></w:document>'}
    docs.append(("docx", "a.docx", "[Content_Types].xml", dict(docx_base, **{"[Content_Types].xml": '<?xml version="1.0"?>' + _entity_dtd("Types") + ct.format(x=f'<Default Extension="x" ContentType="{refs}"/>')})))
    docs.append(("docx", "a.docx", "_rels/.rels", dict(docx_base, **{"_rels/.rels": '<?xml version="1.0"?>' + _entity_dtd("Relationships") + rels.format(x=f'<Relationship Id="rId9" Type="t" Target="{refs}"/>')})))
    docs.append(("docx", "a.docx", "word/document.xml", dict(docx_base, **{"word/document.xml": f'<?xml version="1.0"?>{_entity_dtd("w:document")}<w:document xmlns:w="{W}"><w:body><w:p><w:r><w:t>{refs}</w:t></w:r></w:p></w:body></w:document>'})))
    docs.append(("docx", "a.docx", "docProps/core.xml", dict(docx_base, **{"docProps/core.xml": f'<?xml version="1.0"?>{_entity_dtd("cp:coreProperties")}<cp:coreProperties xmlns:cp="http://schemas.openxmlformats.org/package/2006/metadata/core-properties" xmlns:dc="http://purl.org/dc/elements/1.1/"><dc:title>{refs}</dc:title></cp:coreProperties>'})))
    last = "entity declarations are refused in every part"
    for fmt, fname, part, parts in docs:
        buf = io.BytesIO()
        with zipfile.ZipFile(buf, "w", zipfile.ZIP_STORED) as z:
            for name, data in parts.items():
                z.writestr(name, data)
        blob = buf.getvalue()
        try:
            reader = sharepoint2text.get_extractor(fname)
        except Exception:  # noqa
            continue
        tracemalloc.start()
        try:
            try:
                res = list(reader(io.BytesIO(blob), fname))
                chars = sum(len(r.get_full_text()) for r in res)
                got = "accepted"
            except Exception as e:  # noqa
                chars, got = 0, type(e).__name__
            peak = tracemalloc.get_traced_memory()[1]
        finally:
            tracemalloc.stop()
        if got == "accepted" and (peak > 200 * len(blob) or chars > 200 * len(blob)):
            return True, {"format": fmt, "part_with_entity_declarations": part, "file_bytes": len(blob), "entities": "4 nested levels, &d; = 262144 characters, referenced 12 times per site"}, \
                f"accepted; peak additional memory {peak} bytes ({peak // len(blob)} x the file), {chars} characters of text"
        last = f"{fmt}/{part}: {got}, peak {peak} bytes for a {len(blob)}-byte file"
    return False, {}, last


def amp_xml_all():
    ok, inputs, obs = amp_xml()
    if ok:
        return ok, inputs, obs
    return xml_entity_parts()


def amp_ppt_consumers():
    """Every record-stream consumer of the PPT reader (a module-level function of one bytes argument) on deeply nested containers of
    each container type and on the same number of sibling containers: run time must scale linearly (x8 input -> well below x24)."""
    import inspect
    import struct
    from sharepoint2text.parsing.extractors.ms_legacy import ppt_extractor as P
    types = sorted({v for k, v in vars(P).items() if k.startswith("RT_") and isinstance(v, int) and ("CONTAINER" in k or "LIST" in k)} | {0xF002, 0xF003, 0xF004})

    def nested(k, t):
        return b"".join(struct.pack("<HHI", 0x000F, t, 8 * (k - j - 1)) for j in range(k))

    def mixed(k, _t):
        return b"".join(struct.pack("<HHI", 0x000F, types[j % len(types)], 8 * (k - j - 1)) for j in range(k))
    fns = []
    for name, f in sorted(vars(P).items()):
        if inspect.isfunction(f) and f.__module__ == P.__name__ and not inspect.isgeneratorfunction(f):
            try:
                ps = list(inspect.signature(f).parameters.values())
            except (TypeError, ValueError):
                continue
            req = [p_ for p_ in ps if p_.default is inspect.Parameter.empty and p_.kind in (p_.POSITIONAL_ONLY, p_.POSITIONAL_OR_KEYWORD)]
            if len(req) == 1 and (req[0].annotation in (bytes, "bytes") or req[0].name == "data"):
                fns.append((name, f))
    text_types = sorted(v for k, v in vars(P).items() if k.startswith("RT_TEXT_") and k.endswith("_ATOM") and isinstance(v, int) and "HEADER" not in k) or [0x0FA8]
    ctx_types = [0] + sorted(v for k, v in vars(P).items() if k in ("RT_SLIDE_CONTAINER", "RT_NOTES_CONTAINER", "RT_MAIN_MASTER_CONTAINER", "RT_SLIDE_LIST_WITH_TEXT") and isinstance(v, int))

    def atoms(k, tc):
        # k text atoms with pairwise distinct content (a consumer that de-duplicates / joins / searches what it collected so far
        # does work proportional to the number of atoms already seen), at top level (c == 0) or inside one container of type c
        t, c = tc
        enc = (lambda x: x.encode("utf-16-le")) if t == getattr(P, "RT_TEXT_CHARS_ATOM", -1) else (lambda x: x.encode("ascii"))
        body = b"".join(struct.pack("<HHI", 0, t, len(d)) + d for d in (enc("t%07d" % j) for j in range(k)))
        return body if c == 0 else struct.pack("<HHI", 0x000F, c, len(body)) + body
    worst = (False, {}, "every consumer scales linearly")
    for name, f in fns:
        for label, build, ts in (("nested containers of one type", nested, types), ("nested containers of alternating types", mixed, [0]),
                                 ("distinct text atoms (text type, enclosing container type)", atoms, [(t, c) for t in text_types[:2] for c in ctx_types])):
            for t in ts:
                def run(data):
                    try:
                        f(data)
                    except Exception:  # noqa
                        pass
                try:
                    a, b, la, lb = _scaling(run, lambda n: build(n, t), 1500, 12000)
                except RecursionError:
                    continue
                ratio = b / max(a, 1e-6)
                if ratio > 24 and b > 0.5:
                    return True, {"function": f"ppt_extractor.{name}", "builder": f"{label} ({t if isinstance(t, tuple) else hex(t)}), 1500 and 12000 records"}, \
                        f"{la} bytes took {a:.3f}s, {lb} bytes took {b:.3f}s (x{ratio:.1f} for x8 input)"
                if b > worst[2].__len__() * 0 and ratio > 8:
                    worst = (False, {"function": name}, f"{name}: x{ratio:.1f} for x8 input ({b:.3f}s)")
    return worst


def _mcid_pdf(n):
    """One-page PDF whose (deflated) content stream opens and closes n marked-content sequences with pairwise distinct MCIDs."""
    import zlib
    body = b"".join(b"/P <</MCID %d>> BDC EMC\n" % k for k in range(n))
    comp = zlib.compress(body, 9)
    objs = [b"<< /Type /Catalog /Pages 2 0 R >>", b"<< /Type /Pages /Kids [3 0 R] /Count 1 >>",
            b"<< /Type /Page /Parent 2 0 R /MediaBox [0 0 612 792] /Resources << /XObject << >> >> /Contents 4 0 R >>",
            b"<< /Length %d /Filter /FlateDecode >>\nstream\n" % len(comp) + comp + b"\nendstream"]
    out, offs = bytearray(b"%PDF-1.4\n"), []
    for i, o in enumerate(objs, 1):
        offs.append(len(out))
        out += b"%d 0 obj\n" % i + o + b"\nendobj\n"
    x = len(out)
    out += b"xref\n0 %d\n" % (len(objs) + 1) + b"0000000000 65535 f \n" + b"".join(b"%010d 00000 n \n" % o for o in offs)
    out += b"trailer\n<< /Size %d /Root 1 0 R >>\nstartxref\n%d\n%%%%EOF\n" % (len(objs) + 1, x)
    return bytes(out)


def amp_pdf_mcid():
    """Marked-content bookkeeping of the PDF reader on n sequences with distinct MCIDs.  Deterministic measure: the operator list is
    handed in through a stand-in for pypdf's ContentStream whose MCIDs are ints that count their `==` comparisons (a list scan per
    operator compares against everything collected so far); fallback when the reader is not built that way: run time of read_pdf on
    real one-page files at two sizes."""
    from sharepoint2text.parsing.extractors.pdf import pdf_extractor as PX

    class CInt(int):
        count = 0

        def __eq__(self, other):
            CInt.count += 1
            return int.__eq__(self, other)
        __hash__ = int.__hash__

    import inspect
    used = [False]

    def run(n):
        ops_ = []
        for k in range(n):
            ops_.append((["/P", {"/MCID": CInt(k)}], b"BDC"))
            ops_.append(([], b"EMC"))

        class Stream:
            def __init__(self, *a, **k):
                used[0] = True
                self.operations = ops_

        class Page:
            pdf = None

            def get_contents(self):
                return object()
        real = PX.ContentStream
        PX.ContentStream = Stream
        worst = None
        try:
            # every module-level function of one required argument that builds a ContentStream from what it is given
            for name, f in sorted(vars(PX).items()):
                if not (inspect.isfunction(f) and f.__module__ == PX.__name__):
                    continue
                try:
                    req = [p_ for p_ in inspect.signature(f).parameters.values() if p_.default is inspect.Parameter.empty and p_.kind in (p_.POSITIONAL_ONLY, p_.POSITIONAL_OR_KEYWORD)]
                except (TypeError, ValueError):
                    continue
                if len(req) != 1:
                    continue
                used[0] = False
                CInt.count = 0
                try:
                    r = f(Page())
                    if inspect.isgenerator(r):
                        list(r)
                except Exception:  # noqa
                    pass
                if used[0] and (worst is None or CInt.count > worst):
                    worst = CInt.count
        finally:
            PX.ContentStream = real
        if worst is None:
            raise ValueError("no function consumed the stand-in stream")
        return worst
    try:
        c1, c2 = run(500), run(2000)
        inputs = {"builder": "content stream of n marked-content sequences `/P <</MCID k>> BDC EMC` with distinct k (n = 500 and 2000; 24 bytes each before deflate)",
                  "measure": "number of == comparisons on MCID values in the function that walks the operators (stand-in ContentStream)"}
        obs = f"{c1} comparisons for 1000 operators, {c2} for 4000 operators ({c2 // 4000} per operator)"
        if c2 > 50 * 4000 and c2 >= 8 * max(c1, 1):
            blob = _mcid_pdf(6000)
            import time
            t0 = time.perf_counter()
            try:
                list(PX.read_pdf(io.BytesIO(blob), "a.pdf"))
            except Exception:  # noqa
                pass
            return True, inputs, obs + f"; read_pdf on a {len(blob)}-byte file with 6000 sequences: {time.perf_counter() - t0:.2f}s (quadratic: x4 sequences -> x16)"
        return False, inputs, obs
    except (AttributeError, TypeError, ValueError, IndexError, KeyError):
        pass

    def read(blob):
        try:
            list(PX.read_pdf(io.BytesIO(blob), "a.pdf"))
        except Exception:  # noqa
            pass
    a, b, la, lb = _scaling(read, _mcid_pdf, 4000, 16000)
    ratio = b / max(a, 1e-6)
    return (ratio > 9 and b > 1.0), {"builder": "one-page PDF, n marked-content sequences with distinct MCIDs (4000 and 16000)"}, \
        f"{la} bytes took {a:.3f}s, {lb} bytes took {b:.3f}s (x{ratio:.1f} for x4 sequences)"


AMPLIFIERS = (("pdf_extractor.py::*/amp-bounded#list-membership", amp_pdf_mcid), ("ppt_extractor.py::*/amp-bounded#no-rescan", amp_ppt_consumers), ("rtf_extractor.py::_RtfParser._strip_rtf_full_with_pages/amp-bounded#carve", amp_rtf), ("xls_extractor.py::_extract_images_from_workbook/amp-bounded#carve", amp_xls), ("_extract_png_images_from_bytes/amp-bounded#carve", amp_png), ("_extract_images_from_word_document/amp-bounded#carve", amp_dib),
              ("ppt_extractor.py::_iter_records/amp-bounded#carve", amp_ppt), ("ppt_extractor.py::*/amp-bounded#nested-scans", amp_ppt),
              ("mbox_email_extractor.py::*/amp-bounded#no-self-suffix", amp_mbox), ("policy#xml-parsed", amp_xml_all))


LZMA2_CHAINS = ("LZMA2", "BCJ+LZMA2", "COPY+LZMA2", "BCJ+COPY+LZMA2")
LZMA_CHAINS = ("LZMA", "BCJ+LZMA", "COPY+LZMA", "BCJ+COPY+LZMA")


def sevenzip_declared(ob=""):
    """7z folders whose packed stream expands far beyond the declared size.  The coder chains are those of the decoder the obligation names
    (`_decompress_lzma2` -> chains ending in LZMA2, `_decompress_lzma` -> LZMA); otherwise all chains that are not a recorded finding."""
    import sys as _sys
    _sys.path.insert(0, os.path.dirname(os.path.abspath(__file__)))
    import archive_probe
    ob = ob or ""
    if "_decompress_lzma2" in ob:
        skip = LZMA_CHAINS
    elif "_decompress_lzma" in ob:
        skip = LZMA2_CHAINS
    else:
        skip = LZMA2_CHAINS if any(f["id"].startswith("F31-") for f in _recorded_findings()) else ()
    return archive_probe.sevenzip_declared_sizes(skip=skip)


def _got(fn):
    from sharepoint2text.parsing.exceptions import ExtractionFileTooLargeError
    try:
        fn()
        return "ok"
    except ExtractionFileTooLargeError:
        return "too-large"
    except Exception as e:  # noqa
        return type(e).__name__


def limits_read_file():
    """read_file: exact boundary at several file sizes; the size that counts is the size of what open() reads -- a symbolic link to
    a large file, a relative path, a str and a Path argument."""
    import pathlib
    import sharepoint2text
    with tempfile.TemporaryDirectory() as d:
        for size in (100, 5000, 70000):
            p = os.path.join(d, f"a{size}.txt")
            with open(p, "wb") as fh:
                fh.write(b"x" * size)
            link = os.path.join(d, f"link{size}.txt")
            try:
                os.symlink(p, link)
            except OSError:
                link = None
            cases = [(size - 1, "too-large"), (size, "ok"), (size + 1, "ok"), (0, "ok"), (-5, "ok"), (1, "too-large"), (size // 2, "too-large")]
            for how, arg in (("path", p), ("pathlib.Path", pathlib.Path(p)), ("symlink to the file", link)):
                if arg is None:
                    continue
                for lim, want in cases:
                    opened = []
                    real_open, real_io_open = builtins.open, io.open

                    def spy(file, *a, **k):
                        try:
                            if os.path.realpath(os.fspath(file)) == os.path.realpath(p):
                                opened.append(str(file))
                        except TypeError:
                            pass
                        return real_open(file, *a, **k)
                    builtins.open = io.open = spy
                    try:
                        got = _got(lambda: list(sharepoint2text.read_file(arg, max_file_size=lim)))
                    finally:
                        builtins.open, io.open = real_open, real_io_open
                    if got == want == "too-large" and opened:
                        return {"target": "sharepoint2text/__init__.py::read_file", "inputs": {"file_size": size, "max_file_size": lim, "path_is": how},
                                "expected": "refused before the file is opened", "observed": f"the file was opened {len(opened)} time(s) before ExtractionFileTooLargeError"}
                    if got != want:
                        return {"target": "sharepoint2text/__init__.py::read_file",
                                "inputs": {"file_size": size, "max_file_size": lim, "path_is": how,
                                           **({"link_entry_size": os.lstat(link).st_size} if how.startswith("symlink") else {})},
                                "expected": want, "observed": got}
        # default limit is the documented 100 MB (sparse file: nothing is written)
        big = os.path.join(d, "big.txt")
        try:
            with open(big, "wb") as fh:
                fh.truncate(100 * 1024 * 1024 + 1)
            got = _got(lambda: next(iter(sharepoint2text.read_file(big)), None))
            if got != "too-large":
                return {"target": "sharepoint2text/__init__.py::read_file", "inputs": {"file_size": 100 * 1024 * 1024 + 1, "max_file_size": "default"},
                        "expected": "too-large", "observed": got}
        except OSError:
            pass
    return None


CANDIDATE_EXTENSIONS = ("txt", "md", "csv", "tsv", "json", "log", "html", "htm", "xml", "docx", "xlsx", "pptx", "docm", "xlsm", "pptm", "doc", "xls", "ppt", "rtf", "pdf",
                        "odt", "ods", "odp", "odg", "odf", "epub", "eml", "msg", "mbox", "mhtml", "mht", "zip", "tar", "tar.gz", "tgz", "tar.bz2", "tbz2", "tar.xz",
                        "txz", "gz", "bz2", "xz", "7z")


def supported_extensions():
    """Every file type read_file routes: a fixed candidate list plus whatever the router's own tables name, filtered by is_supported_file."""
    import sharepoint2text
    cands = list(CANDIDATE_EXTENSIONS)
    try:
        from sharepoint2text.parsing import router
        for v in vars(router).values():
            if isinstance(v, (dict, set, frozenset, list, tuple)):
                for k in v:
                    if isinstance(k, str) and 0 < len(k) < 12 and k.replace(".", "").isalnum():
                        cands.append(k.lstrip("."))
    except Exception:  # noqa
        pass
    out = []
    for e in cands:
        try:
            if e not in out and sharepoint2text.is_supported_file("f." + e):
                out.append(e)
        except Exception:  # noqa
            pass
    return out


def limits_file_types(size=3000):
    """The whole-file limit does not depend on the file type: for every routed extension (documents, mail, archives and compressed
    containers alike) a file above max_file_size is refused, one of exactly max_file_size is not refused for its size."""
    import sharepoint2text
    with tempfile.TemporaryDirectory() as d:
        for ext in supported_extensions():
            p = os.path.join(d, "f." + ext)
            with open(p, "wb") as fh:
                fh.write(bytes((i * 31 + 7) & 255 for i in range(size)))
            for lim, want_too_large in ((size - 1, True), (1, True), (size, False), (0, False)):
                got = _got(lambda: list(sharepoint2text.read_file(p, max_file_size=lim)))
                if (got == "too-large") != want_too_large:
                    return {"target": "sharepoint2text/__init__.py::read_file", "inputs": {"file": "f." + ext, "file_size": size, "max_file_size": lim, "content": "arbitrary bytes"},
                            "expected": "ExtractionFileTooLargeError" if want_too_large else "no ExtractionFileTooLargeError (the size is within the limit / the check is disabled)",
                            "observed": got}
    return None


def _sevenzip_spy():
    """Counts SevenZipFile constructions (whatever the import style of the caller)."""
    from sharepoint2text.parsing.extractors.util import sevenzip
    cls = sevenzip.SevenZipFile
    orig = cls.__init__
    count = [0]

    def init(self, *a, **k):
        count[0] += 1
        return orig(self, *a, **k)
    cls.__init__ = init
    return count, (lambda: setattr(cls, "__init__", orig))


def limits_7z():
    """7z: an archive above MAX_7Z_FILE_SIZE is refused -- whatever it contains (members all filtered out, garbage after the
    signature) and before it is parsed; an archive of exactly the limit is accepted."""
    import dataclasses
    from sharepoint2text.parsing.extractors import archive_extractor as ae
    repo = os.environ.get("VERIF_REPO", "/repo")
    data = open(os.path.join(repo, "sharepoint2text/tests/resources/archives/test_archive.7z"), "rb").read()
    garbage = data[:6] + bytes((i * 37 + 11) & 255 for i in range(len(data) - 6))
    old, old_cfg = ae.MAX_7Z_FILE_SIZE, ae._config
    count, undo = _sevenzip_spy()
    early = None
    try:
        for label, blob, cfg in (("fixture", data, old_cfg), ("fixture, every member above the per-member limit", data, dataclasses.replace(old_cfg, max_memory_size=1)),
                                 ("7z signature followed by garbage", garbage, old_cfg)):
            ae._config = cfg
            for lim, want in ((len(blob) - 1, "too-large"), (len(blob), "ok"), (len(blob) + 1, "ok"), (1, "too-large")):
                if want == "ok" and label.startswith("7z signature"):
                    continue
                ae.MAX_7Z_FILE_SIZE = lim
                count[0] = 0
                got = _got(lambda: list(ae.read_archive(io.BytesIO(blob), "t.7z")))
                if got != want:
                    return {"target": "archive_extractor.py::_extract_from_7z_optimized", "inputs": {"archive": label, "archive_size": len(blob), "limit": lim},
                            "expected": want, "observed": got}
                if want == "too-large" and count[0] and early is None:
                    early = {"target": "archive_extractor.py::_extract_from_7z_optimized", "inputs": {"archive": label, "archive_size": len(blob), "limit": lim},
                            "expected": "refused before the archive is opened and its header parsed",
                            "observed": f"SevenZipFile was constructed {count[0]} time(s) before ExtractionFileTooLargeError"}
    finally:
        undo()
        ae.MAX_7Z_FILE_SIZE, ae._config = old, old_cfg
    return early


def limit_values():
    from sharepoint2text.parsing.extractors import archive_extractor as ae
    want = {"MAX_7Z_FILE_SIZE": 100 * 1024 * 1024, "MAX_MEMORY_SIZE": 10 * 1024 * 1024, "MAX_ARCHIVE_FILE_SIZE": 50 * 1024 * 1024}
    got = {k: getattr(ae, k, None) for k in want}
    got["_config.max_memory_size"] = getattr(getattr(ae, "_config", None), "max_memory_size", None)
    want["_config.max_memory_size"] = want["MAX_MEMORY_SIZE"]
    if got != want:
        return {"target": "archive_extractor.py limits", "inputs": {}, "expected": want, "observed": got}
    return None


def limits():
    return limits_read_file() or limits_file_types() or limits_7z() or limit_values()


def tar_links(limit=1000):
    """tar: a link member declares size 0 and extractfile() returns its target's data -- a member above the per-member limit must
    not come back through a hard link / symbolic link entry that points at it."""
    import dataclasses
    import tarfile
    from sharepoint2text.parsing.extractors import archive_extractor as ae
    big = ("B" * (limit * 3) + "\n").encode()
    for kind, ltype in (("hard link", tarfile.LNKTYPE), ("symbolic link", tarfile.SYMTYPE)):
        for order in ("target first", "link first"):
            buf = io.BytesIO()
            with tarfile.open(fileobj=buf, mode="w") as t:
                def add_big():
                    ti = tarfile.TarInfo("big.txt")
                    ti.size = len(big)
                    t.addfile(ti, io.BytesIO(big))
                def add_link():
                    li = tarfile.TarInfo("link.txt")
                    li.type, li.linkname, li.size = ltype, "big.txt", 0
                    t.addfile(li)
                if order == "target first":
                    add_big(); add_link()
                else:
                    add_link(); add_big()
                ti = tarfile.TarInfo("small.txt")
                ti.size = 6
                t.addfile(ti, io.BytesIO(b"small\n"))
            old = ae._config
            ae._config = dataclasses.replace(old, max_memory_size=limit)
            try:
                try:
                    res = list(ae.read_archive(io.BytesIO(buf.getvalue()), "t.tar"))
                except Exception:  # noqa
                    continue
            finally:
                ae._config = old
            over = [r for r in res if len(r.get_full_text()) > limit]
            if over:
                return {"reproduced": True, "target": "archive_extractor.py::_extract_from_tar_optimized",
                        "inputs": {"archive": "tar", "members": [("big.txt", len(big)), ("link.txt", f"{kind} -> big.txt, declared size 0"), ("small.txt", 6)],
                                   "order": order, "max_memory_size": limit},
                        "expected": f"no result from content larger than {limit} bytes",
                        "observed": f"a result with {len(over[0].get_full_text())} characters: the oversize member was read through the link entry"}
    return None


def member_boundary(limit=1000):
    """zip / tar: a member of exactly the per-member limit is extracted, a member one byte above it is not."""
    import dataclasses
    import sys as _sys
    _sys.path.insert(0, os.path.dirname(os.path.abspath(__file__)))
    import archive_probe
    from sharepoint2text.parsing.extractors import archive_extractor as ae

    def body(tag, n):
        return (tag + "." * (n - len(tag) - 1) + "\n").encode()
    members = [("below.txt", body("BELOW", limit - 1)), ("at.txt", body("ATLIMIT", limit)), ("over.txt", body("OVER", limit + 1)), ("twice.txt", body("TWICE", 2 * limit))]
    old = ae._config
    ae._config = dataclasses.replace(old, max_memory_size=limit)
    try:
        for kind, data, name in (("zip", archive_probe._zip(members), "t.zip"), ("zip-stored", archive_probe._zip(members, zipfile.ZIP_STORED), "t.zip"),
                                 ("tar", archive_probe._tar(members), "t.tar")):
            try:
                texts = [r.get_full_text() for r in ae.read_archive(io.BytesIO(data), name)]
            except Exception:  # noqa
                continue
            seen = {tag for tag in ("BELOW", "ATLIMIT", "OVER", "TWICE") if any(t.startswith(tag) for t in texts)}
            if seen != {"BELOW", "ATLIMIT"}:
                return {"reproduced": True, "target": "archive_extractor.py::read_archive",
                        "inputs": {"archive": kind, "members": [(n, len(d)) for n, d in members], "max_memory_size": limit},
                        "expected": "results for the members of limit-1 and limit bytes only", "observed": f"results for {sorted(seen)}"}
    finally:
        ae._config = old
    return None


def entry_limit(limit=500):
    """_process_archive_entry: an entry above MAX_ARCHIVE_FILE_SIZE is not handed to an extractor (the per-member limit is above it)."""
    from sharepoint2text.parsing.extractors import archive_extractor as ae
    old = ae.MAX_ARCHIVE_FILE_SIZE
    ae.MAX_ARCHIVE_FILE_SIZE = limit
    try:
        big = ("E" * (limit * 4) + "\n").encode()
        fn = getattr(ae, "_process_archive_entry", None)
        outs = []
        if fn is not None:
            try:
                outs = list(fn("big.txt", big, None, "big.txt"))
            except Exception:  # noqa
                outs = []
        if not outs:
            buf = io.BytesIO()
            with zipfile.ZipFile(buf, "w", zipfile.ZIP_STORED) as z:
                z.writestr("small.txt", "small\n")
                z.writestr("big.txt", big)
            try:
                outs = [r for r in ae.read_archive(io.BytesIO(buf.getvalue()), "t.zip")]
            except Exception:  # noqa
                outs = []
        over = [r for r in outs if len(r.get_full_text()) > limit]
        if over:
            return {"reproduced": True, "target": "archive_extractor.py::_process_archive_entry",
                    "inputs": {"entry": "big.txt", "entry_size": len(big), "MAX_ARCHIVE_FILE_SIZE": limit},
                    "expected": "the entry is skipped", "observed": f"extracted: a result with {len(over[0].get_full_text())} characters"}
    finally:
        ae.MAX_ARCHIVE_FILE_SIZE = old
    return None


# ------------------------------------------------- ODS / ODF repeat classes --
def _cells_and_rows(data):
    from sharepoint2text.parsing.extractors.open_office.ods_extractor import read_ods
    r = list(read_ods(io.BytesIO(data), "a.ods"))[0]
    return sum(len(row) for s in r.sheets for row in s.data), sum(len(s.data) for s in r.sheets), len(r.get_full_text())


def _rep(attr, n):
    return f'{attr}="{n}"'


EMPTY = '<table:table-cell {a}/>'
REPEAT_CLASSES = (
    # (class, known finding that records it or None, rows builder)
    ("non-empty cell x number-columns-repeated", "F11-cell-repeat",
     lambda n: f'<table:table-row>{cell("x", _rep("table:number-columns-repeated", n))}</table:table-row>'),
    ("non-empty row x number-rows-repeated", "F11-row-repeat",
     lambda n: f'<table:table-row {_rep("table:number-rows-repeated", n)}>{cell("x")}</table:table-row>'),
    ("text:s text:c", "F11-text-s",
     lambda n: f'<table:table-row><table:table-cell office:value-type="string"><text:p>a<text:s text:c="{n}"/>b</text:p></table:table-cell></table:table-row>'),
    ("empty cells x number-columns-repeated followed by a value", None,
     lambda n: f'<table:table-row>{EMPTY.format(a=_rep("table:number-columns-repeated", n))}{cell("x")}</table:table-row>'),
    ("value followed by empty cells x number-columns-repeated", None,
     lambda n: f'<table:table-row>{cell("x")}{EMPTY.format(a=_rep("table:number-columns-repeated", n))}</table:table-row><table:table-row>{cell("y")}</table:table-row>'),
    ("two runs of empty cells around a value", None,
     lambda n: f'<table:table-row>{EMPTY.format(a=_rep("table:number-columns-repeated", n))}{cell("x")}{EMPTY.format(a=_rep("table:number-columns-repeated", n))}{cell("y")}</table:table-row>'),
    ("empty row x number-rows-repeated followed by a row with a value", None,
     lambda n: f'<table:table-row {_rep("table:number-rows-repeated", n)}>{EMPTY.format(a="")}</table:table-row><table:table-row>{cell("x")}</table:table-row>'),
    ("bare row element (no cell children) x number-rows-repeated followed by a row with a value", None,
     lambda n: f'<table:table-row {_rep("table:number-rows-repeated", n)}/><table:table-row>{cell("x")}</table:table-row>'),
    ("row with only covered cells x number-rows-repeated followed by a row with a value", None,
     lambda n: f'<table:table-row {_rep("table:number-rows-repeated", n)}><table:covered-table-cell/><table:covered-table-cell table:number-columns-repeated="3"/></table:table-row>'
               f'<table:table-row>{cell("x")}</table:table-row>'),
    ("value row, then bare rows x number-rows-repeated, then a value row", None,
     lambda n: f'<table:table-row>{cell("a")}</table:table-row><table:table-row {_rep("table:number-rows-repeated", n)}/><table:table-row>{cell("x")}</table:table-row>'),
    ("empty rows x number-rows-repeated inside a row group / header rows, then a value", None,
     lambda n: f'<table:table-header-rows><table:table-row {_rep("table:number-rows-repeated", n)}>{EMPTY.format(a="")}</table:table-row></table:table-header-rows>'
               f'<table:table-row-group><table:table-row {_rep("table:number-rows-repeated", n)}/><table:table-row>{cell("x")}</table:table-row></table:table-row-group>'),
    ("covered cells x number-columns-repeated followed by a value", None,
     lambda n: f'<table:table-row><table:covered-table-cell {_rep("table:number-columns-repeated", n)}/>{cell("x")}</table:table-row>'),
    ("table:table-column x number-columns-repeated", None,
     lambda n: f'<table:table-column {_rep("table:number-columns-repeated", n)}/><table:table-row>{cell("x")}</table:table-row>'),
    ("empty cells x columns-repeated in an empty row x rows-repeated, then a value", None,
     lambda n: f'<table:table-row {_rep("table:number-rows-repeated", 400)}>{EMPTY.format(a=_rep("table:number-columns-repeated", n // 100))}</table:table-row>'
               f'<table:table-row>{cell("x")}</table:table-row>'),
)


def repeat_classes(known_for_obligation, recorded):
    """Runs the repeat-attribute document classes.  `known_for_obligation`: finding ids recorded for the obligation under replay (their
    classes are run first: a recorded defect that still reproduces is reported so that the known-finding rule can cover it);
    otherwise only the classes that no recorded finding describes are searched: amplification there is new."""
    def run(label, build, n):
        data = ods(build(n))
        try:
            cells, rows, chars = _cells_and_rows(data)
        except MemoryError:
            return True, {"class": label, "count": n, "input_bytes": len(data)}, "MemoryError"
        except Exception as e:  # noqa
            return False, {}, f"{type(e).__name__}"
        if max(cells, rows) > 1000 * len(data) / 8 or chars > 1000 * len(data):
            return True, {"class": label, "count": n, "input_bytes": len(data)}, f"{cells} cells / {rows} rows / {chars} characters materialised from {len(data)} input bytes"
        return False, {}, f"{cells} cells / {rows} rows / {chars} characters from {len(data)} bytes"
    order = [c for c in REPEAT_CLASSES if c[1] in known_for_obligation] + ([] if known_for_obligation else [c for c in REPEAT_CLASSES if c[1] is None or c[1] not in recorded])
    last = "no class amplifies"
    for label, _fid, build in order:
        ok, inputs, obs = run(label, build, 3000000 if "text:" in label else 300000)
        if ok:
            return True, inputs, obs
        last = obs
    return False, {}, last


def _recorded_findings():
    import json
    try:
        kf = json.load(open(os.path.join(os.path.dirname(os.path.dirname(os.path.abspath(__file__))), "known_findings.json")))
        return [f for f in kf.get("findings", []) if f.get("property") == "C12"]
    except Exception:  # noqa
        return []


# ------------------------------------------------------------ ZIP bomb classes --
class _Unseekable(io.RawIOBase):
    """A write-only stream without seek/tell: zipfile then writes *streamed* entries (general-purpose flag bit 3 + data descriptor),
    the way LibreOffice, Java and web exporters do."""

    def __init__(self):
        super().__init__()
        self.buf = bytearray()

    def writable(self):
        return True

    def seekable(self):
        return False

    def write(self, b):
        self.buf += bytes(b)
        return len(b)


def _patch_zip(data, name, flag_or=0, ext_attr_or=0):
    """Set bits in the general-purpose flags (central directory and local header) / external attributes of the entry `name`."""
    import struct
    b = bytearray(data)
    nm = name.encode()
    pos = 0
    while True:
        i = b.find(b"PK\x01\x02", pos)
        if i < 0:
            break
        nlen = struct.unpack_from("<H", b, i + 28)[0]
        if bytes(b[i + 46:i + 46 + nlen]) == nm:
            struct.pack_into("<H", b, i + 8, struct.unpack_from("<H", b, i + 8)[0] | flag_or)
            struct.pack_into("<I", b, i + 38, struct.unpack_from("<I", b, i + 38)[0] | ext_attr_or)
            lho = struct.unpack_from("<I", b, i + 42)[0]
            if bytes(b[lho:lho + 4]) == b"PK\x03\x04":
                struct.pack_into("<H", b, lho + 6, struct.unpack_from("<H", b, lho + 6)[0] | flag_or)
        pos = i + 4
    return bytes(b)


def _bomb_documents(n, incompressible=0):
    """(format, file name, bomb part, [(part name, bytes)]) -- the main content part carries one text run of n bytes (plus
    `incompressible` pseudo-random letters, to place the compression ratio between the guard's limits)."""
    import random
    rnd = random.Random(12)
    A = "A" * n + "".join(rnd.choice("abcdefghijklmnopqrstuvwxyzABCDEFGHIJKLMNOPQRSTUVWXYZ0123456789") for _ in range(incompressible))
    odf_manifest = '<?xml version="1.0"?><manifest:manifest xmlns:manifest="urn:oasis:names:tc:opendocument:xmlns:manifest:1.0"/>'
    odt = (f'<?xml version="1.0"?><office:document-content {NS}><office:body><office:text><text:p>{A}</text:p></office:text></office:body></office:document-content>')
    yield "odt", "a.odt", "content.xml", [("mimetype", "application/vnd.oasis.opendocument.text"), ("content.xml", odt), ("META-INF/manifest.xml", odf_manifest)]
    ods_rows = f'<table:table-row>{cell(A)}</table:table-row>'
    ods_c = (f'<?xml version="1.0"?><office:document-content {NS}><office:body><office:spreadsheet><table:table table:name="S">{ods_rows}</table:table>'
             f'</office:spreadsheet></office:body></office:document-content>')
    yield "ods", "a.ods", "content.xml", [("mimetype", "application/vnd.oasis.opendocument.spreadsheet"), ("content.xml", ods_c), ("META-INF/manifest.xml", odf_manifest)]
    W = "http://schemas.openxmlformats.org/wordprocessingml/2006/main"
    docx = f'<?xml version="1.0"?><w:document xmlns:w="{W}"><w:body><w:p><w:r><w:t>{A}</w:t></w:r></w:p></w:body></w:document>'
    ct = ('<?xml version="1.0"?><Types xmlns="http://schemas.openxmlformats.org/package/2006/content-types"><Default Extension="rels" '
          'ContentType="application/vnd.openxmlformats-package.relationships+xml"/><Default Extension="xml" ContentType="application/xml"/>'
          '<Override PartName="/word/document.xml" ContentType="application/vnd.openxmlformats-officedocument.wordprocessingml.document.main+xml"/></Types>')
    rels = ('<?xml version="1.0"?><Relationships xmlns="http://schemas.openxmlformats.org/package/2006/relationships"><Relationship Id="rId1" '
            'Type="http://schemas.openxmlformats.org/officeDocument/2006/relationships/officeDocument" Target="word/document.xml"/></Relationships>')
    yield "docx", "a.docx", "word/document.xml", [("[Content_Types].xml", ct), ("_rels/.rels", rels), ("word/document.xml", docx)]


def _write_zip(parts, method=zipfile.ZIP_DEFLATED, streamed=False, first=None):
    import warnings
    sink = _Unseekable() if streamed else io.BytesIO()
    with warnings.catch_warnings():
        warnings.simplefilter("ignore")
        with zipfile.ZipFile(sink, "w", method) as z:
            for name, data in parts:
                if first is not None and name == first[0]:
                    z.writestr(name, first[1])        # a small record of the same name in front of the bomb
                z.writestr(name, data, compress_type=zipfile.ZIP_STORED if name == "mimetype" else method)
    return bytes(sink.buf) if streamed else sink.getvalue()


def zip_bomb_classes(n=6_000_000, ratio_limit=200):
    """ZIP-based documents whose content part is a deflate bomb (compression ratio far above the documented guard limits), written
    in every way the container format offers.  Each must be refused; one that is accepted, decompressed and parsed is a measured
    amplification (characters of text per byte of input above the guard's own total-ratio limit)."""
    import sharepoint2text
    variants = [("plain deflated entry", dict(), None), ("streamed entries (flag bit 3 + data descriptor, as written to a non-seekable stream)", dict(streamed=True), None)]
    for bit, what in ((0x0008, "flag bit 3 set, no descriptor"), (0x0800, "flag bit 11 (UTF-8 name)"), (0x0002, "flag bit 1"), (0x0004, "flag bit 2"), (0x0006, "flag bits 1+2"),
                      (0x0020, "flag bit 5"), (0x2000, "flag bit 13")):
        variants.append((f"entry header with {what}", dict(), dict(flag_or=bit)))
    variants.append(("bomb entry carrying the MS-DOS directory attribute", dict(), dict(ext_attr_or=0x10)))
    variants.append(("bomb entry carrying the unix directory mode", dict(), dict(ext_attr_or=(0o040755 << 16))))
    for m, what in ((zipfile.ZIP_BZIP2, "bzip2"), (zipfile.ZIP_LZMA, "lzma")):
        variants.append((f"{what}-compressed bomb entry", dict(method=m), None))
    variants.append(("a small record of the same name in front of the bomb", dict(first=True), None))
    docs = [(d, variants) for d in _bomb_documents(n)]
    # a part whose ratio lies between the per-entry limit (500) and the total limit (200): only the total-ratio rule refuses it
    docs += [(d, [("content part at a compression ratio of about 300 (below the per-entry limit, above the total limit)", dict(), None),
                  ("the same, written as streamed entries", dict(streamed=True), None)]) for d in _bomb_documents(n, incompressible=n // 260)]
    for (fmt, fname, bomb_part, parts), vs in docs:
        try:
            reader = sharepoint2text.get_extractor(fname)
        except Exception:  # noqa
            continue
        for label, wkw, patch in vs:
            wkw = dict(wkw)
            if wkw.pop("first", None):
                wkw["first"] = (bomb_part, "<x/>")
            try:
                data = _write_zip(parts, **wkw)
            except Exception:  # noqa  (compression method not available)
                continue
            if patch:
                data = _patch_zip(data, bomb_part, **patch)
            try:
                res = list(reader(io.BytesIO(data), fname))
                chars = sum(len(r.get_full_text()) for r in res)
                got = f"accepted: {chars} characters of text"
            except Exception as e:  # noqa
                chars, got = 0, type(e).__name__
            if chars > ratio_limit * len(data):
                return {"reproduced": True, "target": f"read_{fmt} via util/zip_bomb guard",
                        "inputs": {"format": fmt, "class": label, "file_bytes": len(data), "bomb_part": bomb_part, "uncompressed_part_bytes": n},
                        "expected": f"refused (ExtractionZipBombError): the part inflates to more than {ratio_limit} times the file",
                        "observed": f"{got} from a {len(data)}-byte file ({chars // max(len(data), 1)} characters per input byte)"}
    return None


def native_scope(which):
    """Directed native scopes that run on every check (BOUNDED obligations of the pack)."""
    import sys as _sys
    _sys.path.insert(0, os.path.dirname(os.path.abspath(__file__)))
    import archive_probe
    if which == "explicit-limits":
        for fn in (limits_read_file, limits_file_types, limits_7z, limit_values, archive_probe.oversize_members, archive_probe.sevenzip_members, member_boundary, tar_links, entry_limit):
            r = fn()
            if r is not None:
                r["reproduced"] = True
                return r
        return {"reproduced": False, "note": "read_file / 7z / per-member / per-entry limits hold at their boundaries (files of 100, 5000, 70000 bytes, symlinks, "
                                             "the 7z fixture, zip/tar layouts with oversize, same-name and link members, 7z archives with an oversize member behind six spellings of a small member's path)"}
    if which == "zip-bomb-classes":
        r = zip_bomb_classes()
        if r is not None:
            return r
        return {"reproduced": False, "note": "odt / ods / docx with a 6 MB deflate-bomb content part in 14 container variants (streamed entries, header flag bits, "
                                             "directory attributes, bzip2 / lzma, duplicate names): all refused"}
    if which == "7z-declared-sizes":
        r = sevenzip_declared("")
        if r is not None:
            return r
        return {"reproduced": False, "note": "7z folders declared as 128 bytes whose packed LZMA / LZMA2 stream expands to 48 MB, alone and behind BCJ / COPY coders "
                                             "(chains recorded as known findings left out): none is inflated beyond the declared size"}
    if which == "repeat-attribute-classes":
        rec = {f["id"] for f in _recorded_findings()}
        ok, inputs, obs = repeat_classes(set(), rec)
        if ok:
            return {"reproduced": True, "target": "ods_extractor.py::read_ods", "inputs": inputs, "observed": obs,
                    "expected": "cost bounded by a fixed multiple of the input size (document class not among the recorded findings)"}
        return {"reproduced": False, "note": f"{sum(1 for c in REPEAT_CLASSES if c[1] is None or c[1] not in rec)} repeat-attribute document classes outside the recorded findings: none amplifies"}
    return {"reproduced": False, "note": "unknown scope"}


def find(req):
    scope = (req.get("extra") or {}).get("scope") if isinstance(req.get("extra"), dict) else None
    if not scope and "native-scope#" in (req.get("obligation") or ""):
        scope = req["obligation"].split("native-scope#", 1)[1]
    if scope:
        return native_scope(scope)
    if req.get("known_finding"):
        ok, inputs, obs = finding(req["known_finding"])
        return {"reproduced": bool(ok), "inputs": inputs, "observed": obs,
                "expected": "cost bounded by a fixed multiple of the input size / oversize members not decompressed"}
    ob = req.get("obligation", "") or ""
    funcs = ("read_file", "_extract_from_7z_optimized", "_extract_sheet", "_append_element_text", "_extract_from_zip_optimized", "_extract_from_tar_optimized",
             "_process_archive_entry")
    generic = (not ob) or ("out-of-subset" in ob and not any(f in ob for f in funcs))
    import sys as _sys
    _sys.path.insert(0, os.path.dirname(os.path.abspath(__file__)))
    import archive_probe

    def hit(r):
        if r is not None:
            r["reproduced"] = True
        return r

    # ---- explicit limits
    if generic or "read_file" in ob or "router.py::" in ob:
        r = hit(limits_read_file() or limits_file_types())
        if r:
            return r
    if generic or ("_extract_from_7z_optimized" in ob and "policy#" not in ob):
        r = hit(limits_7z())
        if r:
            return r
    if generic or "documented-values" in ob or "limits/" in ob:
        r = hit(limit_values())
        if r:
            return r
    if generic or "zip_bomb" in ob or "validate_zipfile" in ob or "open_zipfile" in ob:
        r = zip_bomb_classes()
        if r is not None:
            return r
    # ---- 7z: declared folder sizes, members sharing a path
    if "_parse_files_info" in ob or "_read_boolean_vector" in ob or ("sevenzip.py::" in ob and "repeat-site" in ob):
        ok, inputs, obs = sevenzip_file_count()
        if ok:
            return {"reproduced": True, "target": ob, "inputs": inputs, "observed": obs, "expected": "allocation bounded by a fixed multiple of the input size"}
        return {"reproduced": False, "note": obs}
    if generic or "sevenzip.py::" in ob or "_decompress" in ob:
        r = sevenzip_declared(ob)
        if r is not None:
            return r
        if not generic:
            return {"reproduced": False, "note": "no 7z folder is inflated beyond its declared size in the directed coder chains"}
    if generic or "_extract_from_7z_optimized" in ob or "_process_7z" in ob:
        r = archive_probe.sevenzip_members()
        if r is not None:
            return r
    # ---- per-member limits
    if generic or "member-size-check" in ob or "_extract_from_zip_optimized" in ob or "_extract_from_tar_optimized" in ob:
        r = archive_probe.oversize_members() or member_boundary()
        if r is not None:
            return r
    if generic or "regular-members-only" in ob or "_extract_from_tar_optimized" in ob:
        r = tar_links()
        if r is not None:
            return r
    if generic or "_process_archive_entry" in ob:
        r = entry_limit()
        if r is not None:
            return r
    # ---- amplification
    for key, fn in AMPLIFIERS:
        if key in ob:
            ok, inputs, obs = fn(ob) if fn is amp_rtf else fn()
            if ok:
                return {"reproduced": True, "target": ob, "inputs": inputs, "observed": obs,
                        "expected": "work and output bounded by a fixed multiple of the input size"}
            return {"reproduced": False, "note": obs}
    if generic:
        for key, fn in AMPLIFIERS:
            ok, inputs, obs = fn()
            if ok:
                return {"reproduced": True, "target": key, "inputs": inputs, "observed": obs,
                        "expected": "work and output bounded by a fixed multiple of the input size"}
    if generic or "amp-bounded#repeat-site" in ob or "_extract_sheet" in ob or "_append_element_text" in ob:
        rec = _recorded_findings()
        mine = {f["id"] for f in rec if f.get("obligation") == ob}
        ok, inputs, obs = repeat_classes(mine, {f["id"] for f in rec})
        if ok:
            return {"reproduced": True, "target": ob, "inputs": inputs, "observed": obs,
                    "expected": "cost bounded by a fixed multiple of the input size"}
        return {"reproduced": False, "note": obs}
    if generic or "oversize-members-are-not-decompressed" in ob or ("_extract_from_7z_optimized" in ob and "out-of-subset" in ob):
        ok, inputs, obs = finding("F12-7z-oversize-members-decompressed")
        if ok:
            return {"reproduced": True, "target": ob, "inputs": inputs, "observed": obs,
                    "expected": "oversize members not decompressed"}
    return {"reproduced": False, "note": "explicit limits hold at their boundaries natively; no amplifying input found in the directed classes"}


def rerun(stored):
    return find({"obligation": stored.get("obligation", "")})
