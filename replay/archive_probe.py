"""Native probes on real archives shared by the C09 and C12 replayers."""
import dataclasses
import io
import tarfile
import warnings
import zipfile


def _zip(members, method=zipfile.ZIP_DEFLATED):
    buf = io.BytesIO()
    with warnings.catch_warnings():
        warnings.simplefilter("ignore")
        with zipfile.ZipFile(buf, "w", method) as z:
            for name, data in members:
                z.writestr(name, data)
    return buf.getvalue()


def _tar(members):
    buf = io.BytesIO()
    with tarfile.open(fileobj=buf, mode="w") as t:
        for name, data in members:
            ti = tarfile.TarInfo(name)
            ti.size = len(data)
            t.addfile(ti, io.BytesIO(data))
    return buf.getvalue()


def oversize_members(limit=1000):
    """Members above the per-member limit never produce results (also when another record shares their name)."""
    from sharepoint2text.parsing.extractors import archive_extractor as ae
    small = b"small text\n"
    big = ("B" * (limit * 3) + "\n").encode()
    layouts = {
        "plain": [("a.txt", small), ("big.txt", big), ("z.txt", small)],
        "same-name small-then-big": [("a.txt", small), ("dup.txt", small), ("dup.txt", big)],
        "same-name big-then-small": [("dup.txt", big), ("dup.txt", small), ("z.txt", small)],
    }
    old = ae._config
    ae._config = dataclasses.replace(old, max_memory_size=limit)
    try:
        for label, members in layouts.items():
            for kind, data, name in (("zip", _zip(members), "t.zip"), ("zip-stored", _zip(members, zipfile.ZIP_STORED), "t.zip"), ("tar", _tar(members), "t.tar")):
                try:
                    res = list(ae.read_archive(io.BytesIO(data), name))
                except Exception as e:  # noqa
                    continue
                texts = [r.get_full_text() for r in res]
                over = [t for t in texts if len(t) > limit]
                if over:
                    return {"reproduced": True, "target": "archive_extractor.py::read_archive",
                            "inputs": {"archive": kind, "layout": label, "members": [(n, len(d)) for n, d in members], "max_memory_size": limit},
                            "expected": f"no result from a member larger than {limit} bytes",
                            "observed": f"a result with {len(over[0])} characters of text (the oversize member was read)"}
                n_small = sum(1 for n, d in members if len(d) <= limit)
                if kind != "tar" and label == "plain" and len(res) != n_small:
                    return {"reproduced": True, "target": "archive_extractor.py::read_archive",
                            "inputs": {"archive": kind, "layout": label, "members": [(n, len(d)) for n, d in members], "max_memory_size": limit},
                            "expected": f"{n_small} results (the members within the limit)", "observed": f"{len(res)} results"}
    finally:
        ae._config = old
    return None


# ------------------------------------------------------------------ 7z archives written by hand (no writer in the environment) --
def _num7(n):
    return bytes([n]) if n < 0x80 else b"\xff" + n.to_bytes(8, "little")


SZ_COPY, SZ_LZMA, SZ_LZMA2, SZ_BCJ = b"\x00", b"\x03\x01\x01", b"\x21", b"\x03\x03\x01\x03"


def sevenzip(folders):
    """A 7z archive with one member per folder.  folders: [(name, packed bytes, [(coder id, properties | None), ...], declared size)];
    the declared size is written for every coder of the folder and is the member's size (it need not be what the packed stream expands to)."""
    import struct
    import zlib
    n = len(folders)
    packed = b"".join(p for _, p, _, _ in folders)
    pack_info = b"\x06" + _num7(0) + _num7(n) + b"\x09" + b"".join(_num7(len(p)) for _, p, _, _ in folders) + b"\x00"
    fdefs, sizes = b"", b""
    for _, _, coders, declared in folders:
        f = _num7(len(coders))
        for cid, props in coders:
            f += bytes([len(cid) | (0x20 if props is not None else 0)]) + cid
            if props is not None:
                f += _num7(len(props)) + props
        for i in range(len(coders) - 1):
            f += _num7(i) + _num7(i + 1)
        fdefs += f
        sizes += b"".join(_num7(d) for d in (declared if isinstance(declared, (list, tuple)) else [declared] * len(coders)))
    unpack_info = b"\x07\x0b" + _num7(n) + b"\x00" + fdefs + b"\x0c" + sizes + b"\x00"
    streams_info = b"\x04" + pack_info + unpack_info + b"\x08\x00" + b"\x00"
    names = b"\x00" + b"".join(name.encode("utf-16-le") + b"\x00\x00" for name, _, _, _ in folders)
    files_info = b"\x05" + _num7(n) + b"\x11" + _num7(len(names)) + names + b"\x00"
    header = b"\x01" + streams_info + files_info + b"\x00"
    start = struct.pack("<QQI", len(packed), len(header), zlib.crc32(header))
    return b"7z\xbc\xaf\x27\x1c" + b"\x00\x04" + struct.pack("<I", zlib.crc32(start)) + start + packed + header


def sevenzip_copy(members):
    return sevenzip([(name, data, [(SZ_COPY, None)], len(data)) for name, data in members])


SAME_PATH_SPELLINGS = (("a.txt", "a.txt"), ("a.txt", "./a.txt"), ("a.txt", "d/../a.txt"), ("d/a.txt", "d//a.txt"), ("d/a.txt", "d/./a.txt"), ("a.txt", "a.txt/"))


def sevenzip_members(limit=1000):
    """7z members are written to a temp dir and read back by path: a member above the per-member limit never produces a result, also when
    another entry resolves to its path (same name, `./`, `d/../`, doubled separators), in either order and next to filtered entries."""
    from sharepoint2text.parsing.extractors import archive_extractor as ae
    small = b"small text\n"
    big = ("B" * (limit * 3) + "\n").encode()
    try:
        ok = list(ae.read_archive(io.BytesIO(sevenzip_copy([("b.txt", small)])), "ok.7z"))
        if len(ok) != 1 or "small text" not in ok[0].get_full_text():
            return None           # hand-written archives are not read by this reader: nothing is claimed
    except Exception:  # noqa
        return None
    layouts = [("plain", [("a.txt", small), ("big.txt", big), ("z.txt", small)])]
    for first, second in SAME_PATH_SPELLINGS:
        layouts.append((f"{first!r} small then {second!r} oversize", [(first, small), (second, big)]))
        layouts.append((f"{second!r} small then {first!r} oversize", [(second, small), (first, big)]))
        layouts.append((f"{first!r} oversize then {second!r} small", [(first, big), (second, small)]))
        layouts.append((f"{first!r} small, unsupported x.bin, {second!r} oversize", [(first, small), ("x.bin", small), (second, big)]))
    old = ae._config
    ae._config = dataclasses.replace(old, max_memory_size=limit)
    try:
        for label, members in layouts:
            try:
                res = list(ae.read_archive(io.BytesIO(sevenzip_copy(members)), "t.7z"))
            except Exception:  # noqa
                continue
            over = [t for t in (r.get_full_text() for r in res) if len(t) > limit]
            if over:
                return {"reproduced": True, "target": "archive_extractor.py::_extract_from_7z_optimized",
                        "inputs": {"archive": "7z (COPY coder, one folder per member)", "layout": label, "members": [(n, len(d)) for n, d in members], "max_memory_size": limit},
                        "expected": f"no result from a member larger than {limit} bytes",
                        "observed": f"a result with {len(over[0])} characters of text (the oversize member's bytes were read back from the temp dir)"}
            if label == "plain" and len(res) != 2:
                return {"reproduced": True, "target": "archive_extractor.py::_extract_from_7z_optimized",
                        "inputs": {"archive": "7z (COPY coder)", "layout": label, "members": [(n, len(d)) for n, d in members], "max_memory_size": limit},
                        "expected": "2 results (the members within the limit)", "observed": f"{len(res)} results"}
    finally:
        ae._config = old
    return None


def _lzma_streams(chunks):
    """-> {coder id: (properties, raw stream)} for the same data as LZMA (7z method 030101) and LZMA2 (21)."""
    import lzma
    c1 = lzma.LZMACompressor(format=lzma.FORMAT_ALONE, filters=[{"id": lzma.FILTER_LZMA1, "preset": 1, "dict_size": 1 << 20}])
    c2 = lzma.LZMACompressor(format=lzma.FORMAT_RAW, filters=[{"id": lzma.FILTER_LZMA2, "preset": 1, "dict_size": 1 << 20}])
    o1, o2 = [], []
    for ch in chunks():
        o1.append(c1.compress(ch))
        o2.append(c2.compress(ch))
    a = b"".join(o1) + c1.flush()
    b = b"".join(o2) + c2.flush()
    return {SZ_LZMA: (a[:5], a[13:]), SZ_LZMA2: (bytes([16]), b)}


def sevenzip_declared_sizes(tail=48 * 1024 * 1024, declared=128, skip=()):
    """A 7z folder is not decompressed beyond the size the archive declares for it: member declared as 128 bytes whose packed LZMA / LZMA2
    stream really expands to 128 bytes of text + `tail` zero bytes, alone and in filter chains (BCJ + .., COPY + ..).  Measured with
    tracemalloc against the archive size; a refusal is fine.  `skip`: chain labels recorded as known findings.  -> result dict | None."""
    import tracemalloc
    from sharepoint2text.parsing.extractors import archive_extractor as ae
    text = (b"declared part of the member. " * 8)[:declared]

    def chunks():
        yield text
        zero = bytes(1 << 20)
        for _ in range(tail // len(zero)):
            yield zero
    bomb = _lzma_streams(chunks)
    honest = _lzma_streams(lambda: iter([text]))
    chains = []
    for cid, cname in ((SZ_LZMA, "LZMA"), (SZ_LZMA2, "LZMA2")):
        chains.append((cname, [cid]))
        chains.append((f"BCJ+{cname}", [SZ_BCJ, cid]))
        chains.append((f"COPY+{cname}", [SZ_COPY, cid]))
        chains.append((f"BCJ+COPY+{cname}", [SZ_BCJ, SZ_COPY, cid]))
    # in a chain, also with the outer coders declaring the full expansion: only the decoder's own (last) size is the small one
    chains = [(l, c, None) for (l, c) in chains] + [(l, c, "outer coders declare the full expansion") for (l, c) in chains if len(c) > 1]
    readable = {}
    for label, chain, sizing in chains:
        if label in skip:
            continue
        last = chain[-1]

        def arch(streams, sizing=sizing):
            props, raw = streams[last]
            sizes = declared if sizing is None else [declared + tail] * (len(chain) - 1) + [declared]
            return sevenzip([("a.txt", raw, [(c, props if c == last else None) for c in chain], sizes)])
        if label not in readable:
            try:
                ok = list(ae.read_archive(io.BytesIO(arch(honest, None)), "h.7z"))
                readable[label] = len(ok) == 1 and "declared part" in ok[0].get_full_text()
            except Exception:  # noqa
                readable[label] = False
        if not readable[label]:
            continue              # this chain is not read by the reader: nothing to measure
        data = arch(bomb)
        tracemalloc.start()
        tracemalloc.reset_peak()
        base = tracemalloc.get_traced_memory()[0]
        try:
            res = list(ae.read_archive(io.BytesIO(data), "x.7z"))
            err = None
        except Exception as e:  # noqa
            res, err = [], e
        peak = tracemalloc.get_traced_memory()[1] - base
        tracemalloc.stop()
        if peak > max(64 * len(data), 16 * 1024 * 1024):
            return {"reproduced": True, "target": "util/sevenzip.py::SevenZipReader._decompress_folder", "chain": label,
                    "inputs": {"archive": f"7z, one folder with coders {label}{' (' + sizing + ')' if sizing else ''}, member declared as {declared} bytes, packed stream of {len(data)} bytes "
                                          f"that expands to {declared + tail} bytes", "archive_bytes": len(data)},
                    "expected": "decompression stops at the declared size (peak additional memory within a fixed multiple of the archive size); a refusal is fine",
                    "observed": f"peak additional memory {peak} bytes = {peak // len(data)}x the archive ({len(res)} results, error={type(err).__name__ if err else None})"}
    return None
