"""Native probes on real archives shared by the C09 and C12 replayers."""
import dataclasses
import io
import tarfile
import warnings
import zipfile


def _zip(members, method=zipfile.ZIP_DEFLATED):
    buf = io.BytesIO()
    with warnings.catch_warnings():
        warnings.simplefilter("ignore")
        with zipfile.ZipFile(buf, "w", method) as z:
            for name, data in members:
                z.writestr(name, data)
    return buf.getvalue()


def _tar(members):
    buf = io.BytesIO()
    with tarfile.open(fileobj=buf, mode="w") as t:
        for name, data in members:
            ti = tarfile.TarInfo(name)
            ti.size = len(data)
            t.addfile(ti, io.BytesIO(data))
    return buf.getvalue()


def oversize_members(limit=1000):
    """Members above the per-member limit never produce results (also when another record shares their name)."""
    from sharepoint2text.parsing.extractors import archive_extractor as ae
    small = b"small text\n"
    big = ("B" * (limit * 3) + "\n").encode()
    layouts = {
        "plain": [("a.txt", small), ("big.txt", big), ("z.txt", small)],
        "same-name small-then-big": [("a.txt", small), ("dup.txt", small), ("dup.txt", big)],
        "same-name big-then-small": [("dup.txt", big), ("dup.txt", small), ("z.txt", small)],
    }
    old = ae._config
    ae._config = dataclasses.replace(old, max_memory_size=limit)
    try:
        for label, members in layouts.items():
            for kind, data, name in (("zip", _zip(members), "t.zip"), ("zip-stored", _zip(members, zipfile.ZIP_STORED), "t.zip"), ("tar", _tar(members), "t.tar")):
                try:
                    res = list(ae.read_archive(io.BytesIO(data), name))
                except Exception as e:  # noqa
                    continue
                texts = [r.get_full_text() for r in res]
                over = [t for t in texts if len(t) > limit]
                if over:
                    return {"reproduced": True, "target": "archive_extractor.py::read_archive",
                            "inputs": {"archive": kind, "layout": label, "members": [(n, len(d)) for n, d in members], "max_memory_size": limit},
                            "expected": f"no result from a member larger than {limit} bytes",
                            "observed": f"a result with {len(over[0])} characters of text (the oversize member was read)"}
                n_small = sum(1 for n, d in members if len(d) <= limit)
                if kind != "tar" and label == "plain" and len(res) != n_small:
                    return {"reproduced": True, "target": "archive_extractor.py::read_archive",
                            "inputs": {"archive": kind, "layout": label, "members": [(n, len(d)) for n, d in members], "max_memory_size": limit},
                            "expected": f"{n_small} results (the members within the limit)", "observed": f"{len(res)} results"}
    finally:
        ae._config = old
    return None
