"""Concrete side of the C02 tree model (pure Python, no z3; usable under /venv/bin/python and python3-vt).

* `Node` -- finite ordered tree (tag, text, tail, attrib, children) = the abstract tree of
  contracts/etree_model.py; `to_et` turns it into a real xml.etree Element, `to_hdict` into the dict
  tree that `_HtmlTreeBuilder` builds.
* token discipline: every text leaf carries a unique alphanumeric token  V<n> (visible)  or
  X<CLASS><n> (excluded class: DEL, COM, NOTE, HF, RM ...).  `tokens(s)` = maximal alphanumeric runs.
  For token documents  tokens(out) == tokens(spec)  is equivalent to  nw-equality (nothing lost,
  duplicated, reordered, leaked) plus sq-separation (pieces separated in the source stay separated).
* spec functions written from the property statement (same case analysis as contracts/C02.py):
  odf_text, docx_dx / docx_table / docx_body, odt_body, odg_text, html_text, sheet_text.
  They return the *specified* text with one blank / newline at every boundary.
* small grammars enumerating all trees up to a stated bound (used for BOUNDED checks and as the
  native witness search).
"""
from __future__ import annotations

import itertools
import re
from dataclasses import dataclass, field
from xml.etree import ElementTree as ET


@dataclass
class Node:
    tag: str
    text: str | None = None
    tail: str | None = None
    attrib: dict = field(default_factory=dict)
    children: list = field(default_factory=list)

    def walk(self):
        yield self
        for c in self.children:
            yield from c.walk()

    def xml(self) -> str:
        return ET.tostring(to_et(self), encoding="unicode")

    def brief(self) -> str:
        """Compact rendering with local names (for witness records)."""
        t = self.tag.split("}")[-1]
        a = "".join(f" {k.split('}')[-1]}={v!r}" for k, v in self.attrib.items())
        inner = (self.text or "") + "".join(c.brief() for c in self.children)
        return f"<{t}{a}>{inner}</{t}>" + (self.tail or "")


def N(tag, *children, text=None, tail=None, **attrib):
    return Node(tag, text, tail, dict(attrib), list(children))


def to_et(n: Node) -> ET.Element:
    e = ET.Element(n.tag, dict(n.attrib))
    e.text, e.tail = n.text, n.tail
    for c in n.children:
        e.append(to_et(c))
    return e


def to_hdict(n: Node) -> dict:
    return {"tag": n.tag, "attrs": dict(n.attrib), "children": [to_hdict(c) for c in n.children],
            "text": n.text or "", "tail": n.tail or ""}


def nw(s: str) -> str:
    return "".join(ch for ch in s if not ch.isspace())


def sq(s: str) -> str:
    return re.sub(r"\s+", " ", s)


def tokens(s: str) -> list:
    return re.findall(r"[A-Za-z0-9]+", s)


class Tok:
    """Token source: unique class-tagged tokens."""

    def __init__(self):
        self.n = 0

    def v(self):
        self.n += 1
        return f"V{self.n}v"

    def x(self, cls):
        self.n += 1
        return f"X{cls}{self.n}x"


def classify(out: str, spec: str) -> dict | None:
    """None when tokens(out) == tokens(spec); otherwise what went wrong."""
    got, want = tokens(out), tokens(spec)
    if got == want:
        return None
    r = {"expected_tokens": want, "observed_tokens": got}
    leaked = [t for t in got if t.startswith("X")]
    parts = {t: [w for w in want if w in t and w != t] for t in got if t not in want}
    merged = {t: ws for t, ws in parts.items() if len(ws) >= 2 or (ws and any(x.startswith("X") for x in tokens_in(t)))}
    flat = []
    for t in got:
        flat.extend(split_known(t, want) or [t])
    lost = [w for w in want if flat.count(w) < want.count(w)]
    dup = sorted({w for w in want if flat.count(w) > want.count(w)})
    kinds = []
    if leaked or any("X" in t and t not in want for t in flat if t.startswith("X")):
        kinds.append("leaked")
    if lost:
        kinds.append("lost")
    if dup:
        kinds.append("duplicated")
    if any(len(split_known(t, want) or []) >= 2 for t in got):
        kinds.append("merged")
    if not kinds:
        kinds.append("reordered" if sorted(flat) == sorted(want) else "other")
    r.update(kinds=kinds, lost=lost, duplicated=dup, leaked=[t for t in flat if t.startswith("X")],
             merged=[t for t in got if len(split_known(t, want) or []) >= 2])
    return r


def tokens_in(t):
    return re.findall(r"[VX][A-Z]*\d+[vx]", t)


def split_known(t, want):
    """Split an observed token into generator tokens (V12v, XDEL3x) if it is a concatenation of them."""
    ps = tokens_in(t)
    return ps if ps and "".join(ps) == t else None


# =============================================================================================
# ODF recursive text (open_office/_shared.py)
# =============================================================================================
ODF_NS = {
    "office": "urn:oasis:names:tc:opendocument:xmlns:office:1.0", "text": "urn:oasis:names:tc:opendocument:xmlns:text:1.0",
    "table": "urn:oasis:names:tc:opendocument:xmlns:table:1.0", "draw": "urn:oasis:names:tc:opendocument:xmlns:drawing:1.0",
    "dc": "http://purl.org/dc/elements/1.1/", "style": "urn:oasis:names:tc:opendocument:xmlns:style:1.0",
    "svg": "urn:oasis:names:tc:opendocument:xmlns:svg-compatible:1.0", "xlink": "http://www.w3.org/1999/xlink",
    "presentation": "urn:oasis:names:tc:opendocument:xmlns:presentation:1.0", "meta": "urn:oasis:names:tc:opendocument:xmlns:meta:1.0",
}


def q(ns, name, table=ODF_NS):
    return "{%s}%s" % (table[ns], name)


T_P, T_H, T_S, T_TAB, T_LB, T_SPAN = (q("text", x) for x in ("p", "h", "s", "tab", "line-break", "span"))
T_NOTE, T_LIST, T_LI, T_LH, T_SECTION, T_TRACKED = (q("text", x) for x in ("note", "list", "list-item", "list-header", "section", "tracked-changes"))
T_C = q("text", "c")
O_ANNOT = q("office", "annotation")
TB_TABLE, TB_ROW, TB_CELL, TB_HROWS, TB_COVERED = (q("table", x) for x in ("table", "table-row", "table-cell", "table-header-rows", "covered-table-cell"))
D_FRAME, D_TEXTBOX = q("draw", "frame"), q("draw", "text-box")


def odf_text(e: Node, space=T_S, tab=T_TAB, lb=T_LB, attr_c=T_C, skip=frozenset()) -> str:
    out = [e.text or ""]
    for c in e.children:
        if c.tag in skip:
            pass
        elif c.tag == space:
            try:
                n = int(c.attrib.get(attr_c, "1"))
            except ValueError:
                n = 1
            out.append(" " * n if n > 0 else "")
        elif c.tag == tab:
            out.append("\t")
        elif c.tag == lb:
            out.append("\n")
        else:
            out.append(odf_text(c, space, tab, lb, attr_c, skip))
        out.append(c.tail or "")
    return "".join(out)


# =============================================================================================
# DOCX (ms_modern/docx_extractor.py)
# =============================================================================================
W = "{http://schemas.openxmlformats.org/wordprocessingml/2006/main}"
MC = "{http://schemas.openxmlformats.org/markup-compatibility/2006}"
V_ = "{urn:schemas-microsoft-com:vml}"
WPS = "{http://schemas.microsoft.com/office/word/2010/wordprocessingShape}"


def docx_dx(e: Node, top=False) -> str:
    """Visible text of an inline / paragraph-level element (contracts/C02.py `dx`)."""
    t = e.tag
    if t.endswith("}AlternateContent"):
        ch = [c for c in e.children if c.tag == MC + "Choice"]
        return "".join(docx_dx(c) for c in ch[0].children) if ch else ""
    if t.endswith("}Fallback") or t == W + "moveFrom":
        return ""
    if t == W + "r":
        out = []
        for c in e.children:
            if c.tag == W + "t":
                out.append(c.text or "")
            elif c.tag == W + "tab":
                out.append("\t")
            elif c.tag in (W + "br", W + "cr"):
                out.append("\n")
            else:
                out.append(docx_dx(c))
        return "".join(out)
    kids = "".join(docx_dx(c) for c in e.children)
    if t == W + "p" and not top:
        return "\n" + kids + "\n"
    return kids


def docx_par(p: Node) -> str:
    return docx_dx(p, top=True)


def docx_blocks(container: Node) -> list:
    """Pieces (paragraph texts, table cell pieces) of a block container in document order."""
    out = []
    for c in container.children:
        if c.tag == W + "p":
            t = docx_par(c)
            if t.strip():
                out.append(t)
        elif c.tag == W + "tbl":
            out.extend(docx_table(c))
        elif c.tag == W + "sdt":
            for sc in c.children:
                if sc.tag == W + "sdtContent":
                    out.extend(docx_blocks(sc))
                    break
        elif c.tag == W + "customXml":
            out.extend(docx_blocks(c))
    return out


def _through_sdt(container: Node, want: str):
    """Children with tag `want`, looking through content controls (w:sdt/w:sdtContent, w:customXml)."""
    for c in container.children:
        if c.tag == want:
            yield c
        elif c.tag == W + "sdt":
            for sc in c.children:
                if sc.tag == W + "sdtContent":
                    yield from _through_sdt(sc, want)
                    break
        elif c.tag == W + "customXml":
            yield from _through_sdt(c, want)


def docx_table(tbl: Node) -> list:
    out = []
    for row in _through_sdt(tbl, W + "tr"):
        for cell in _through_sdt(row, W + "tc"):
            out.extend(docx_blocks(cell))
    return out


def docx_body(body: Node) -> str:
    return "\n".join(docx_blocks(body))


def wp(*runs):
    return N(W + "p", *runs)


def wr(*items):
    return N(W + "r", *items)


def wt(s):
    return N(W + "t", text=s)


def wpara(tok):
    return wp(wr(wt(tok)))


def wtbl(rows):
    return N(W + "tbl", *[N(W + "tr", *[N(W + "tc", *cell) for cell in r]) for r in rows])


def wsdt(*blocks):
    return N(W + "sdt", N(W + "sdtPr"), N(W + "sdtContent", *blocks))


def gen_docx_paragraphs():
    """All paragraphs built from <= 3 inline items out of a small alphabet (bound: 3 items, nesting depth 2)."""
    def items(tk):
        def txbx(pars):
            return N(W + "txbxContent", *pars)
        return {
            "t": lambda: [wr(wt(tk.v()))],
            "tab": lambda: [wr(wt(tk.v()), N(W + "tab"), wt(tk.v()))],
            "br": lambda: [wr(wt(tk.v()), N(W + "br"), wt(tk.v()))],
            "cr": lambda: [wr(wt(tk.v()), N(W + "cr"), wt(tk.v()))],
            "tab-run": lambda: [wr(wt(tk.v())), wr(N(W + "tab")), wr(wt(tk.v()))],
            "del": lambda: [N(W + "del", wr(N(W + "delText", text=tk.x("DEL"))))],
            "ins": lambda: [N(W + "ins", wr(wt(tk.v())))],
            "moveFrom": lambda: [N(W + "moveFrom", wr(wt(tk.x("DEL"))))],
            "moveTo": lambda: [N(W + "moveTo", wr(wt(tk.v())))],
            "hyperlink": lambda: [N(W + "hyperlink", wr(wt(tk.v())))],
            "sdt": lambda: [N(W + "sdt", N(W + "sdtContent", wr(wt(tk.v()))))],
            "smartTag": lambda: [N(W + "smartTag", wr(wt(tk.v())))],
            "instr": lambda: [wr(N(W + "instrText", text=tk.x("RM")))],
            "comment-ref": lambda: [N(W + "commentRangeStart"), wr(wt(tk.v())), N(W + "commentRangeEnd"), wr(N(W + "commentReference"))],
            "pict-textbox": lambda: [wr(N(W + "pict", N(V_ + "shape", N(V_ + "textbox", txbx([wpara(tk.v())])))))],
            "ac-textbox": lambda: (lambda a, b: [wr(N(MC + "AlternateContent",
                                     N(MC + "Choice", N(W + "drawing", N(WPS + "txbx", txbx([wpara(a), wpara(b)])))),
                                     N(MC + "Fallback", N(W + "pict", N(V_ + "textbox", txbx([wpara(a), wpara(b)]))))))])(tk.v(), tk.v()),
        }
    names = list(items(Tok()))
    for k in (1, 2, 3):
        for combo in itertools.product(names, repeat=k):
            if k == 3 and len(set(combo)) == 3 and "t" not in combo:
                continue            # keep the scope small: triples contain a plain run or a repetition
            tk = Tok()
            it = items(tk)
            runs = []
            for nm in combo:
                runs.extend(it[nm]())
            yield "+".join(combo), wp(*runs)
    # directed: the excluded run-level constructs (source of a tracked move, tracked deletion) nested in every run-level
    # container the recursive walk descends into, alone / after a plain run / between two plain runs / two levels deep.
    # Name `<construct>@<container>`: the case is the one of the construct.
    containers = {
        "hyperlink": lambda *k: N(W + "hyperlink", *k),
        "sdt": lambda *k: N(W + "sdt", N(W + "sdtPr"), N(W + "sdtContent", *k)),
        "smartTag": lambda *k: N(W + "smartTag", *k),
        "customXml": lambda *k: N(W + "customXml", *k),
        "fldSimple": lambda *k: N(W + "fldSimple", *k),
        "ins": lambda *k: N(W + "ins", *k),
    }
    excluded = {
        "moveFrom": lambda tk: N(W + "moveFrom", wr(wt(tk.x("DEL")))),
        "del": lambda tk: N(W + "del", wr(N(W + "delText", text=tk.x("DEL")))),
    }
    for xn, xf in excluded.items():
        for cn, cf in containers.items():
            tk = Tok()
            yield f"{xn}@{cn}", wp(cf(xf(tk)))
            tk = Tok()
            yield f"t+{xn}@{cn}", wp(wr(wt(tk.v())), cf(wr(wt(tk.v())), xf(tk), wr(wt(tk.v()))))
            tk = Tok()
            yield f"t+{xn}@{cn}+t", wp(wr(wt(tk.v())), cf(xf(tk)), wr(wt(tk.v())))
            for cn2, cf2 in containers.items():
                tk = Tok()
                yield f"{xn}@{cn2}@{cn}", wp(cf(wr(wt(tk.v())), cf2(xf(tk), wr(wt(tk.v())))))


def gen_docx_tables():
    """Tables with <= 2 rows x <= 2 cells; a cell holds 1-2 blocks out of {p, p p, nested 1x1 / 1x2 table, sdt(p)};
    rows / cells optionally wrapped in a content control."""
    def cell_alts(tk, depth):
        alts = [lambda: [wpara(tk.v())], lambda: [wpara(tk.v()), wpara(tk.v())], lambda: [wsdt(wpara(tk.v()))]]
        if depth > 0:
            alts.append(lambda: [wpara(tk.v()), wtbl([[[wpara(tk.v())]]])])
            alts.append(lambda: [wtbl([[[wpara(tk.v())], [wpara(tk.v())]]])])
        return alts
    n_alts = len(cell_alts(Tok(), 1))
    shapes = [(1,), (2,), (1, 1), (2, 1)]
    for shape in shapes:
        ncells = sum(shape)
        for choice in itertools.product(range(n_alts), repeat=ncells):
            tk = Tok()
            alts = cell_alts(tk, 1)
            it = iter(choice)
            rows = [[alts[next(it)]() for _ in range(n)] for n in shape]
            kind = "nested-table" if any(c >= 3 for c in choice) else ("content-control" if 2 in choice else "flat")
            yield kind, wtbl(rows)
    # rows / cells inside content controls
    tk = Tok()
    yield "content-control", N(W + "tbl", wsdt(N(W + "tr", N(W + "tc", wpara(tk.v())))), N(W + "tr", wsdt(N(W + "tc", wpara(tk.v())))))


def gen_docx_bodies():
    """Bodies of <= 3 blocks out of {p, blank p, 1x2 table, sdt(p), sdt(p p), customXml(p), sectPr}."""
    def alts(tk):
        return {
            "p": lambda: wpara(tk.v()),
            "blank": lambda: wp(wr(wt("  "))),
            "tbl": lambda: wtbl([[[wpara(tk.v())], [wpara(tk.v())]]]),
            "sdt": lambda: wsdt(wpara(tk.v())),
            "sdt2": lambda: wsdt(wpara(tk.v()), wpara(tk.v())),
            "customXml": lambda: N(W + "customXml", wpara(tk.v())),
            "sectPr": lambda: N(W + "sectPr"),
        }
    names = list(alts(Tok()))
    for k in (0, 1, 2, 3):
        for combo in itertools.product(names, repeat=k):
            tk = Tok()
            a = alts(tk)
            kind = "content-control" if any(c in ("sdt", "sdt2", "customXml") for c in combo) else "plain"
            yield kind + ":" + "+".join(combo), N(W + "body", *[a[c]() for c in combo])


# =============================================================================================
# ODT (open_office/odt_extractor.py)
# =============================================================================================
ODT_SKIP = frozenset({T_NOTE, O_ANNOT})


def odt_par(p: Node) -> str:
    """Paragraph text: ODF recursive text, with paragraphs nested in it (text boxes) delimited by a boundary."""
    out = [p.text or ""]
    for c in p.children:
        if c.tag in ODT_SKIP:
            pass
        elif c.tag == T_S:
            try:
                n = int(c.attrib.get(T_C, "1"))
            except ValueError:
                n = 1
            out.append(" " * max(n, 0))
        elif c.tag == T_TAB:
            out.append("\t")
        elif c.tag == T_LB:
            out.append("\n")
        elif c.tag in (T_P, T_H):
            out.append("\n" + odt_par(c) + "\n")
        else:
            out.append(odt_par(c))
        out.append(c.tail or "")
    return "".join(out)


def odt_blocks(e: Node) -> list:
    """Visible pieces under a block container, in document order, each exactly once."""
    out = []
    for c in e.children:
        if c.tag in (T_P, T_H):
            t = odt_par(c)
            if t.strip():
                out.append(t)
        elif c.tag == T_TRACKED:
            pass                                      # tracked deletions are excluded from the full text
        elif c.tag == TB_COVERED:
            pass                                      # covered (merged-away) cells are not visible
        else:
            out.extend(odt_blocks(c))                 # tables, rows, cells, lists, items, sections, frames: transparent
    return out


def odt_body(body: Node) -> str:
    return "\n".join(odt_blocks(body))


def tp(s, *kids):
    return N(T_P, *kids, text=s)


def tlist(*items):
    return N(T_LIST, *[N(T_LI, *it) for it in items])


def ttable(rows):
    return N(TB_TABLE, *[N(TB_ROW, *[N(TB_CELL, *cell) for cell in r]) for r in rows])


def gen_odt_bodies():
    """office:text bodies of <= 2 blocks out of a small alphabet (nesting depth <= 2)."""
    def alts(tk):
        return {
            "p": lambda: tp(tk.v()),
            "h": lambda: N(T_H, text=tk.v()),
            "span": lambda: N(T_P, N(T_SPAN, text=tk.v(), tail=tk.v()), text=tk.v()),
            "s-tab-lb": lambda: N(T_P, N(T_S, tail=tk.v()), N(T_TAB, tail=tk.v()), N(T_LB, tail=tk.v()), text=tk.v()),
            "note": lambda: N(T_P, N(T_NOTE, N(q("text", "note-body"), tp(tk.x("NOTE"))), tail=tk.v()), text=tk.v()),
            "annotation": lambda: N(T_P, N(O_ANNOT, tp(tk.x("COM")), tail=tk.v()), text=tk.v()),
            "list": lambda: tlist([tp(tk.v())], [tp(tk.v())]),
            "nested-list": lambda: tlist([tp(tk.v()), tlist([tp(tk.v())])], [tp(tk.v())]),
            "list-heading": lambda: tlist([N(T_H, text=tk.v()), tp(tk.v())]),
            "list-header": lambda: N(T_LIST, N(T_LH, tp(tk.v())), N(T_LI, tp(tk.v()))),
            "table": lambda: ttable([[[tp(tk.v())], [tp(tk.v())]], [[tp(tk.v())]]]),
            "nested-table": lambda: ttable([[[tp(tk.v()), ttable([[[tp(tk.v())]]])]]]),
            "cell-heading": lambda: ttable([[[N(T_H, text=tk.v())]]]),
            "cell-list": lambda: ttable([[[tlist([tp(tk.v())])]]]),
            "header-rows": lambda: N(TB_TABLE, N(TB_HROWS, N(TB_ROW, N(TB_CELL, tp(tk.v())))), N(TB_ROW, N(TB_CELL, tp(tk.v())))),
            "section": lambda: N(T_SECTION, tp(tk.v()), tp(tk.v())),
            "tracked-deletion": lambda: N(T_TRACKED, N(q("text", "changed-region"), N(q("text", "deletion"), tp(tk.x("DEL"))))),
            "textbox": lambda: N(T_P, N(D_FRAME, N(D_TEXTBOX, tp(tk.v()), tp(tk.v())), tail=tk.v()), text=tk.v()),
            "list-table": lambda: tlist([ttable([[[tp(tk.v())]]])]),
        }
    names = list(alts(Tok()))
    for k in (1, 2):
        for combo in itertools.product(names, repeat=k):
            tk = Tok()
            a = alts(tk)
            yield "+".join(combo), N(q("office", "text"), *[a[c]() for c in combo])


def gen_odg_roots():
    """office:drawing with one page of <= 2 shapes out of {text box, custom shape with text, text box in a group,
    list in a text box, text box anchored inside a paragraph, annotation}."""
    def alts(tk):
        box = lambda *ps: N(D_FRAME, N(D_TEXTBOX, *ps))
        return {
            "textbox": lambda: box(tp(tk.v()), tp(tk.v())),
            "heading": lambda: box(N(T_H, text=tk.v())),
            "custom-shape": lambda: N(q("draw", "custom-shape"), tp(tk.v())),
            "group": lambda: N(q("draw", "g"), box(tp(tk.v())), box(tp(tk.v()))),
            "list": lambda: box(tlist([tp(tk.v())], [tp(tk.v()), tlist([tp(tk.v())])])),
            "spans": lambda: box(N(T_P, N(T_SPAN, text=tk.v(), tail=tk.v()), N(T_LB, tail=tk.v()), text=tk.v())),
            "nested-textbox": lambda: box(N(T_P, box(tp(tk.v()), tp(tk.v())), text=tk.v())),
            "annotation": lambda: box(N(T_P, N(O_ANNOT, tp(tk.x("COM"))), text=tk.v())),
        }
    names = list(alts(Tok()))
    for k in (1, 2):
        for combo in itertools.product(names, repeat=k):
            tk = Tok()
            a = alts(tk)
            yield "+".join(combo), N(q("office", "drawing"), N(q("draw", "page"), *[a[c]() for c in combo]))


def odg_text(root: Node) -> str:
    skip = frozenset({O_ANNOT})

    def par(p):
        out = [p.text or ""]
        for c in p.children:
            if c.tag in skip:
                pass
            elif c.tag == T_S:
                out.append(" ")
            elif c.tag == T_TAB:
                out.append("\t")
            elif c.tag == T_LB:
                out.append("\n")
            elif c.tag in (T_P, T_H):
                out.append("\n" + par(c) + "\n")
            else:
                out.append(par(c))
            out.append(c.tail or "")
        return "".join(out)

    def blocks(e):
        out = []
        for c in e.children:
            if c.tag in (T_P, T_H):
                out.append(par(c))
            elif c.tag not in skip:
                out.extend(blocks(c))
        return out
    return "\n".join(blocks(root))


def gen_odp_pages():
    """draw:page with 1-2 text frames holding 1-3 paragraphs; paragraph style names out of
    {TitleText, Title, SubTitle, BodyText, P1, none}; optionally a comment paragraph and speaker notes."""
    styles = ["TitleText", "Title", "SubTitle", "BodyText", "P1", None]
    ST = q("text", "style-name")

    def para(tk, st):
        return N(T_P, text=tk.v(), **({ST: st} if st else {}))
    for shape in ((1,), (2,), (3,), (1, 1), (2, 1), (1, 2)):
        for combo in itertools.product(styles, repeat=sum(shape)):
            if sum(shape) == 3 and len({c for c in combo}) == 3 and "Title" not in combo and "TitleText" not in combo:
                continue
            for extra in ("", "comment", "notes"):
                tk = Tok()
                it = iter(combo)
                frames = []
                for yi, n in enumerate(shape):
                    pars = [para(tk, next(it)) for _ in range(n)]
                    if extra == "comment" and yi == 0:
                        pars.append(N(O_ANNOT, N(T_P, text=tk.x("COM"))))
                    frames.append(N(D_FRAME, N(D_TEXTBOX, *pars), **{q("svg", "y"): f"{yi + 1}cm", q("svg", "x"): "1cm"}))
                if extra == "notes":
                    frames.append(N(q("presentation", "notes"), N(D_FRAME, N(D_TEXTBOX, N(T_P, text=tk.x("NOTE"))))))
                titles = sum(1 for c in combo if c and "Title" in c)
                case = "several-title-styled-paragraphs" if titles > 1 else ("one-title" if titles == 1 else "no-title")
                yield case + ("+" + extra if extra else ""), N(q("draw", "page"), *frames)


def gen_odp_shape_pages():
    """draw:page whose text sits in a grouped text frame (draw:g) or directly in a drawing shape (draw:custom-shape,
    draw:rect ...: Impress shapes carry text:p children), next to an ordinary title frame."""
    ST = q("text", "style-name")
    frame = lambda tk, y: N(D_FRAME, N(D_TEXTBOX, N(T_P, text=tk.v())), **{q("svg", "y"): f"{y}cm", q("svg", "x"): "1cm"})
    cases = {
        "grouped-frames": lambda tk: [N(q("draw", "g"), frame(tk, 3), frame(tk, 4))],
        "nested-group": lambda tk: [N(q("draw", "g"), N(q("draw", "g"), frame(tk, 3)))],
        "shape-text": lambda tk: [N(q("draw", "custom-shape"), N(T_P, text=tk.v())), N(q("draw", "rect"), N(T_P, text=tk.v()))],
    }
    for name, mk in cases.items():
        tk = Tok()
        title = N(D_FRAME, N(D_TEXTBOX, N(T_P, text=tk.v(), **{ST: "TitleText"})), **{q("svg", "y"): "1cm", q("svg", "x"): "1cm"})
        yield name, N(q("draw", "page"), title, *mk(tk))


def odp_page_tokens(page: Node) -> list:
    """Visible tokens of the slide (text-box paragraphs outside comments and outside the notes), sorted:
    text_combined orders by category (title, body, other) by documented design, so only multiplicity is specified."""
    out = []

    def rec(e, hidden):
        for c in e.children:
            h = hidden or c.tag in (O_ANNOT, q("presentation", "notes"))
            if c.tag == T_P and not h:
                out.extend(tokens(odf_text(c, skip=frozenset({O_ANNOT}))))
            rec(c, h)
    rec(page, False)
    return sorted(out)


# ---------------------------------------------------------------------------------------------
# PPTX paragraphs (DrawingML text body)
A = "{http://schemas.openxmlformats.org/drawingml/2006/main}"


def pptx_body_text(tx: Node) -> str:
    pars = []
    for p in tx.children:
        if p.tag != A + "p":
            continue
        out = []
        for c in p.children:
            if c.tag in (A + "r", A + "fld"):
                out.extend(t.text or "" for t in c.children if t.tag == A + "t")
            elif c.tag == A + "br":
                out.append("\n")
        pars.append("".join(out))
    return "\n".join(pars)


def gen_pptx_bodies():
    """a:txBody with <= 2 paragraphs of <= 3 items out of {run, run, break, field, endParaRPr}."""
    def item(tk, k):
        return {"r": lambda: N(A + "r", N(A + "rPr"), N(A + "t", text=tk.v())), "br": lambda: N(A + "br"),
                "fld": lambda: N(A + "fld", N(A + "t", text=tk.v())), "end": lambda: N(A + "endParaRPr")}[k]()
    kinds = ["r", "br", "fld", "end"]
    pars = [c for n in (0, 1, 2, 3) for c in itertools.product(kinds, repeat=n)]
    for np_ in (1, 2):
        for combo in itertools.product(pars, repeat=np_):
            if np_ == 2 and (len(combo[0]) > 2 or len(combo[1]) > 2):
                continue
            tk = Tok()
            yield N(A + "txBody", N(A + "bodyPr"), *[N(A + "p", *[item(tk, k) for k in par]) for par in combo])


# =============================================================================================
# HTML (html_extractor.py)  -- dict tree as built by _HtmlTreeBuilder
# =============================================================================================
H_REMOVE = {"script", "style", "noscript", "iframe", "object", "embed", "applet"}
H_BLOCK = {"p", "div", "section", "article", "header", "footer", "nav", "aside", "main", "h1", "h2", "h3", "h4", "h5", "h6",
           "blockquote", "pre", "address", "figure", "figcaption", "form", "fieldset", "ul", "ol", "li", "dl", "dt", "dd",
           "table", "tr", "hr", "br", "td", "th", "caption", "thead", "tbody", "tfoot"}


def html_text(n: Node, with_tail=False) -> str:
    """Visible text in document order; block / cell / line-break boundaries are whitespace."""
    if n.tag in H_REMOVE:
        body = ""
    else:
        body = (n.text or "") + "".join(html_text(c, True) for c in n.children)
        if n.tag in H_BLOCK:
            body = "\n" + body + "\n"
    return body + ((n.tail or "") if with_tail else "")


def gen_html_bodies():
    def alts(tk):
        def td(*kids, text=None):
            return N("td", *kids, text=text)
        return {
            "p": lambda: N("p", text=tk.v()),
            "inline": lambda: N("p", N("b", text=tk.v(), tail=tk.v()), text=tk.v()),
            "spans": lambda: N("div", N("span", text=tk.v()), N("span", text=tk.v()), N("div", text=tk.v(), tail=tk.v())),
            "h-br": lambda: N("h1", N("br", tail=tk.v()), text=tk.v()),
            "p-br": lambda: N("p", N("br", tail=tk.v()), text=tk.v()),
            "list": lambda: N("ul", N("li", text=tk.v()), N("li", text=tk.v())),
            "nested-list": lambda: N("ul", N("li", N("ul", N("li", text=tk.v())), text=tk.v())),
            "list-item-tails": lambda: N("ul", N("li", N("b", text=tk.v(), tail=tk.v()), text=tk.v(), tail=tk.v()), N("li", text=tk.v(), tail=tk.v())),
            "hr": lambda: N("div", N("hr", tail=tk.v()), text=tk.v()),
            "table": lambda: N("table", N("tr", td(text=tk.v()), td(text=tk.v())), N("tr", td(text=tk.v()))),
            "table-caption": lambda: N("table", N("caption", text=tk.v()), N("tr", td(text=tk.v()))),
            "table-sections": lambda: N("table", N("thead", N("tr", N("th", text=tk.v()))), N("tbody", N("tr", td(text=tk.v())))),
            "nested-table": lambda: N("table", N("tr", td(N("table", N("tr", td(text=tk.v()), td(text=tk.v()))), text=tk.v()))),
            "cell-paragraphs": lambda: N("table", N("tr", td(N("p", text=tk.v()), N("p", text=tk.v())))),
            "cell-br": lambda: N("table", N("tr", td(N("br", tail=tk.v()), text=tk.v()))),
            "table-tail": lambda: N("table", N("tr", td(text=tk.v())), tail=tk.v()),
            "dl": lambda: N("dl", N("dt", text=tk.v()), N("dd", text=tk.v())),
            "pre": lambda: N("pre", text=tk.v() + "  " + tk.v()),
            # elements without content of their own: the text that FOLLOWS them (their tail) is ordinary body text
            "empty-leaves": lambda: N("p", N("img", tail=tk.v()), N("span", tail=tk.v()), N("a", tail=tk.v(), name="x"), N("input", tail=tk.v()), text=tk.v()),
            "empty-blocks": lambda: N("div", N("div", tail=tk.v()), N("i", tail=tk.v()), N("p", tail=tk.v())),
        }
    names = list(alts(Tok()))
    for k in (1, 2):
        for combo in itertools.product(names, repeat=k):
            tk = Tok()
            a = alts(tk)
            yield "+".join(combo), N("body", *[a[c]() for c in combo])


def gen_html_sources():
    """HTML *source text* (through html.parser and the tree builder): a container with <= 4 items out of
    {block element, inline element, bare text, removed element (script / style / noscript, with and without nested
    markup), comment, void element}.  Yields (case, source, specified text)."""
    def alts(tk):
        return {
            "p": lambda: (lambda a: (f"<p>{a}</p>", "\n" + a + "\n"))(tk.v()),
            "span": lambda: (lambda a: (f"<span>{a}</span>", a))(tk.v()),
            "a": lambda: (lambda a: (f'<a href="#x">{a}</a>', a))(tk.v()),
            "text": lambda: (lambda a: (f" {a} ", " " + a + " "))(tk.v()),
            "script": lambda: (f"<script>var {tk.x('RM')} = 1;</script>", ""),
            "style": lambda: (f"<style>.{tk.x('RM')} {{}}</style>", ""),
            "noscript": lambda: (f"<noscript><p>{tk.x('RM')}</p><img src=x></noscript>", ""),
            "comment": lambda: (f"<!-- {tk.x('COM')} -->", ""),
            "br": lambda: ("<br>", "\n"),
        }
    names = list(alts(Tok()))
    removed = {"script", "style", "noscript"}
    for k in (1, 2, 3, 4):
        for combo in itertools.product(names, repeat=k):
            if k == 4 and not (removed & set(combo) and "text" in combo):
                continue
            tk = Tok()
            a = alts(tk)
            parts = [a[c]() for c in combo]
            for wrap, pre, post in (("div", "<div>", "</div>"), ("body", "", "")):
                src = "<html><head><title>t</title></head><body>" + pre + "".join(x for x, _ in parts) + post + "</body></html>"
                spec = "".join(y for _, y in parts)
                after_removed = any(combo[i] in removed and combo[i + 1] == "text" and i > 0 and combo[i - 1] not in removed | {"text", "comment"}
                                    for i in range(len(combo) - 1))
                case = "text-after-removed-element" if after_removed else ("removed-markup" if removed & set(combo) else "plain")
                yield case, src, spec
    # empty-element syntax (<x/>, XHTML): an element written this way has no content and no end tag; whatever it is (a removed
    # element, a void element, a block, a table cell, a title) the text after it is ordinary text of the container
    def empties(tk):
        return {
            "script/": lambda: ('<script type="text/javascript" src="r.js"/>', ""),
            "iframe/": lambda: ('<iframe src="f.html"/>', ""),
            "object/": lambda: ('<object data="fig.svg"/>', ""),
            "style/": lambda: ("<style/>", ""),
            "br/": lambda: ("<br/>", "\n"),
            "img/": lambda: ('<img src="x"/>', ""),
            "span/": lambda: ("<span/>", ""),
            "p/": lambda: ("<p/>", "\n"),
            "text": lambda: (lambda a: (f" {a} ", " " + a + " "))(tk.v()),
            "p": lambda: (lambda a: (f"<p>{a}</p>", "\n" + a + "\n"))(tk.v()),
        }
    enames = list(empties(Tok()))
    for k in (2, 3):
        for combo in itertools.product(enames, repeat=k):
            idx = [i for i, c in enumerate(combo) if c.endswith("/")]
            if not idx or not any(c in ("text", "p") for c in combo[idx[0] + 1:]):
                continue
            tk = Tok()
            a = empties(tk)
            parts = [a[c]() for c in combo]
            src = "<html><head><title>t</title></head><body><div>" + "".join(x for x, _ in parts) + "</div></body></html>"
            yield "empty-element-syntax", src, "".join(y for _, y in parts)


def gen_rtf_sources():
    """RTF *source text*: prologue, then <= 3 items out of {body paragraph, header / footer group (plain, with a
    formatting group, with a nested skip destination before / after its text, with the destination one level deeper),
    body picture (plain, with a starred sub-destination, with a starred sub-destination that has nested groups),
    starred destination}.  Yields (case, source, specified text)."""
    PRO = "{\\rtf1\\ansi\\deff0{\\fonttbl{\\f0\\fswiss Arial;}}{\\colortbl;\\red0\\green0\\blue0;}{\\info{\\title demo}}\n"
    pict = lambda tk: "{\\pict\\pngblip\\picw1\\pich1 " + tk.x("PIC") + "}"

    def alts(tk):
        hf = lambda kw, inner: ("{\\" + kw + " \\pard\\plain " + inner + "\\par}\n", "")
        return {
            "par": lambda: (lambda a: ("\\pard\\plain " + a + "\\par\n", a + "\n"))(tk.v()),
            "header-plain": lambda: hf("header", tk.x("HF")),
            "footer-format-group": lambda: hf("footerf", "{\\b " + tk.x("HF") + "}" + tk.x("HF")),
            "header-starred": lambda: hf("headerl", "{\\*\\shpinst " + tk.x("RM") + "}" + tk.x("HF")),
            "header-pict-then-text": lambda: hf("header", pict(tk) + " " + tk.x("HF")),
            "footer-text-pict-text": lambda: hf("footer", tk.x("HF") + pict(tk) + " " + tk.x("HF")),
            "header-object-then-text": lambda: hf("headerf", "{\\object\\objemb " + tk.x("RM") + "}" + tk.x("HF")),
            "header-pict-one-level-deeper": lambda: hf("header", "{\\b " + pict(tk) + tk.x("HF") + "}"),
            "pict": lambda: (pict(tk) + "\n", ""),
            "pict-starred-sub": lambda: ("{\\pict{\\*\\picprop " + tk.x("RM") + "}\\pngblip " + tk.x("PIC") + "}\n", ""),
            "pict-starred-sub-nested": lambda: ("{\\pict{\\*\\picprop{\\sp{\\sn shapeType}{\\sv 75}}}\\pngblip " + tk.x("PIC") + "}\n", ""),
            "starred": lambda: ("{\\*\\generator " + tk.x("RM") + ";}", ""),
        }
    kinds = {"header-pict-then-text": "header-with-nested-destination", "footer-text-pict-text": "header-with-nested-destination",
             "header-object-then-text": "header-with-nested-destination",
             "header-pict-one-level-deeper": "destination-nested-deeper-inside-skipped-group",
             "pict-starred-sub-nested": "destination-nested-deeper-inside-skipped-group"}
    names = list(alts(Tok()))
    for k in (1, 2, 3):
        for combo in itertools.product(names, repeat=k):
            if k == 3 and "par" not in combo:
                continue
            ks = {kinds[c] for c in combo if c in kinds}
            if len(ks) > 1:
                continue
            tk = Tok()
            a = alts(tk)
            parts = [a[c]() for c in combo]
            tail = tk.v()
            src = PRO + "".join(x for x, _ in parts) + "\\pard\\plain " + tail + "\\par}"
            yield (next(iter(ks)) if ks else "plain"), src, "".join(y for _, y in parts) + tail


# =============================================================================================
# sheets: cell grids
# =============================================================================================
def sheet_text(rows) -> str:
    """Row-major text of a grid of display strings: cells separated by whitespace, rows by a line break."""
    return "\n".join(" ".join(c for c in r) for r in rows)


def gen_grids(max_rows=3, max_cols=3, ragged=True):
    """All grids with <= max_rows rows and <= max_cols cells per row; a cell is a token, an empty string or a
    two-word string; every row length combination when `ragged`."""
    for nr in range(0, max_rows + 1):
        lens = itertools.product(range(0, max_cols + 1), repeat=nr) if ragged else [(c,) * nr for c in range(0, max_cols + 1)]
        for ls in lens:
            cells = sum(ls)
            for kinds in itertools.product("te2", repeat=cells) if cells <= 4 else [tuple("t" * cells), tuple(("te2" * cells)[:cells])]:
                tk = Tok()
                it = iter(kinds)
                grid = []
                for n in ls:
                    row = []
                    for _ in range(n):
                        k = next(it)
                        row.append(tk.v() if k == "t" else ("" if k == "e" else tk.v() + " " + tk.v()))
                    grid.append(row)
                yield grid
