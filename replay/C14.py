"""Native replay for C14 (runs under /venv/bin/python on the REAL code, no z3).

Builds packages in memory (docx / pptx / xlsx / odt / odp / ods / odg / epub: minimal zips with
hand-written XML and relationship files) that embed 0..K tiny PNG / JPEG / GIF / BMP files,
referenced by relative, parent-relative (`../media/x.png`) and absolute (`/ppt/media/x.png`)
targets, shared between anchors, missing, external.  Executable form of the property:

  for every anchor, in document order, whose media part exists in the package, iterate_images()
  returns one image with  bytes == the embedded file,  content type == the table image of the
  extension,  pixel size == the size the file declares,  number == running 1..n,  sitting on the
  unit of the anchor;  nothing else is returned;  concat(u.get_images() for u in units) ==
  list(iterate_images()) for slide / sheet formats;  unit tables are document tables.

`find(req)` runs the checks that belong to the obligation named in the request and returns the first
failing input; `rerun(stored)` re-executes a stored one.
"""
import io
import itertools
import os
import random
import struct
import zipfile

CT = {"png": "image/png", "jpg": "image/jpeg", "jpeg": "image/jpeg", "gif": "image/gif", "bmp": "image/bmp"}


# ------------------------------------------------------------------------ image files --
def png(w, h, tail=b""):
    return b"\x89PNG\r\n\x1a\n" + struct.pack(">I", 13) + b"IHDR" + struct.pack(">II", w, h) + b"\x08\x02\x00\x00\x00" + b"\x00\x00\x00\x00" + tail


def gif(w, h, tail=b""):
    return b"GIF89a" + struct.pack("<HH", w, h) + b"\x00\x00\x00" + b"\x3b" + tail


def bmp(w, h, tail=b""):
    body = struct.pack("<IiiHHIIiiII", 40, w, h, 1, 24, 0, 0, 0, 0, 0, 0)
    return b"BM" + struct.pack("<IHHI", 14 + len(body) + len(tail), 0, 0, 54) + body + tail


def jpeg(w, h, tail=b"", pre=(b"\xff\xe0" + struct.pack(">H", 16) + b"JFIF\x00\x01\x01\x00\x00\x01\x00\x01\x00\x00",), sof=0xC0):
    out = b"\xff\xd8" + b"".join(pre)
    out += bytes([0xFF, sof]) + struct.pack(">HBHHB", 11, 8, h, w, 1) + b"\x01\x11\x00"
    return out + b"\xff\xda" + struct.pack(">H", 8) + b"\x01\x01\x00\x00\x3f\x00" + tail + b"\xff\xd9"


MAKERS = {"png": png, "gif": gif, "bmp": bmp, "jpg": jpeg, "jpeg": jpeg}


def declared_size(data):
    """Reference sniffers written from the format specifications (PNG IHDR, GIF logical screen, BMP info header, JPEG SOFn)."""
    if data[:8] == b"\x89PNG\r\n\x1a\n" and len(data) >= 24 and data[12:16] == b"IHDR":
        return struct.unpack(">II", data[16:24])
    if data[:6] in (b"GIF87a", b"GIF89a") and len(data) >= 10:
        return struct.unpack("<HH", data[6:10])
    if data[:2] == b"BM" and len(data) >= 26:
        w, h = struct.unpack("<ii", data[18:26])
        return (abs(w), abs(h))
    if data[:2] == b"\xff\xd8":
        o = 2
        while o + 4 <= len(data):
            if data[o] != 0xFF:
                return None
            m = data[o + 1]
            if m == 0xFF:
                o += 1
                continue
            if m in (0x00, 0x01) or 0xD0 <= m <= 0xDA:
                return None
            ln = struct.unpack(">H", data[o + 2:o + 4])[0]
            if ln < 2:
                return None
            if 0xC0 <= m <= 0xCF and m not in (0xC4, 0xC8, 0xCC):
                if ln >= 7 and o + 2 + ln <= len(data):
                    h, w = struct.unpack(">HH", data[o + 5:o + 9])
                    return (w, h)
                return None
            o += 2 + ln
    return None


def make_image(rnd, ext, k):
    w, h = rnd.randint(1, 300), rnd.randint(1, 300)
    tail = bytes(rnd.getrandbits(8) for _ in range(rnd.randint(0, 12))) + bytes([k])
    return MAKERS[ext](w, h, tail)


# ---------------------------------------------------------------------- spec: resolve --
def resolve(base_dir, target):
    """OPC / ODF / EPUB reference resolution (DESIGN Appendix B)."""
    segs = target.split("/") if target.startswith("/") else base_dir.split("/") + target.split("/")
    out = []
    for s in segs:
        if s == "..":
            if out:
                out.pop()
        elif s and s != ".":
            out.append(s)
    return "/".join(out)


def ref(style, src_dir, part):
    """A reference to package part `part` written in `style` from a source part in `src_dir`."""
    if style == "absolute":
        return "/" + part
    sd = [s for s in src_dir.split("/") if s]
    pp = part.split("/")
    common = 0
    while common < len(sd) and common < len(pp) - 1 and sd[common] == pp[common]:
        common += 1
    rel = "/".join([".."] * (len(sd) - common) + pp[common:])
    if style == "relative":
        return rel
    if style == "parent":           # forced through the parent directory even when not needed
        if rel.startswith("../") or not sd:
            return rel
        return "../" + sd[-1] + "/" + rel
    if style == "dot":
        return "./" + rel
    raise ValueError(style)


# ------------------------------------------------------------------------ scenarios --
class Anchor:
    """One picture placed in the body: which media part, how it is referenced, what kind of anchor."""

    def __init__(self, media, style="relative", kind="embedded", name=""):
        self.media, self.style, self.kind, self.name = media, style, kind, name   # kind: embedded | missing | external

    def key(self):
        return [self.media, self.style, self.kind]


class Scenario:
    noise = None       # "before" | "after": every relationship part also lists relationships of all the OTHER standard kinds of its source
                       # part (a worksheet: vmlDrawing, comments, hyperlink ...), before / after the picture relationships
    manifest = None    # ODF: None = empty manifest | "typed" | "untyped" (pictures listed with media-type="") | "absent"
    strict = False     # relationship types of the Strict namespace (purl.oclc.org/ooxml) instead of the Transitional one

    def __init__(self, fmt, units, media, note=""):
        self.fmt, self.units, self.media, self.note = fmt, units, media, note   # units: list[list[Anchor]], media: {part: bytes}

    def describe(self):
        d = {"format": self.fmt, "units": [[a.key() for a in u] for u in self.units],
             "media": {k: {"bytes": len(v), "declared_size": declared_size(v)} for k, v in self.media.items()}, "note": self.note}
        if self.noise:
            d["relationships_of_other_kinds"] = self.noise
        if self.strict:
            d["relationship_namespace"] = "strict"
        if self.manifest:
            d["odf_manifest"] = self.manifest
        return d


def zip_bytes(files, first=None):
    buf = io.BytesIO()
    with zipfile.ZipFile(buf, "w", zipfile.ZIP_DEFLATED) as z:
        if first:
            z.writestr(zipfile.ZipInfo(first[0]), first[1], compress_type=zipfile.ZIP_STORED)
        for k, v in files.items():
            z.writestr(k, v)
    return buf.getvalue()


RELNS = 'xmlns="http://schemas.openxmlformats.org/package/2006/relationships"'
IMG_T = "http://schemas.openxmlformats.org/officeDocument/2006/relationships/image"
A = 'xmlns:a="http://schemas.openxmlformats.org/drawingml/2006/main"'
R = 'xmlns:r="http://schemas.openxmlformats.org/officeDocument/2006/relationships"'


def rels_xml(rels):
    rows = "".join(f'<Relationship Id="{i}" Type="{t}" Target="{tg}"{" TargetMode=" + chr(34) + "External" + chr(34) if ext else ""}/>'
                   for (i, t, tg, ext) in rels)
    return f'<?xml version="1.0" encoding="UTF-8"?><Relationships {RELNS}>{rows}</Relationships>'


def with_noise(sc, part, kind, src_dir, rels, files):
    """The relationship rows of a source part of kind `part` (worksheet / drawing / document / presentation) whose picture rows are
    `rels`: with sc.noise, relationships of every other standard kind (contracts/c14_reltypes) are listed before / after them, each with
    a small XML part of its own as target."""
    if not sc.noise:
        return rels
    from contracts import c14_reltypes as RT
    rows = []
    for k, t in enumerate(RT.others(part, kind, strict=sc.strict)):
        files[f"{src_dir}/other/{part}{k}.xml"] = '<?xml version="1.0"?><x/>'
        rows.append((f"rIdN{part[:2]}{k}", t, f"other/{part}{k}.xml", False))
    return rows + rels if sc.noise == "before" else rels + rows


def rel_t(sc, kind):
    from contracts import c14_reltypes as RT
    return (RT.STRICT if sc.strict else RT.TRANSITIONAL) + kind


def target_of(a, src_dir, media_dir):
    if a.kind == "external":
        return "http://example.invalid/" + a.media.rsplit("/", 1)[-1], True
    return ref(a.style, src_dir, a.media), False


# ---- pptx ----
def build_pptx(sc):
    files = {"[Content_Types].xml": '<?xml version="1.0"?><Types xmlns="http://schemas.openxmlformats.org/package/2006/content-types"/>'}
    P = 'xmlns:p="http://schemas.openxmlformats.org/presentationml/2006/main"'
    ids, prels = [], []
    for n, anchors in enumerate(sc.units, start=1):
        ids.append(f'<p:sldId id="{255 + n}" r:id="rId{n}"/>')
        prels.append((f"rId{n}", rel_t(sc, "slide"), f"slides/slide{n}.xml", False))
        pics, rels = [], []
        for j, a in enumerate(anchors, start=1):
            tg, ext = target_of(a, "ppt/slides", "ppt/media")
            if a.kind != "dangling":
                rels.append((f"rId{j}", rel_t(sc, "image"), tg, ext))
            pics.append(f'<p:pic><p:nvPicPr><p:cNvPr id="{j + 1}" name="Pic {j}" descr="d{j}"/><p:cNvPicPr/><p:nvPr/></p:nvPicPr>'
                        f'<p:blipFill><a:blip r:embed="rId{j}"/></p:blipFill>'
                        f'<p:spPr><a:xfrm><a:off x="{j * 1000}" y="{j * 1000}"/><a:ext cx="95250" cy="190500"/></a:xfrm></p:spPr></p:pic>')
        files[f"ppt/slides/slide{n}.xml"] = (f'<?xml version="1.0"?><p:sld {P} {A} {R}><p:cSld><p:spTree><p:nvGrpSpPr/><p:grpSpPr/>'
                                             f'{"".join(pics)}</p:spTree></p:cSld></p:sld>')
        files[f"ppt/slides/_rels/slide{n}.xml.rels"] = rels_xml(rels)
    files["ppt/presentation.xml"] = f'<?xml version="1.0"?><p:presentation {P} {R}><p:sldIdLst>{"".join(ids)}</p:sldIdLst></p:presentation>'
    files["ppt/_rels/presentation.xml.rels"] = rels_xml(with_noise(sc, "presentation", "slide", "ppt", prels, files))
    files.update(sc.media)
    return zip_bytes(files)


# ---- docx ----
def build_docx(sc):
    W = 'xmlns:w="http://schemas.openxmlformats.org/wordprocessingml/2006/main"'
    WP = 'xmlns:wp="http://schemas.openxmlformats.org/drawingml/2006/wordprocessingDrawing"'
    PIC = 'xmlns:pic="http://schemas.openxmlformats.org/drawingml/2006/picture"'
    paras, rels = [], []
    j = 0
    for anchors in sc.units:
        for a in anchors:
            j += 1
            tg, ext = target_of(a, "word", "word/media")
            if a.kind != "dangling":
                rels.append((f"rId{j}", rel_t(sc, "image"), tg, ext))
            paras.append(f'<w:p><w:r><w:drawing><wp:inline><wp:extent cx="95250" cy="190500"/><a:graphic><a:graphicData>'
                         f'<pic:pic><pic:nvPicPr><pic:cNvPr id="{j}" name="Pic {j}" descr="d{j}"/></pic:nvPicPr>'
                         f'<pic:blipFill><a:blip r:embed="rId{j}"/></pic:blipFill></pic:pic></a:graphicData></a:graphic></wp:inline></w:drawing></w:r></w:p>')
    files = {"[Content_Types].xml": '<?xml version="1.0"?><Types xmlns="http://schemas.openxmlformats.org/package/2006/content-types"/>',
             "word/document.xml": f'<?xml version="1.0"?><w:document {W} {WP} {A} {PIC} {R}><w:body><w:p><w:r><w:t>text</w:t></w:r></w:p>{"".join(paras)}</w:body></w:document>',
             }
    files["word/_rels/document.xml.rels"] = rels_xml(with_noise(sc, "document", "image", "word", rels, files))
    files.update(sc.media)
    return zip_bytes(files)


# ---- xlsx ----
def build_xlsx(sc):
    M = 'xmlns="http://schemas.openxmlformats.org/spreadsheetml/2006/main"'
    XDR = 'xmlns:xdr="http://schemas.openxmlformats.org/drawingml/2006/spreadsheetDrawing"'
    files = {}
    ct = ['<Default Extension="rels" ContentType="application/vnd.openxmlformats-package.relationships+xml"/>',
          '<Default Extension="xml" ContentType="application/xml"/>',
          '<Override PartName="/xl/workbook.xml" ContentType="application/vnd.openxmlformats-officedocument.spreadsheetml.sheet.main+xml"/>']
    sheets, wrels = [], []
    for n, anchors in enumerate(sc.units, start=1):
        sheets.append(f'<sheet name="S{n}" sheetId="{n}" r:id="rId{n}"/>')
        wrels.append((f"rId{n}", "http://schemas.openxmlformats.org/officeDocument/2006/relationships/worksheet", f"worksheets/sheet{n}.xml", False))
        ct.append(f'<Override PartName="/xl/worksheets/sheet{n}.xml" ContentType="application/vnd.openxmlformats-officedocument.spreadsheetml.worksheet+xml"/>')
        drawing = f'<drawing r:id="rId1"/>' if anchors else ""
        files[f"xl/worksheets/sheet{n}.xml"] = (f'<?xml version="1.0"?><worksheet {M} {R}><sheetData><row r="1"><c r="A1" t="inlineStr"><is><t>v{n}</t></is></c></row></sheetData>'
                                                f'{drawing}</worksheet>')
        if anchors:
            files[f"xl/worksheets/_rels/sheet{n}.xml.rels"] = rels_xml(with_noise(sc, "worksheet", "drawing", "xl/worksheets",
                                                                                  [("rId1", rel_t(sc, "drawing"), f"../drawings/drawing{n}.xml", False)], files))
            rels, pics = [], []
            for j, a in enumerate(anchors, start=1):
                tg, ext = target_of(a, "xl/drawings", "xl/media")
                if a.kind != "dangling":
                    rels.append((f"rId{j}", rel_t(sc, "image"), tg, ext))
                pics.append(f'<xdr:oneCellAnchor><xdr:from><xdr:col>{j}</xdr:col><xdr:colOff>0</xdr:colOff><xdr:row>{j}</xdr:row><xdr:rowOff>0</xdr:rowOff></xdr:from>'
                            f'<xdr:pic><xdr:nvPicPr><xdr:cNvPr id="{j}" name="Pic {j}" descr="d{j}"/><xdr:cNvPicPr/></xdr:nvPicPr>'
                            f'<xdr:blipFill><a:blip r:embed="rId{j}"/></xdr:blipFill><xdr:spPr/></xdr:pic><xdr:clientData/></xdr:oneCellAnchor>')
            files[f"xl/drawings/drawing{n}.xml"] = f'<?xml version="1.0"?><xdr:wsDr {XDR} {A} {R}>{"".join(pics)}</xdr:wsDr>'
            files[f"xl/drawings/_rels/drawing{n}.xml.rels"] = rels_xml(with_noise(sc, "drawing", "image", "xl/drawings", rels, files))
    files["xl/workbook.xml"] = f'<?xml version="1.0"?><workbook {M} {R}><sheets>{"".join(sheets)}</sheets></workbook>'
    files["xl/_rels/workbook.xml.rels"] = rels_xml(wrels)
    files["_rels/.rels"] = rels_xml([("rId1", "http://schemas.openxmlformats.org/officeDocument/2006/relationships/officeDocument", "xl/workbook.xml", False)])
    files["[Content_Types].xml"] = f'<?xml version="1.0"?><Types xmlns="http://schemas.openxmlformats.org/package/2006/content-types">{"".join(ct)}</Types>'
    files.update(sc.media)
    return zip_bytes(files)


# ---- ODF ----
ODFNS = ('xmlns:office="urn:oasis:names:tc:opendocument:xmlns:office:1.0" xmlns:text="urn:oasis:names:tc:opendocument:xmlns:text:1.0" '
         'xmlns:table="urn:oasis:names:tc:opendocument:xmlns:table:1.0" xmlns:draw="urn:oasis:names:tc:opendocument:xmlns:drawing:1.0" '
         'xmlns:presentation="urn:oasis:names:tc:opendocument:xmlns:presentation:1.0" '
         'xmlns:svg="urn:oasis:names:tc:opendocument:xmlns:svg-compatible:1.0" xmlns:xlink="http://www.w3.org/1999/xlink"')
ODF_MIME = {"odt": "application/vnd.oasis.opendocument.text", "odp": "application/vnd.oasis.opendocument.presentation",
            "ods": "application/vnd.oasis.opendocument.spreadsheet", "odg": "application/vnd.oasis.opendocument.graphics"}


def odf_frame(a, j, size=True):
    if a.kind == "external":
        href = "http://example.invalid/" + a.media.rsplit("/", 1)[-1]
    else:
        href = ref(a.style, "", a.media)
    dims = ' svg:width="1in" svg:height="2in"' if size else ""
    return f'<draw:frame draw:name="Pic {j}"{dims}><draw:image xlink:href="{href}" xlink:type="simple"/><svg:desc>d{j}</svg:desc></draw:frame>'


def build_odf(sc):
    fmt = sc.fmt
    j = 0
    if fmt == "odt":
        body = "<office:text>" + "".join(f"<text:p>{odf_frame(a, i)}</text:p>" for i, a in enumerate(sc.units[0] if sc.units else [], start=1)) + "</office:text>"
    elif fmt == "odp":
        pages = []
        for n, anchors in enumerate(sc.units, start=1):
            pages.append(f'<draw:page draw:name="page{n}">' + "".join(odf_frame(a, i) for i, a in enumerate(anchors, start=1)) + "</draw:page>")
        body = "<office:presentation>" + "".join(pages) + "</office:presentation>"
    elif fmt == "odg":
        pages = []
        for n, anchors in enumerate(sc.units, start=1):
            pages.append(f'<draw:page draw:name="page{n}">' + "".join(odf_frame(a, i) for i, a in enumerate(anchors, start=1)) + "</draw:page>")
        body = "<office:drawing>" + "".join(pages) + "</office:drawing>"
    else:
        tabs = []
        for n, anchors in enumerate(sc.units, start=1):
            shapes = "<table:shapes>" + "".join(odf_frame(a, i) for i, a in enumerate(anchors, start=1)) + "</table:shapes>" if anchors else ""
            tabs.append(f'<table:table table:name="S{n}">{shapes}<table:table-row><table:table-cell office:value-type="string"><text:p>v{n}</text:p></table:table-cell></table:table-row></table:table>')
        body = "<office:spreadsheet>" + "".join(tabs) + "</office:spreadsheet>"
    files = {"content.xml": f'<?xml version="1.0"?><office:document-content {ODFNS}><office:body>{body}</office:body></office:document-content>',
             "META-INF/manifest.xml": '<?xml version="1.0"?><manifest:manifest xmlns:manifest="urn:oasis:names:tc:opendocument:xmlns:manifest:1.0"/>'}
    if sc.manifest in ("typed", "untyped"):
        # the manifest lists every member: "typed" with its media type (LibreOffice), "untyped" with media-type="" for the pictures
        # (OpenOffice.org and several converters write the Pictures/ entries that way)
        rows = [f'<manifest:file-entry manifest:full-path="/" manifest:media-type="{ODF_MIME[fmt]}"/>',
                '<manifest:file-entry manifest:full-path="content.xml" manifest:media-type="text/xml"/>']
        for part in sc.media:
            mt = CT.get(part.rsplit(".", 1)[-1].lower(), "") if sc.manifest == "typed" else ""
            rows.append(f'<manifest:file-entry manifest:full-path="{part}" manifest:media-type="{mt}"/>')
        files["META-INF/manifest.xml"] = ('<?xml version="1.0"?><manifest:manifest xmlns:manifest="urn:oasis:names:tc:opendocument:xmlns:manifest:1.0">'
                                          + "".join(rows) + "</manifest:manifest>")
    elif sc.manifest == "absent":
        del files["META-INF/manifest.xml"]
    files.update(sc.media)
    return zip_bytes(files, first=("mimetype", ODF_MIME[fmt]))


# ---- EPUB ----
def iri(path):
    """IRI reference for a package path (EPUB manifest / XHTML): characters that are reserved in URLs are percent-encoded
    (space, %, #, ?), everything else -- '+', non-ASCII -- stays as it is."""
    return "".join("%{:02X}".format(ord(ch)) if ch in ' %#?"<>' else ch for ch in path)


def build_epub(sc, opf="OEBPS/content.opf"):
    opf_dir = opf.rsplit("/", 1)[0] if "/" in opf else ""
    items, spine, files = [], [], {}
    k = 0
    for n, anchors in enumerate(sc.units, start=1):
        ch = (opf_dir + "/" if opf_dir else "") + f"ch{n}.xhtml"
        imgs = "".join(f'<img src="{iri(ref("relative", opf_dir, a.media)) if a.kind != "external" else "http://example.invalid/x.png"}" alt="d"/>' for a in anchors)
        files[ch] = f'<?xml version="1.0"?><html xmlns="http://www.w3.org/1999/xhtml"><head><title>C{n}</title></head><body><p>chapter {n}</p>{imgs}</body></html>'
        items.append(f'<item id="ch{n}" href="ch{n}.xhtml" media-type="application/xhtml+xml"/>')
        spine.append(f'<itemref idref="ch{n}"/>')
        for a in anchors:
            if a.kind == "external":
                continue
            k += 1
            ext = a.media.rsplit(".", 1)[-1].lower()
            items.append(f'<item id="img{k}" href="{iri(ref(a.style, opf_dir, a.media))}" media-type="{CT.get(ext, "image/" + ext)}"/>')
    files[opf] = (f'<?xml version="1.0"?><package xmlns="http://www.idpf.org/2007/opf" version="3.0"><metadata xmlns:dc="http://purl.org/dc/elements/1.1/">'
                  f'<dc:title>t</dc:title></metadata><manifest>{"".join(items)}</manifest><spine>{"".join(spine)}</spine></package>')
    files["META-INF/container.xml"] = (f'<?xml version="1.0"?><container version="1.0" xmlns="urn:oasis:names:tc:opendocument:xmlns:container"><rootfiles>'
                                       f'<rootfile full-path="{opf}" media-type="application/oebps-package+xml"/></rootfiles></container>')
    files.update(sc.media)
    return zip_bytes(files, first=("mimetype", "application/epub+zip"))


BUILDERS = {"pptx": build_pptx, "docx": build_docx, "xlsx": build_xlsx, "odt": build_odf, "odp": build_odf, "ods": build_odf, "odg": build_odf,
            "epub": build_epub}
MEDIA_DIR = {"pptx": "ppt/media", "docx": "word/media", "xlsx": "xl/media", "odt": "Pictures", "odp": "Pictures", "ods": "Pictures",
             "odg": "Pictures", "epub": "OEBPS/images"}
PAGED = {"pptx", "xlsx", "odp", "ods"}          # formats whose units are slides / sheets (statement: the two views coincide)
UNIT_NUMBERED = {"pptx", "odp"}                  # image metadata carries the slide number


def read(fmt, data):
    from sharepoint2text.parsing.extractors.ms_modern.docx_extractor import read_docx
    from sharepoint2text.parsing.extractors.ms_modern.pptx_extractor import read_pptx
    from sharepoint2text.parsing.extractors.ms_modern.xlsx_extractor import read_xlsx
    from sharepoint2text.parsing.extractors.open_office.odt_extractor import read_odt
    from sharepoint2text.parsing.extractors.open_office.odp_extractor import read_odp
    from sharepoint2text.parsing.extractors.open_office.ods_extractor import read_ods
    from sharepoint2text.parsing.extractors.open_office.odg_extractor import read_odg
    from sharepoint2text.parsing.extractors.epub_extractor import read_epub
    fn = {"docx": read_docx, "pptx": read_pptx, "xlsx": read_xlsx, "odt": read_odt, "odp": read_odp, "ods": read_ods, "odg": read_odg,
          "epub": read_epub}[fmt]
    return list(fn(io.BytesIO(data), f"a.{fmt}"))[0]


def observe(content):
    return [(i.get_bytes().read(), i.get_content_type(), dict(i.get_metadata())) for i in content.iterate_images()]


# ------------------------------------------------------------------- the executable property --
def expected(sc):
    """[(bytes, content type, declared size, unit number)] for the anchors whose media exists, in document order."""
    out = []
    for n, anchors in enumerate(sc.units, start=1):
        for a in anchors:
            if a.kind == "embedded" and a.media in sc.media:
                data = sc.media[a.media]
                ext = a.media.rsplit(".", 1)[-1].lower()
                out.append((data, CT.get(ext), declared_size(data), n))
    return out


ASPECTS = ("resolution", "bytes", "content-type", "pixel-size", "numbering", "unit", "views", "no-foreign")


def check(sc, aspects=ASPECTS, dedup=False):
    """-> None or a failure dict (first violated aspect among `aspects`)."""
    data = BUILDERS[sc.fmt](sc)
    content = read(sc.fmt, data)
    obs = observe(content)
    exp = expected(sc)
    if dedup:      # formats that report a shared media part once: compare on first occurrences
        seen, e2 = set(), []
        for e in exp:
            if e[0] not in seen:
                seen.add(e[0])
                e2.append(e)
        exp = e2
    inputs = sc.describe()

    def fail(aspect, want, got):
        return {"target": f"{sc.fmt}: iterate_images()", "aspect": aspect, "inputs": inputs, "expected": want, "observed": got}

    with_bytes = [o for o in obs if o[0]]
    if "no-foreign" in aspects:
        for o in obs:
            if o[0] and o[0] not in [e[0] for e in exp]:
                return fail("no-foreign", "only images the body places", f"an image of {len(o[0])} bytes that no anchor of the body references was returned")
    if "resolution" in aspects or "bytes" in aspects:
        got = [o[0] for o in with_bytes]
        want = [e[0] for e in exp]
        if got != want:
            missing = [i for i, e in enumerate(want) if e not in got]
            if missing and "resolution" in aspects:
                return fail("resolution", f"{len(want)} images, bytes identical to the embedded files, in document order",
                            f"{len(got)} images returned; anchors (document order) not returned: {missing}")
            if "bytes" in aspects:
                return fail("bytes", f"{len(want)} images, bytes identical to the embedded files, in document order",
                            f"{len(got)} images returned, byte lengths {[len(g) for g in got]} vs {[len(w) for w in want]}")
    pairs = list(zip(with_bytes, exp)) if [o[0] for o in with_bytes] == [e[0] for e in exp] else []
    if "content-type" in aspects:
        for k, (o, e) in enumerate(pairs):
            if o[1] != e[1]:
                return fail("content-type", f"image {k}: {e[1]}", f"image {k}: {o[1]}")
    if "pixel-size" in aspects:
        for k, (o, e) in enumerate(pairs):
            if e[2] is not None and (o[2].get("width"), o[2].get("height")) != tuple(e[2]):
                return fail("pixel-size", f"image {k}: {tuple(e[2])} (declared by the file)", f"image {k}: {(o[2].get('width'), o[2].get('height'))}")
    if "numbering" in aspects:
        nums = [o[2].get("image_number") for o in obs]
        if nums != list(range(1, len(obs) + 1)):
            return fail("numbering", f"running numbers {list(range(1, len(obs) + 1))}", f"{nums}")
    if "unit" in aspects and sc.fmt in PAGED:
        units = list(content.iterate_units())
        per_unit = [[i.get_bytes().read() for i in u.get_images() if i.get_bytes().read()] for u in units]
        want = []
        for n, anchors in enumerate(sc.units, start=1):
            want.append([sc.media[a.media] for a in anchors if a.kind == "embedded" and a.media in sc.media])
        if dedup is False and per_unit != want[:len(per_unit)] + [[]] * 0 or len(per_unit) != len(want):
            if per_unit != want:
                return fail("unit", f"images per unit (byte lengths) {[[len(b) for b in u] for u in want]}",
                            f"{[[len(b) for b in u] for u in per_unit]}")
        if sc.fmt in UNIT_NUMBERED:
            for u in units:
                un = u.get_metadata().unit_number
                for i in u.get_images():
                    if i.get_metadata().get("unit_number") != un:
                        return fail("unit", f"image on unit {un} carries unit_number {un}", f"{i.get_metadata().get('unit_number')}")
    if "views" in aspects:
        units = list(content.iterate_units())
        doc = list(content.iterate_images())
        flat = [i for u in units for i in u.get_images()]
        if sc.fmt in PAGED:
            if [id(x) for x in flat] != [id(x) for x in doc]:
                return fail("views", "concat(u.get_images() for u in iterate_units()) == list(iterate_images())",
                            f"{len(flat)} unit images vs {len(doc)} document images")
        else:
            ids = {id(x) for x in doc}
            if any(id(x) not in ids for x in flat):
                return fail("views", "every unit image is a document image", "a unit image is not among iterate_images()")
        dt = [t.get_table() for t in content.iterate_tables()]
        for u in units:
            for t in u.get_tables():
                if t.get_table() not in dt:
                    return fail("views", "every unit table is a document table", "a unit table is not among iterate_tables()")
    return None


# ------------------------------------------------------------------- scenario generators --
def gen_scenarios(fmt, seed=0, count=40, styles=("relative", "parent", "absolute", "dot"), kinds=("embedded", "missing", "external"),
                  share=True, max_units=3, max_per_unit=3, ext_case=False):
    """ext_case: the extension of every media part name is written lower / UPPER / Capitalised in turn (cameras and scanners write
    IMG_0002.JPG); the random stream is the same as without it."""
    rnd = random.Random(seed * 7919 + hash(fmt) % 1000 if False else seed * 7919 + sum(map(ord, fmt)))
    md = MEDIA_DIR[fmt]
    single = fmt in ("docx", "odt")
    for c in range(count):
        n_units = 1 if single else rnd.randint(0 if fmt in ("pptx", "odp") else 1, max_units)
        media, units, k = {}, [], 0
        for _u in range(n_units):
            anchors = []
            for _a in range(rnd.randint(0, max_per_unit)):
                kind = rnd.choice(kinds) if rnd.random() < 0.3 else "embedded"
                style = rnd.choice(styles)
                if share and media and kind == "embedded" and rnd.random() < 0.2:
                    part = rnd.choice(sorted(media))
                else:
                    k += 1
                    ext = rnd.choice(["png", "jpg", "jpeg", "gif", "bmp"])
                    ext_w = (ext, ext.upper(), ext.capitalize())[k % 3] if ext_case else ext
                    part = f"{md}/image{k}.{ext_w}"
                    if kind == "embedded":
                        media[part] = make_image(rnd, ext, k)
                anchors.append(Anchor(part, style, kind))
            units.append(anchors)
        yield Scenario(fmt, units, media, note=f"seed={seed} case={c}")


def simple(fmt, styles, n_units=1, per_unit=1, ext="png"):
    rnd = random.Random(5)
    md = MEDIA_DIR[fmt]
    media, units, k = {}, [], 0
    for _u in range(n_units):
        anchors = []
        for _a in range(per_unit):
            k += 1
            part = f"{md}/image{k}.{ext}"
            media[part] = make_image(rnd, ext, k)
            anchors.append(Anchor(part, styles[(k - 1) % len(styles)], "embedded"))
        units.append(anchors)
    return Scenario(fmt, units, media, note=f"simple {styles}")


def first_failure(scs, aspects, dedup=False):
    for sc in scs:
        try:
            r = check(sc, aspects, dedup)
        except Exception as e:  # noqa  an extractor crash on a generated package is reported as observed behaviour
            r = {"target": f"{sc.fmt}: iterate_images()", "aspect": aspects[0], "inputs": sc.describe(), "expected": "extraction succeeds",
                 "observed": f"{type(e).__name__}: {e}"}
        if r:
            return r
    return None


# ---- PDF (pypdf writer; images are DCT streams so that get_data() is the embedded JPEG) ----
def build_pdf(sc, bad_width_first=False, chains=None):
    from pypdf import PdfWriter
    from pypdf.generic import ArrayObject, DictionaryObject, NameObject, NumberObject, StreamObject, TextStringObject
    w = PdfWriter()
    k = 0
    shared = {}          # one indirect stream object per media part: a picture placed on several pages is ONE XObject
    for anchors in sc.units:
        page = w.add_blank_page(width=200, height=200)
        xo = DictionaryObject()
        ops_ = []
        for a in anchors:
            if a.kind != "embedded" or a.media not in sc.media:
                continue
            k += 1
            data = sc.media[a.media]
            size = declared_size(data) or (1, 1)
            so = StreamObject()
            so._data = data
            so[NameObject("/Type")] = NameObject("/XObject")
            so[NameObject("/Subtype")] = NameObject("/Image")
            so[NameObject("/Width")] = TextStringObject("wide") if (bad_width_first and k == 1) else NumberObject(size[0])
            so[NameObject("/Height")] = NumberObject(size[1])
            so[NameObject("/ColorSpace")] = NameObject("/DeviceRGB")
            so[NameObject("/BitsPerComponent")] = NumberObject(8)
            chain = (chains or {}).get(k)
            if chain:
                import binascii
                import zlib
                payload = data
                for f in reversed(chain[:-1]):          # encode for every outer filter (they are undone first when decoding)
                    payload = zlib.compress(payload) if f == "/FlateDecode" else (binascii.hexlify(payload) + b">")
                so._data = payload
                so[NameObject("/Filter")] = ArrayObject([NameObject(f) for f in chain])
            else:
                so[NameObject("/Filter")] = NameObject("/DCTDecode")
            if not chain and not (bad_width_first and k == 1):
                ref_ = shared.get(a.media)
                if ref_ is None:
                    ref_ = shared[a.media] = w._add_object(so)
            else:
                ref_ = w._add_object(so)
            xo[NameObject(f"/Im{k}")] = ref_
            ops_.append(f"q 50 0 0 50 {10 * k} 10 cm /Im{k} Do Q")
        res = DictionaryObject()
        res[NameObject("/XObject")] = xo
        page[NameObject("/Resources")] = res
        cs = StreamObject()
        cs._data = "\n".join(ops_).encode()
        page[NameObject("/Contents")] = w._add_object(cs)
    buf = io.BytesIO()
    w.write(buf)
    return buf.getvalue()


BUILDERS["pdf"] = build_pdf
MEDIA_DIR["pdf"] = "img"
PAGED.add("pdf")
UNIT_NUMBERED.add("pdf")
_read0 = read


def read(fmt, data):       # noqa: F811
    if fmt == "pdf":
        from sharepoint2text.parsing.extractors.pdf.pdf_extractor import read_pdf
        return list(read_pdf(io.BytesIO(data), "a.pdf"))[0]
    return _read0(fmt, data)


def pdf_scenario(units):
    """units: list of lists of (w, h): JPEG images."""
    media, us, k = {}, [], 0
    for u in units:
        anchors = []
        for (w, h) in u:
            k += 1
            part = f"img/i{k}.jpg"
            media[part] = jpeg(w, h, bytes([k]))
            anchors.append(Anchor(part))
        us.append(anchors)
    return Scenario("pdf", us, media)


# ---- corrupt member: listed in the archive, but reading it fails (bad CRC) ----
def corrupt_member(zbytes, name):
    z = zipfile.ZipFile(io.BytesIO(zbytes))
    files = [(i, z.read(i.filename)) for i in z.infolist()]
    buf = io.BytesIO()
    with zipfile.ZipFile(buf, "w") as out:
        for i, data in files:
            out.writestr(zipfile.ZipInfo(i.filename), data, compress_type=zipfile.ZIP_STORED if i.filename == name else zipfile.ZIP_DEFLATED)
    raw = bytearray(buf.getvalue())
    z2 = zipfile.ZipFile(io.BytesIO(bytes(raw)))
    info = z2.getinfo(name)
    off = info.header_offset + 30 + len(info.filename.encode()) + len(info.extra)
    raw[off + info.file_size - 1] ^= 0xFF
    return bytes(raw)


# =========================================================================== function-level checks ==
BASES = ["ppt/slides", "word", "xl/drawings", "xl/worksheets", "OEBPS", "OEBPS/", "", "a/b/c"]
TARGETS = ["media/image1.png", "../media/image1.png", "/ppt/media/image1.png", "./media/i.png", "../../x.png", "a//b.png", "../media/../media/i.png",
           "image1.png", "/", "", "..", "../..", "sub/../i.png", "/a/./b/../c.png", "./../media/i.png"]


def _imp(modname):
    import importlib
    return importlib.import_module(modname)


def check_resolver(which):
    """-> failure dict or None: the real resolver against the spec function on a grid of (base_dir, target)."""
    import inspect
    px = _imp("sharepoint2text.parsing.extractors.ms_modern.pptx_extractor")
    xx = _imp("sharepoint2text.parsing.extractors.ms_modern.xlsx_extractor")
    ep = _imp("sharepoint2text.parsing.extractors.epub_extractor")
    zu = _imp("sharepoint2text.parsing.extractors.util.zip_utils")
    cases = []
    if which == "_normalize_relative_path":
        cases = [((b, t), lambda b=b, t=t: px._normalize_relative_path(b, t), resolve(b, t)) for b in BASES for t in TARGETS]
    elif which == "resolve_part_name":
        f = getattr(zu, "resolve_part_name", None)
        if f is None:
            return None
        cases = [((b, t), lambda b=b, t=t: f(b, t), resolve(b, t)) for b in BASES for t in TARGETS]
    elif which == "_resolve_drawing_path":
        cases = [((t,), lambda t=t: xx._resolve_drawing_path(t), resolve("xl/worksheets", t)) for t in TARGETS + ["../drawings/drawing1.xml", "/xl/drawings/drawing1.xml", "drawing1.xml"]]
    elif which == "_resolve_image_path":
        n = len(inspect.signature(xx._resolve_image_path).parameters)
        for dp in ("xl/drawings/drawing1.xml", "xl/d/e/drawing1.xml", "drawing1.xml"):
            d = dp.rsplit("/", 1)[0] if "/" in dp else ""
            for t in TARGETS:
                cases.append(((t, dp), (lambda t=t, dp=dp: xx._resolve_image_path(t, dp)) if n == 2 else (lambda t=t: xx._resolve_image_path(t)), resolve(d, t)))
    elif which == "resolve_href":
        for od in ("OEBPS/", "", "a/b/"):
            ctx = ep._EpubContext.__new__(ep._EpubContext)
            ctx._opf_dir = od
            cases.extend([((od, t), lambda ctx=ctx, t=t: ctx.resolve_href(t), resolve(od, t)) for t in TARGETS])
    for (args, call, want) in cases:
        try:
            got = call()
        except Exception as e:  # noqa
            got = f"{type(e).__name__}: {e}"
        if got != want:
            return {"target": which, "inputs": {"args": list(args)}, "expected": want, "observed": got}
    return None


def jpeg_variants(rnd):
    w, h = rnd.randint(1, 4000), rnd.randint(1, 4000)
    app = b"\xff\xe1" + struct.pack(">H", 6) + b"Exif"
    com = b"\xff\xfe" + struct.pack(">H", 4) + b"hi"
    dqt = b"\xff\xdb" + struct.pack(">H", 67) + bytes(65)
    yield "plain", jpeg(w, h), (w, h)
    yield "two segments", jpeg(w, h, pre=(app, com)), (w, h)
    yield "three segments, progressive", jpeg(w, h, pre=(app, dqt, com), sof=0xC2), (w, h)
    yield "fill byte before the first marker", b"\xff\xd8\xff" + jpeg(w, h)[2:], (w, h)
    yield "fill bytes before the frame header", jpeg(w, h, pre=(app + b"\xff\xff",)), (w, h)
    yield "DHT (C4) before the frame header", jpeg(w, h, pre=(b"\xff\xc4" + struct.pack(">H", 5) + b"\x00\x01\x02",)), (w, h)


def jpeg_marker_sweep():
    """Directed search over the construct the JPEG clause is about: EVERY marker code as a segment in front of EVERY kind of frame header.
    The leading segment's payload looks like a frame header (so a mis-classified marker yields a wrong size); the expected size is what the
    reference reader `declared_size` (format specification) says; inputs on which the reference declares nothing are skipped."""
    sofs = [0xC0, 0xC1, 0xC2, 0xC3, 0xC5, 0xC6, 0xC7, 0xC9, 0xCA, 0xCB, 0xCD, 0xCE, 0xCF]
    for m in range(256):
        for k, sof in enumerate(sofs if 0xC0 <= m <= 0xCF else [sofs[m % len(sofs)]]):
            seg = bytes([0xFF, m]) + struct.pack(">H", 10) + b"\x08\x10\x11\x12\x13\x01\x01\x11"
            data = jpeg(300 + m, 200 + k, pre=(seg,), sof=sof)
            want = declared_size(data)
            if want is not None:
                yield f"segment with marker 0x{m:02X} before SOF 0x{sof:02X}", data, tuple(want)


def check_sniffers(which=None, extra_files=None):
    """The real sniffers against the reference reader `declared_size` (format specifications) on generated files."""
    d = _imp("sharepoint2text.parsing.extractors.ms_modern.docx_extractor")._get_image_pixel_dimensions
    p = _imp("sharepoint2text.parsing.extractors.ms_modern.pptx_extractor")._get_image_pixel_dimensions
    x = _imp("sharepoint2text.parsing.extractors.ms_modern.xlsx_extractor")._get_image_pixel_dimensions
    iu = _imp("sharepoint2text.parsing.extractors.util.image_utils")
    fns = {"docx_extractor.py": d, "pptx_extractor.py": p, "xlsx_extractor.py": x,
           "get_image_dimensions": None, "get_jpeg_dimensions": iu.get_jpeg_dimensions}
    rnd = random.Random(11)
    files = []
    for _ in range(6):
        w, h = rnd.randint(1, 70000), rnd.randint(1, 70000)
        files.append(("png", "png", png(w, h), (w, h)))
        w, h = rnd.randint(1, 65535), rnd.randint(1, 65535)
        files.append(("gif", "gif", gif(w, h), (w, h)))
        files.append(("gif87", "gif", b"GIF87a" + gif(w, h)[6:], (w, h)))
        w, h = rnd.randint(1, 100000), rnd.randint(1, 100000)
        files.append(("bmp", "bmp", bmp(w, h), (w, h)))
        files.append(("bmp top-down", "bmp", bmp(w, -h), (w, h)))
        for (what, data, size) in jpeg_variants(rnd):
            files.append(("jpeg " + what, "jpeg", data, size))
    for (what, data, size) in jpeg_marker_sweep():
        files.append(("jpeg " + what, "jpeg", data, size))
    for extra in (extra_files or []):
        files.insert(0, extra)
    files.append(("not an image", "bin", b"hello world, no signature here....", None))
    files.append(("empty", "bin", b"", None))
    for name, fn in fns.items():
        if which and which not in name:
            continue
        for (what, typ, data, size) in files:
            if name == "get_image_dimensions":
                if size is None:
                    continue
                got = iu.get_image_dimensions(data, typ)
            elif name == "get_jpeg_dimensions":
                if typ != "jpeg":
                    continue
                got = fn(data)
            else:
                got = fn(data)
            want = tuple(size) if size else (None, None)
            if tuple(got) != want:
                return {"target": name, "inputs": {"file": what, "head": list(data[:32]), "len": len(data)}, "expected": list(want), "observed": list(got)}
    # the three OOXML copies agree (bounded differential run, also on malformed inputs)
    if not which or which == "agree":
        rnd2 = random.Random(23)
        toks = [bytes([0xFF, c]) for c in range(0xC0, 0xD0)] + [b"\xff", b"\xff\xc0", b"\xff\xc2", b"\xff\xe0", b"\xff\xd9", b"\xff\xda", b"\xff\xff", b"\x00\x02", b"\x00\x08", b"\x00\x0b",
                b"\x00\x40", b"\x00\x01", b"\x08\x00\x10\x00\x20\x01", b"\x08", b"\x00", b"\x11\x22\x33", b"\xc0"]
        for _ in range(6000):
            dd = b"\xff\xd8" + b"".join(rnd2.choice(toks) for _ in range(rnd2.randint(0, 9)))
            r = {n: tuple(f(dd)) for n, f in fns.items() if n.endswith("_extractor.py")}
            if len(set(r.values())) != 1:
                return {"target": "agree", "inputs": {"file": "random marker soup", "bytes": list(dd)}, "expected": "equal results", "observed": {k: list(v) for k, v in r.items()}}
        for (what, typ, data, size) in files:
            for cut in (len(data), 3, 9, 20, 25, len(data) // 2):
                dd = data[:cut]
                r = {n: tuple(f(dd)) for n, f in fns.items() if n.endswith("_extractor.py")}
                if len(set(r.values())) != 1:
                    return {"target": "agree", "inputs": {"file": what, "cut": cut, "head": list(dd[:32])}, "expected": "equal results", "observed": {k: list(v) for k, v in r.items()}}
    return None


# ---- data_types: unit view vs document view on hand-built content objects (bounded: <= 3 elements x <= 2 images) ----
def check_views(cls=None):
    dt = _imp("sharepoint2text.parsing.extractors.data_types")
    import dataclasses
    icls = {"PdfContent": dt.PdfImage, "PptxContent": dt.PptxImage, "XlsxContent": dt.XlsxImage, "OdpContent": dt.OpenDocumentImage,
            "OdsContent": dt.OpenDocumentImage, "PptContent": dt.PptImage, "DocContent": dt.DocImage, "DocxContent": dt.DocxImage,
            "XlsContent": dt.XlsImage, "OdgContent": dt.OpenDocumentImage, "OdtContent": dt.OpenDocumentImage, "RtfContent": dt.RtfImage,
            "EpubContent": dt.EpubImage}
    flat = ("DocContent", "DocxContent", "XlsContent", "OdgContent", "OdtContent", "RtfContent", "EpubContent")

    def mk_image(c, k):
        """Image objects of every shape an extractor can produce: with payload, all-default (no payload: external link),
        error placeholder, zero / missing size -- a view that filters on any field is exposed."""
        cl = icls[c]
        names = {f.name: f for f in dataclasses.fields(cl)}
        num = next((x for x in ("image_index", "image_number", "index") if x in names), None)
        variant = k % 4
        kw = {num: k} if num else {}
        pay = "blob" if "blob" in names else "data"
        raw = bytes([k])
        if variant in (0, 3):
            ann = str(names[pay].type) if pay in names else ""
            if pay in names:
                kw[pay] = io.BytesIO(raw) if "BytesIO" in ann else raw
            if "content_type" in names:
                kw["content_type"] = "image/png"
        if variant == 2 and "error" in names:
            kw["error"] = "read failed"
        if variant == 3:
            for dim in ("width", "height"):
                if dim in names:
                    kw[dim] = 0 if cl in (dt.PdfImage, dt.XlsxImage) else None
        for f in dataclasses.fields(cl):      # required fields without a default
            if f.name not in kw and f.default is dataclasses.MISSING and f.default_factory is dataclasses.MISSING:
                ann = str(f.type)
                kw[f.name] = k if "int" in ann else ("" if "str" in ann else (raw if "bytes" in ann else None))
        return cl(**kw)
    mk_img = {c: (lambda k, c=c: mk_image(c, k)) for c in icls}
    # elements of every shape: with text, with blank text, with no text at all (a page / slide / sheet that only carries pictures)
    txt = lambda k: ("", "  \n", f"p{k}")[k % 3]
    mk_el = {"PdfContent": lambda imgs, tabs, k: dt.PdfPage(text=txt(k), images=imgs, tables=tabs),
             "PptxContent": lambda imgs, tabs, k: dt.PptxSlide(slide_number=10 + k, images=imgs, tables=tabs, base_text=txt(k), text=txt(k)),
             "XlsxContent": lambda imgs, tabs, k: dt.XlsxSheet(name=("" if k % 3 == 0 else f"S{k}"), text=txt(k), images=imgs, data=(tabs[0] if tabs else [])),
             "OdpContent": lambda imgs, tabs, k: dt.OdpSlide(slide_number=10 + k, images=imgs, tables=tabs, title=txt(k).strip()),
             "OdsContent": lambda imgs, tabs, k: dt.OdsSheet(name=("" if k % 3 == 0 else f"S{k}"), text=txt(k), images=imgs, data=(tabs[0] if tabs else []))}
    field = {"PdfContent": "pages", "PptxContent": "slides", "XlsxContent": "sheets", "OdpContent": "slides", "OdsContent": "sheets"}
    for c in ([cls] if cls else list(flat) + ["PptContent"]):
        if c not in flat and c != "PptContent":
            continue
        for n in range(0, 6):
            imgs = [mk_img[c](k) for k in range(1, n + 1)]
            if c == "PptContent":
                content = dt.PptContent(slides=[dt.PptSlideContent(slide_number=1, images=imgs[:2]), dt.PptSlideContent(slide_number=2, images=imgs[2:])])
            else:
                content = getattr(dt, c)(images=list(imgs))
            doc = list(content.iterate_images())
            if [id(x) for x in doc] != [id(x) for x in imgs]:
                return {"target": f"{c}.iterate_images", "inputs": {"class": c, "images": n, "shapes": "payload / no payload / error placeholder / zero size, cyclic"},
                        "expected": f"all {n} entries of the image list(s), in order", "observed": f"{len(doc)} images"}
    for c in ([cls] if cls else list(field)):
        if c not in field:
            continue
        for shape in itertools.product([0, 1, 2, 3], repeat=3):
            for n in range(0, 4):
                k = 0
                els = []
                for e in range(n):
                    imgs = []
                    for _ in range(shape[e]):
                        k += 1
                        imgs.append(mk_img[c](k))
                    tabs = [[[f"t{e}{j}"]] for j in range(shape[(e + 1) % 3])]
                    els.append(mk_el[c](imgs, tabs, e + 1))
                content = getattr(dt, c)(**{field[c]: els})
                units = list(content.iterate_units())
                doc = list(content.iterate_images())
                flat = [i for u in units for i in u.get_images()]
                want = [i for e in els for i in e.images]
                inputs = {"class": c, "images_per_element": list(shape[:n])}
                if [id(x) for x in doc] != [id(x) for x in want]:
                    return {"target": f"{c}.iterate_images", "inputs": inputs, "expected": "the images of the elements in order", "observed": f"{len(doc)} images"}
                if [id(x) for x in flat] != [id(x) for x in doc]:
                    return {"target": f"{c}.iterate_units", "inputs": inputs, "expected": "concat(u.get_images()) == list(iterate_images())",
                            "observed": f"{len(flat)} unit images vs {len(doc)} document images"}
                if len(units) != n:
                    return {"target": f"{c}.iterate_units", "inputs": inputs, "expected": f"{n} units", "observed": f"{len(units)}"}
                for j, u in enumerate(units):        # the unit reports the stored number of its slide / the 1-based position of its page or sheet
                    wn = getattr(els[j], "slide_number", j + 1)
                    try:
                        gn = u.get_metadata().unit_number
                    except Exception as ex_:  # noqa
                        gn = f"raised {type(ex_).__name__}"
                    if gn != wn:
                        return {"target": f"{c}.iterate_units", "inputs": inputs, "expected": f"unit {j} reports unit_number {wn}", "observed": repr(gn)}
                dtabs = [t.get_table() for t in content.iterate_tables()]
                for u in units:
                    for t in u.get_tables():
                        if t.get_table() not in dtabs:
                            return {"target": f"{c}.iterate_units", "inputs": inputs, "expected": "unit tables among the document tables", "observed": repr(t.get_table())}
                wt = [t for e in els for t in (e.tables if hasattr(e, "tables") else [e.data])]
                if dtabs != wt:
                    return {"target": f"{c}.iterate_tables", "inputs": inputs, "expected": f"{len(wt)} tables in element order", "observed": f"{len(dtabs)}"}
    return None


# =========================================================================== findings / dispatch ==
def _img(k, ext="png"):
    rnd = random.Random(100 + k)
    return make_image(rnd, ext, k)


def witness(kind, fmt):
    """Named witness scenarios -> failure dict or None (None: the real code satisfies the property on it)."""
    md = MEDIA_DIR.get(fmt, "")
    A, B = _img(1), _img(2, "gif")
    if kind == "numbering-per-unit":
        if fmt == "pdf":
            return first_failure([pdf_scenario([[(30, 20)], [(31, 21), (32, 22)]])], ("numbering",))
        return first_failure([simple(fmt, ["relative"], n_units=2, per_unit=2)], ("numbering",))
    if kind == "shared-media":
        # formats that report an embedded member once however many frames show it: the same picture in two / three plain frames, alone and
        # between other pictures -> one image per embedded file, numbered 1..n
        out = []
        for units in ([[Anchor(f"{md}/a.png"), Anchor(f"{md}/a.png")]], [[Anchor(f"{md}/a.png"), Anchor(f"{md}/b.gif"), Anchor(f"{md}/a.png"), Anchor(f"{md}/a.png")]]):
            out.append(Scenario(fmt, units if fmt != "odg" else [units[0][:2], units[0][2:]], {f"{md}/a.png": A, f"{md}/b.gif": B}, note="one embedded picture shown by several frames"))
        return first_failure(out, ("resolution", "bytes", "numbering"), dedup=True)
    if kind == "gap-missing":
        sc = Scenario(fmt, [[Anchor(f"{md}/m.png", "relative", "missing"), Anchor(f"{md}/a.png")]], {f"{md}/a.png": A})
        return first_failure([sc], ("numbering",))
    if kind == "corrupt-member":
        sc = Scenario(fmt, [[Anchor(f"{md}/a.png"), Anchor(f"{md}/b.gif")]], {f"{md}/a.png": A, f"{md}/b.gif": B})
        data = corrupt_member(BUILDERS[fmt](sc), f"{md}/a.png")
        obs = observe(read(fmt, data))
        nums = [o[2].get("image_number") for o in obs]
        if nums != list(range(1, len(obs) + 1)):
            return {"target": f"{fmt}: iterate_images()", "aspect": "numbering", "inputs": dict(sc.describe(), corrupt_member=f"{md}/a.png (bad CRC: listed, unreadable)"),
                    "expected": f"running numbers {list(range(1, len(obs) + 1))}", "observed": f"{nums} (bytes lengths {[len(o[0]) for o in obs]})"}
        return None
    if kind == "pdf-bad-candidate":
        sc = pdf_scenario([[(30, 20), (31, 21)]])
        obs = observe(read("pdf", build_pdf(sc, bad_width_first=True)))
        nums = [o[2].get("image_number") for o in obs]
        if nums != list(range(1, len(obs) + 1)):
            return {"target": "pdf: iterate_images()", "aspect": "numbering", "inputs": dict(sc.describe(), first_image="/Width is a string: extraction of this candidate raises"),
                    "expected": f"running numbers {list(range(1, len(obs) + 1))}", "observed": f"{nums}"}
        return None
    if kind == "pixel-size":
        if fmt == "xlsx":
            sc = simple("xlsx", ["relative"], 1, 1)
            data = BUILDERS["xlsx"](sc)
            z = zipfile.ZipFile(io.BytesIO(data))
            files = {n: z.read(n) for n in z.namelist()}
            d = files["xl/drawings/drawing1.xml"].decode().replace("</xdr:from>", '</xdr:from><xdr:ext cx="95250" cy="190500"/>', 1)
            files["xl/drawings/drawing1.xml"] = d.encode()
            c = read("xlsx", zip_bytes(files))
            obs = observe(c)
            want = declared_size(list(sc.media.values())[0])
            got = (obs[0][2].get("width"), obs[0][2].get("height")) if obs else None
            if got != tuple(want):
                return {"target": "xlsx: iterate_images()", "aspect": "pixel-size", "inputs": dict(sc.describe(), anchor="oneCellAnchor with xdr:ext cx=95250 cy=190500 (10 x 20 px at 96 dpi)"),
                        "expected": f"{tuple(want)} (declared by the file)", "observed": f"{got}"}
            return None
        return first_failure([simple(fmt, ["relative"], 1, 1)], ("pixel-size",))
    if kind == "order":
        if fmt == "docx":
            sc = Scenario("docx", [[Anchor("word/media/a.png"), Anchor("word/media/b.gif")]], {"word/media/a.png": A, "word/media/b.gif": B})
            data = build_docx(sc)
            z = zipfile.ZipFile(io.BytesIO(data))
            files = {n: z.read(n) for n in z.namelist()}
            import re
            rels = files["word/_rels/document.xml.rels"].decode()
            rows = re.findall(r"<Relationship [^>]*/>", rels)
            files["word/_rels/document.xml.rels"] = rels.replace("".join(rows), "".join(reversed(rows))).encode()
            obs = observe(read("docx", zip_bytes(files)))
            note = "relationship part lists rId2 before rId1; the body places rId1 (a.png) first"
        elif fmt == "odt":
            fr1 = '<draw:frame draw:name="P1"><draw:image xlink:href="Pictures/a.png"/></draw:frame>'
            fr2 = ('<draw:frame draw:name="outer"><draw:text-box><text:p>Caption<draw:frame draw:name="P2"><draw:image xlink:href="Pictures/b.gif"/>'
                   '</draw:frame></text:p></draw:text-box></draw:frame>')
            content = (f'<?xml version="1.0"?><office:document-content {ODFNS}><office:body><office:text><text:p>{fr1}</text:p><text:p>{fr2}</text:p>'
                       f'</office:text></office:body></office:document-content>')
            sc = Scenario("odt", [[Anchor("Pictures/a.png"), Anchor("Pictures/b.gif")]], {"Pictures/a.png": A, "Pictures/b.gif": B})
            obs = observe(read("odt", zip_bytes({"content.xml": content, "Pictures/a.png": A, "Pictures/b.gif": B}, first=("mimetype", ODF_MIME["odt"]))))
            note = "a plain frame (a.png) followed by a captioned text-box frame (b.gif)"
        elif fmt == "xlsx":
            sc = Scenario("xlsx", [[Anchor("xl/media/a.png"), Anchor("xl/media/b.gif")]], {"xl/media/a.png": A, "xl/media/b.gif": B})
            data = build_xlsx(sc)
            z = zipfile.ZipFile(io.BytesIO(data))
            files = {n: z.read(n) for n in z.namelist()}
            import re
            d = files["xl/drawings/drawing1.xml"].decode()
            parts = re.findall(r"<xdr:oneCellAnchor>.*?</xdr:oneCellAnchor>", d)
            two = parts[0].replace("oneCellAnchor", "twoCellAnchor").replace("</xdr:from>", "</xdr:from><xdr:to><xdr:col>5</xdr:col><xdr:colOff>0</xdr:colOff><xdr:row>5</xdr:row><xdr:rowOff>0</xdr:rowOff></xdr:to>")
            files["xl/drawings/drawing1.xml"] = d.replace(parts[0], two).encode()
            obs = observe(read("xlsx", zip_bytes(files)))
            note = "drawing lists a twoCellAnchor (a.png) before a oneCellAnchor (b.gif)"
        elif fmt == "epub":
            sc = Scenario("epub", [[Anchor("OEBPS/images/a.png"), Anchor("OEBPS/images/b.gif")]], {"OEBPS/images/a.png": A, "OEBPS/images/b.gif": B})
            data = build_epub(sc)
            z = zipfile.ZipFile(io.BytesIO(data))
            files = {n: z.read(n) for n in z.namelist() if n != "mimetype"}
            import re
            opf = files["OEBPS/content.opf"].decode()
            items = re.findall(r'<item id="img[^>]*/>', opf)
            files["OEBPS/content.opf"] = opf.replace("".join(items), "".join(reversed(items))).encode()
            obs = observe(read("epub", zip_bytes(files, first=("mimetype", "application/epub+zip"))))
            note = "manifest lists b.gif before a.png; chapter 1 shows a.png first"
        else:
            return None
        got = [o[0] for o in obs if o[0]]
        if got != [A, B]:
            return {"target": f"{fmt}: iterate_images()", "aspect": "order", "inputs": dict(sc.describe(), arrangement=note),
                    "expected": "images numbered in document order: a.png = 1, b.gif = 2",
                    "observed": [("a.png" if o[0] == A else "b.gif" if o[0] == B else "?", o[2].get("image_number")) for o in obs]}
        return None
    if kind in ("slide-target", "drawing-dir", "sheet-order"):
        def files_of(data):
            z = zipfile.ZipFile(io.BytesIO(data))
            return {n: z.read(n) for n in z.namelist()}
        if kind == "slide-target":
            for tgt in (b"/ppt/slides/slide1.xml", b"./slides/slide1.xml", b"../ppt/slides/slide1.xml"):
                sc = simple("pptx", ["relative"], 2, 1)
                f = files_of(build_pptx(sc))
                f["ppt/_rels/presentation.xml.rels"] = f["ppt/_rels/presentation.xml.rels"].replace(b'Target="slides/slide1.xml"', b'Target="' + tgt + b'"')
                obs = observe(read("pptx", zip_bytes(f)))
                if [o[0] for o in obs] != [e[0] for e in expected(sc)]:
                    return {"target": "pptx: iterate_images()", "aspect": "resolution", "inputs": dict(sc.describe(), presentation_rels=f"slide 1 is referenced as Target={tgt.decode()!r}"),
                            "expected": "2 images (one per slide), bytes identical", "observed": f"{len(obs)} images: the slide part is not found and its picture is lost"}
            return None
        if kind == "drawing-dir":
            sc = simple("xlsx", ["relative"], 1, 1)
            g = {k.replace("xl/drawings/", "xl/dr/"): v for k, v in files_of(build_xlsx(sc)).items()}
            g["xl/worksheets/_rels/sheet1.xml.rels"] = g["xl/worksheets/_rels/sheet1.xml.rels"].replace(b"../drawings/drawing1.xml", b"../dr/drawing1.xml")
            obs = observe(read("xlsx", zip_bytes(g)))
            if [o[0] for o in obs] != [e[0] for e in expected(sc)]:
                return {"target": "xlsx: iterate_images()", "aspect": "resolution", "inputs": dict(sc.describe(), drawing_part="xl/dr/drawing1.xml (relationships in xl/dr/_rels/drawing1.xml.rels)"),
                        "expected": "1 image", "observed": f"{len(obs)} images: the drawing's relationship part is looked up under a name derived by text replacement of 'drawings/'"}
            return None
        sc = Scenario("xlsx", [[], [Anchor("xl/media/a.png")]], {"xl/media/a.png": A})
        f = files_of(build_xlsx(sc))
        wb = f["xl/_rels/workbook.xml.rels"]
        f["xl/_rels/workbook.xml.rels"] = wb.replace(b"worksheets/sheet1.xml", b"worksheets/TMP").replace(b"worksheets/sheet2.xml", b"worksheets/sheet1.xml").replace(b"worksheets/TMP", b"worksheets/sheet2.xml")
        c = read("xlsx", zip_bytes(f))
        got = [(sh.name, [list(r) for r in sh.data], len(sh.images)) for sh in c.sheets]
        bad = [g for g in got if (g[1] == [["v2"]]) != (g[2] == 1)]
        if bad:
            return {"target": "xlsx: iterate_units()", "aspect": "unit", "inputs": dict(sc.describe(), workbook_rels="tab 1 -> worksheets/sheet2.xml (cell v2, has the picture), tab 2 -> worksheets/sheet1.xml (cell v1)"),
                    "expected": "the picture on the sheet whose cell is v2", "observed": f"(sheet, cells, images) = {got}"}
        return None
    if kind == "dangling":
        # unit 2 places a picture whose relationship id exists only in the relationship part of unit 1
        sc = Scenario(fmt, [[Anchor(f"{md}/a.png")], [Anchor(f"{md}/a.png", "relative", "dangling")], [Anchor(f"{md}/b.gif")]],
                      {f"{md}/a.png": A, f"{md}/b.gif": B}, note="the picture on unit 2 uses an r:embed id that only the relationship part of unit 1 defines")
        return first_failure([sc], ("no-foreign", "bytes", "unit", "numbering") if fmt != "pptx" else ("no-foreign", "bytes", "unit"))
    if kind == "pdf-filter-chain":
        # the same JPEG behind different (legal) filter chains: a one-element array, deflated, ASCII-hex
        sc = pdf_scenario([[(30, 20), (31, 21), (32, 22), (33, 23)]])
        chains = {1: ["/DCTDecode"], 2: ["/FlateDecode", "/DCTDecode"], 3: ["/ASCIIHexDecode", "/DCTDecode"], 4: ["/ASCIIHexDecode", "/FlateDecode", "/DCTDecode"]}
        obs = observe(read("pdf", build_pdf(sc, chains=chains)))
        exp = expected(sc)
        got = [(o[1], o[0] == e[0]) for o, e in zip(obs, exp)]
        if len(obs) != len(exp) or any(g != ("image/jpeg", True) for g in got):
            return {"target": "pdf: iterate_images()", "aspect": "content-type", "inputs": dict(sc.describe(), filter_chains={str(k): v for k, v in chains.items()}),
                    "expected": "4 images, each image/jpeg with the bytes of the embedded JPEG", "observed": f"{len(obs)} images: (content type, bytes identical) = {got}"}
        return None
    if kind == "media-elsewhere":
        # the package, not a folder name, says where a picture lives: media parts outside the conventional media directory
        top = md.split("/")[0]
        places = {"docx": ["word/pics/a.png", "images/b.gif", "word/media/deep/er/c.png"], "pptx": ["ppt/img/a.png", "images/b.gif", "ppt/slides/c.png"],
                  "xlsx": ["xl/images/a.png", "images/b.gif", "xl/drawings/c.png"], "epub": ["OEBPS/pix/a.png", "cover.gif", "OEBPS/c.png"]}.get(
            fmt, ["media/a.png", "b.gif", "Pictures/sub/c.png", "Thumbnails/d.png"])
        scs = []
        for variant in (places, places[:1], places[1:2]):
            media, anchors = {}, []
            for k, part in enumerate(variant, start=1):
                media[part] = _img(k, part.rsplit(".", 1)[-1])
                anchors.append(Anchor(part))
            units = [anchors] if fmt in ("docx", "odt") else [anchors[:1], anchors[1:]]
            scs.append(Scenario(fmt, units, media, note="media parts outside the conventional media directory"))
        return first_failure(scs, ("resolution", "bytes", "unit"), dedup=fmt in ("odt", "odg"))
    if kind in ("special-names", "percent-names"):
        # part names with characters that are ordinary in a ZIP member name but special in a reference: '+' and ',' are literal
        # everywhere; space, '%' and '#' must be percent-encoded in an IRI reference (EPUB) and decoded by the reader
        plain = ["fig+1.png", "a,b(1).gif", "bild-\u00e4.png"]
        pct = ["my pic.png", "100%.gif", "a#b.png"]
        names = pct if kind == "percent-names" else (plain + (pct if fmt == "epub" and False else []))
        media, anchors = {}, []
        for k, nm in enumerate(names, start=1):
            part = f"{md}/{nm}"
            media[part] = _img(k, nm.rsplit(".", 1)[-1])
            anchors.append(Anchor(part))
        sc = Scenario(fmt, [anchors], media, note="part names with characters that are special in references")
        return first_failure([sc], ("resolution", "bytes"))
    if kind == "odf-dot-href":
        return first_failure([simple(fmt, ["dot"], 1, 1)], ("resolution",))
    if kind == "resolution":
        if fmt in ("docx", "pptx", "xlsx", "epub"):
            r0 = witness("special-names", fmt)
            if r0:
                return r0
        if fmt == "epub":
            r0 = witness("percent-names", fmt)
            if r0:
                return r0
        scs = [simple(fmt, [st], 1 if fmt in ("docx", "odt") else 2, 2) for st in (("relative", "parent", "absolute", "dot") if fmt not in ("odt", "odp", "ods", "odg") else ("relative", "dot"))]
        if fmt in ("docx", "pptx", "epub"):
            # media part in a sub-directory of the usual media directory, and a decoy with the same base name directly in it
            scs.append(Scenario(fmt, [[Anchor(f"{md}/sub/image1.png", "relative")]], {f"{md}/sub/image1.png": A, f"{md}/image1.png": B},
                                note="media part in a sub-directory; another part with the same base name in the media directory"))
        if fmt == "xlsx":
            scs.insert(0, Scenario("xlsx", [[Anchor("xl/drawings/media/image1.png", "relative")]], {"xl/drawings/media/image1.png": A, "xl/media/image1.png": B},
                                note="media part next to the drawing; another part with the same base name in xl/media"))
        return first_failure(scs, ("resolution", "bytes"))
    return None


FMT_OF = {"docx_extractor": "docx", "pptx_extractor": "pptx", "xlsx_extractor": "xlsx", "odt_extractor": "odt", "odp_extractor": "odp",
          "ods_extractor": "ods", "odg_extractor": "odg", "epub_extractor": "epub", "pdf_extractor": "pdf"}


def model_files(wit):
    """Candidate inputs taken from the solver model of the failed VC (byte strings: the decoded head, zero-padded to the model's length)."""
    out = []
    for k, v in (wit or {}).items():
        if isinstance(v, dict) and "head" in v and "len" in v:
            n = min(int(v["len"]), 1 << 16)
            data = bytes((int(x) & 255) for x in v["head"][:n])
            data = data + bytes(max(0, n - len(data)))
            size = declared_size(data)
            if size is not None:
                out.append(("solver model", "jpeg" if data[:2] == b"\xff\xd8" else ("png" if data[:4] == b"\x89PNG" else ("gif" if data[:3] == b"GIF" else "bmp")), data, tuple(size)))
    return out


def search(ob, wit=None):
    """Native small-scope search for the obligation id `ob` -> failure dict or None."""
    mod = ob.split("/")[1].split(".py")[0] if "/" in ob else ""
    fmt = FMT_OF.get(mod)
    if "/lemma#" in ob:
        return None             # spec-level lemma: nothing to run natively
    if "zip_utils.py::resolve_part_name" in ob:
        return check_resolver("resolve_part_name")
    if "_normalize_relative_path" in ob:
        return check_resolver("_normalize_relative_path") or witness("resolution", "pptx")
    if "_resolve_drawing_path" in ob:
        return check_resolver("_resolve_drawing_path")
    if "_odf_length_to_px" in ob:
        return check_odf_length()
    if "::_get_content_type/" in ob or "::guess_content_type/" in ob:
        return check_ct_helper(ob.split("::")[1].split("/")[0])
    if "/rel-type#" in ob:
        return other_kinds_sweep(fmt)
    if "lookup-table-scope" in ob or "relationship-table-of-the-given-part" in ob or "relationships-of-the-slide-being-processed" in ob:
        return witness("dangling", fmt) or sweep(fmt, ("resolution", "bytes", "unit"))
    for lab, kind in (("#slide-part", "slide-target"), ("#drawing-relationship-part", "drawing-dir"), ("#sheet-relationship-part", "sheet-order")):
        if lab in ob:
            return witness(kind, fmt)
    if "#slide-relationship-part" in ob:
        return sweep("pptx", ("resolution", "bytes"))
    if "/resolution#" in ob:
        if fmt == "xlsx":
            return witness("resolution", "xlsx") or check_resolver("_resolve_image_path")
        if fmt == "epub":
            return check_resolver("resolve_href") or witness("resolution", "epub")
        return witness("resolution", fmt)
    if "/agree#" in ob:
        return check_sniffers("agree")
    if "_get_image_pixel_dimensions" in ob:
        return check_sniffers(mod + ".py", model_files(wit)) or check_sniffers("agree")
    if "get_jpeg_dimensions" in ob:
        return check_sniffers("get_jpeg_dimensions", model_files(wit))
    if "get_image_dimensions" in ob:
        return check_sniffers("get_image_dimensions", model_files(wit))
    if "/numbering#counter-starts" in ob:
        return witness("numbering-per-unit", fmt)
    if "/numbering#one-increment" in ob:
        for k in ("gap-missing", "corrupt-member", "pdf-bad-candidate"):
            if (k == "pdf-bad-candidate") != (fmt == "pdf"):
                continue
            r = witness(k, fmt)
            if r:
                return r
        # gaps / double numbers inside one unit (numbering across units is the obligation counter-starts-at-zero-once-per-document)
        r = sweep(fmt, ("numbering",), max_units=1)
        if r is None and fmt in ("odt", "odg"):
            r = witness("shared-media", fmt)
        return r
    if "/numbering#" in ob:
        # the number an image carries: documents whose pictures are all present, one unit (gaps and restarts have their own obligations)
        return sweep(fmt, ("numbering",), max_units=1, kinds=("embedded",))
    if "content-type-of-the-last-filter" in ob or (fmt == "pdf" and "/content-type#" in ob):
        return witness("pdf-filter-chain", "pdf")
    if "size-is-the-declared-width-and-height" in ob:
        return first_failure([pdf_scenario([[(30, 20), (7, 9)]]), pdf_scenario([[(1, 300)]])], ("pixel-size", "bytes"))
    if "images-of-a-page-are-built-for-that-page" in ob or (fmt == "pdf" and "/unit#" in ob):
        sc = pdf_scenario([[(30, 20)], [(31, 21)], [(32, 22)]])
        first = sc.units[0][0].media
        sc.units[1].insert(0, Anchor(first))       # the picture of page 1 is placed again on pages 2 and 3 (same XObject)
        sc.units[2].append(Anchor(first))
        sc.note = "one image XObject placed on three pages"
        return first_failure([sc], ("bytes", "unit"))
    if "number-and-page-are-the-arguments" in ob:
        return first_failure([pdf_scenario([[(30, 20), (7, 9)]])], ("numbering", "unit")) or first_failure([pdf_scenario([[(3, 2)], [(4, 5)]])], ("unit",))
    if "/completeness#" in ob:
        return witness("media-elsewhere", fmt) or sweep(fmt, ("resolution", "bytes"), kinds=("embedded",))
    if "/pixel-size#" in ob:
        return witness("pixel-size", fmt)
    if "/order#" in ob:
        return witness("order", fmt)
    if "/bytes#" in ob or "/content-type#" in ob or "/unit#" in ob:
        asp = {"bytes": ("resolution", "bytes", "no-foreign"), "content-type": ("content-type",), "unit": ("unit",)}[ob.split("/")[-1].split("#")[0]]
        r = sweep(fmt, asp)
        if r is None and "content-type" in asp:
            # part names whose extension is not all lower case (IMG_0002.JPG): the content type is that of the lower-cased extension
            r = sweep(fmt, asp, seeds=(0,), count=15, ext_case=True)
        if r is None and fmt in ODF_MIME:
            # what META-INF/manifest.xml says about the pictures (typed, listed without a type, no manifest) changes nothing
            for mf in ("untyped", "typed", "absent"):
                scs = [simple(fmt, ["relative"], n_units=1, per_unit=2, ext="jpg")] + list(gen_scenarios(fmt, 12, 8, styles=("relative",)))
                for sc in scs:
                    sc.manifest = mf
                    sc.note += f" manifest={mf}"
                r = first_failure(scs, asp, dedup=fmt in ("odt", "odg"))
                if r:
                    break
        return r
    if "data_types.py::ImageMetadata." in ob:
        return check_metadata_mirror()
    if "data_types.py" in ob and any(f".{m}/" in ob for m in ("get_metadata", "get_content_type", "get_bytes")):
        q = ob.split("::")[1].split("/")[0]
        return check_accessors(q.split(".")[0], q.split(".")[1])
    if "data_types.py" in ob:
        cls = ob.split("::")[1].split(".")[0] if "::" in ob else None
        return check_views(cls if cls and cls.endswith("Content") else None)
    return None


def check_accessors(cls, meth=None):
    """Observation accessors of an image class (contracts/c14_access.py) on a grid of stored field values: what `get_metadata()` (attribute
    AND dict view), `get_content_type()` and `get_bytes().read()` (twice, and for a stored stream that was left at its end) report is what
    was stored.  Also the native validation of the assumed `ImageMetadata.__post_init__` mirror and of the io.BytesIO / str.strip models."""
    import dataclasses
    import io as _io
    import itertools
    dt = _imp("sharepoint2text.parsing.extractors.data_types")
    C = getattr(dt, cls, None)
    if C is None:
        return None
    spec = {"DocxImage": ("image_index", None), "PptxImage": ("image_index", "slide_number"), "XlsxImage": ("image_index", ("sheet_index", 1)),
            "OpenDocumentImage": ("image_index", "unit_name"), "EpubImage": ("image_index", "unit_index"), "PdfImage": ("index", "unit_name"), "RtfImage": ("image_index", "page_number"),
            "DocImage": ("image_number", "unit_number"), "PptImage": ("image_index", ("slide_number", 0)), "XlsImage": ("image_index", None)}.get(cls)
    if spec is None:
        return None
    num, unit = spec
    flds = {f.name: str(f.type) for f in dataclasses.fields(C)}
    ctf = "content_type" if "content_type" in flds else "image_type"      # RtfImage stores the picture kind; its sizes are twips (no clause)
    kinds = {"png": "image/png", "jpeg": "image/jpeg", "jpg": "image/jpeg", "PNG": "image/png", "Jpeg": "image/jpeg"}
    if num not in flds or ctf not in flds:
        return None
    pay = [n for n, t in flds.items() if "BytesIO" in t or ("bytes" in t and n != "size_bytes")]
    pay = pay[0] if len(pay) == 1 else None
    ufield = unit[0] if isinstance(unit, tuple) else unit
    opt = lambda n: "Optional" in flds.get(n, "") or "None" in flds.get(n, "")     # noqa: E731
    odf = "str" in flds.get("width", "")
    sizes = (["1in", None, "0cm", "abc", "2.54cm", "131px"] if odf else ([None] if opt("width") else []) + [0, -1, 5, 131])
    units = [None] if ufield is None else (([None] if opt(ufield) else []) + [0, 1, 3])
    px = getattr(dt, "_odf_length_to_px", None)

    def fail(target, inputs, expected, observed):
        return {"target": f"{cls}.{target}", "aspect": "accessors", "inputs": {k: repr(v) for k, v in inputs.items()}, "expected": expected, "observed": observed}

    def want_size(v):
        if odf:
            v = px(v) if px else None
        return v if isinstance(v, int) and v > 0 else None
    def ct_ok(got, ct):
        return got == kinds[ct] if ctf == "image_type" else got in (ct, ct.strip())
    for n, u, w, h, ct in itertools.product((1, 7), units, sizes, sizes[::-1], ("image/png", " image/jpeg ") if ctf == "content_type" else tuple(kinds)):
        kw = {num: n, ctf: ct, "width": w, "height": h}
        if ufield is not None:
            kw[ufield] = u
        kw = {k: v for k, v in kw.items() if k in flds}
        if meth in (None, "get_metadata"):
            md = C(**kw).get_metadata()
            uw = [None, u + unit[1] if u is not None else None] if isinstance(unit, tuple) else [u]
            for key, ok, exp in (("image_number", md.image_number == n, n), ("content_type", ct_ok(md.content_type, ct), ct),
                                 ("unit_number", md.unit_number in uw, uw), ("width", ctf == "image_type" or md.width == want_size(w), want_size(w)),
                                 ("height", ctf == "image_type" or md.height == want_size(h), want_size(h))):
                if not ok:
                    return fail("get_metadata()", kw, f"{key} == {exp!r}", f"{key} == {getattr(md, key)!r}")
                if dict(md).get(key, "<absent>") != getattr(md, key):
                    return fail("get_metadata()", kw, f"dict view [{key!r}] == attribute {getattr(md, key)!r}", repr(dict(md).get(key, "<absent>")))
        if meth in (None, "get_content_type"):
            got = C(**kw).get_content_type()
            if not ct_ok(got, ct):
                return fail("get_content_type()", kw, repr(kinds[ct] if ctf == "image_type" else ct), repr(got))
    if meth in (None, "get_bytes") and pay is not None:
        stream = "BytesIO" in flds[pay]
        for data in ([None] if opt(pay) else []) + [b"", b"\x89PNG\r\n\x1a\n" + bytes(range(256))]:
            for pre in ((0, 5, None) if stream and data else (0,)):
                val = data
                if stream and data is not None:
                    val = _io.BytesIO(data)
                    val.seek(len(data) if pre is None else min(pre, len(data)))
                img = C(**{num: 1, pay: val, **({ctf: "image/png"} if ctf == "content_type" else {})})
                for call in (1, 2):
                    got = img.get_bytes().read()
                    if got != (data or b""):
                        return fail("get_bytes().read()", {pay: data, "stored stream position": pre, "call": call}, f"{len(data or b'')} stored bytes",
                                    f"{len(got)} bytes" + ("" if len(got) != len(data or b"") else " (different content)"))
    return None


def check_ct_helper(which):
    """Content-type helpers of the library (contracts/c14_access.py::run_helpers) on part names with every raster extension of the property in
    lower / UPPER / Mixed case, several dots and dotted directories: xlsx `_get_content_type`, ODF `guess_content_type` (also the native
    validation of the assumed mimetypes table: it knows the raster extensions case-insensitively)."""
    import mimetypes
    if which == "_get_content_type":
        f = getattr(_imp("sharepoint2text.parsing.extractors.ms_modern.xlsx_extractor"), which, None)
    else:
        f = getattr(_imp("sharepoint2text.parsing.extractors.open_office._shared"), which, None)
    if f is None:
        return None
    table = {"png": "image/png", "jpg": "image/jpeg", "jpeg": "image/jpeg", "gif": "image/gif", "bmp": "image/bmp"}
    for ext, want in table.items():
        for spell in (ext, ext.upper(), ext.capitalize()):
            for stem in ("image1", "xl/media/image1", "media.v2/pic", "a.b", "Pictures/10000000.0001", "../media/i", ".hidden"):
                name = f"{stem}.{spell}"
                try:
                    got = f(name)
                except Exception as e:  # noqa
                    got = f"raised {type(e).__name__}: {e}"
                if got != want:
                    return {"target": f"{which}({name!r})", "aspect": "content-type", "inputs": {"name": name}, "expected": want, "observed": repr(got)}
    if which == "guess_content_type":
        for name in ("Pictures/noextension", "Pictures/x.unknownext", "", "a.", "ObjectReplacements/Object 1"):
            want = mimetypes.guess_type(name)[0] or "application/octet-stream"
            try:
                got = f(name)
            except Exception as e:  # noqa
                got = f"raised {type(e).__name__}: {e}"
            if got != want:
                return {"target": f"{which}({name!r})", "aspect": "content-type", "inputs": {"name": name}, "expected": want, "observed": repr(got)}
    return None


def check_metadata_mirror():
    """ImageMetadata: the dict view (the statement's observation `dict(i.get_metadata())`) equals the attribute view, after construction
    (keyword / positional / defaults) and after attribute assignment."""
    import itertools
    dt = _imp("sharepoint2text.parsing.extractors.data_types")
    M = getattr(dt, "ImageMetadata", None)
    if M is None:
        return None
    keys = ("unit_number", "image_number", "content_type", "width", "height")
    for u, n, ct, w, h in itertools.product((None, 3), (0, 7), ("", "image/png"), (None, 131), (None, 184)):
        want = dict(zip(keys, (u, n, ct, w, h)))
        mds = [("keywords", M(**want)), ("positional", M(u, n, ct, w, h))]
        late = M()
        for k, v in want.items():
            setattr(late, k, v)
        mds.append(("attribute assignment", late))
        for how, md in mds:
            got = dict(md)
            attrs = {k: getattr(md, k, "<absent>") for k in keys}
            if got != want or attrs != want:
                return {"target": f"ImageMetadata ({how})", "aspect": "accessors", "inputs": {k: repr(v) for k, v in want.items()},
                        "expected": f"dict view == attribute view == {want}", "observed": f"dict {got}, attributes {attrs}"}
    return None


def check_odf_length():
    """`data_types._odf_length_to_px` and the width / height an ODF picture reports, on a grid of numerals x units, against exact rational
    arithmetic: CSS absolute lengths at 96 dpi (px 1, in 96, cm 96/2.54, mm 96/25.4, pt 96/72, pc 16); units outside the table give None."""
    from fractions import Fraction as Fr
    dt = _imp("sharepoint2text.parsing.extractors.data_types")
    f = getattr(dt, "_odf_length_to_px", None)
    K = {"px": Fr(1), "in": Fr(96), "cm": Fr(9600, 254), "mm": Fr(960, 254), "pt": Fr(96, 72), "pc": Fr(16)}
    nums = ["0", "1", "2", "3", "0.5", "1.5", "2.54", "10", "12.7", "17.59", "21.001", "72", "100", "254", "1234.567"]

    def via_metadata(s):
        img = dt.OpenDocumentImage(href="Pictures/a.png", name="a.png", width=s, height=s, image_index=1)
        md = img.get_metadata()
        return md.get("width"), md.get("height")
    for unit, k in K.items():
        for spell in (unit, unit.upper(), " " + unit):
            for n in nums:
                s = f"{n}{spell}"
                want = Fr(n) * k
                for how, got in ((f"_odf_length_to_px({s!r})", f(s) if f else None), (f"OpenDocumentImage(width={s!r}).get_metadata()['width']", via_metadata(s)[0])):
                    if (f is None and how.startswith("_odf")) or (want < 1 and not how.startswith("_odf")):    # the metadata report no extent of 0
                        continue
                    if not isinstance(got, int) or abs(got - want) > Fr(1, 2) + want / 10**9:
                        return {"target": how, "aspect": "pixel-size", "inputs": {"length": s}, "expected": f"{float(want):.3f} px rounded ({unit}: {float(k):.4f} px per unit at 96 dpi)",
                                "observed": repr(got)}
    for s in (None, "", " ", "cm", "abc"):       # nothing stored / no numeral: no length
        got = f(s) if f else None
        if got is not None:
            return {"target": f"_odf_length_to_px({s!r})", "aspect": "pixel-size", "inputs": {"length": repr(s)}, "expected": "None (no length)", "observed": repr(got)}
    for s in ("3em", "50%", "2ex", "1furlong"):
        got = via_metadata(s)[0]
        if got is not None:
            return {"target": f"OpenDocumentImage(width={s!r}).get_metadata()['width']", "aspect": "pixel-size", "inputs": {"length": s},
                    "expected": "None (not an absolute length)", "observed": repr(got)}
    return None


def other_kinds_sweep(fmt):
    """Packages whose relationship parts list relationships of every other standard kind before / after the picture relationships, in the
    Transitional and in the Strict namespace: the pictures come back all the same."""
    if fmt not in ("xlsx", "docx", "pptx"):
        return None
    scs = []
    for noise, strict in (("before", False), ("after", False), ("before", True), (None, True)):
        for sc in [simple(fmt, ["relative"], n_units=1 if fmt == "docx" else 2, per_unit=2)] + list(gen_scenarios(fmt, 11, 6, styles=("relative", "absolute"), kinds=("embedded", "missing"))):
            sc.noise, sc.strict = noise, strict
            sc.note += f" other-kinds={noise} strict={strict}"
            scs.append(sc)
    return first_failure(scs, ("resolution", "bytes", "no-foreign", "unit"), dedup=False)


def sweep(fmt, aspects, seeds=(0, 1), count=25, max_units=3, kinds=("embedded", "missing", "external"), ext_case=False):
    if fmt is None:
        return None
    if fmt == "pdf":
        return first_failure([pdf_scenario([[(30, 20), (10, 11)]]), pdf_scenario([[(5, 6)]])], aspects)
    styles = ("relative",) if fmt in ("odt", "odp", "ods", "odg") else ("relative", "parent", "absolute", "dot")
    for seed in seeds:
        r = first_failure(gen_scenarios(fmt, seed, count, styles=styles, max_units=max_units, kinds=kinds, ext_case=ext_case), aspects, dedup=fmt in ("odt", "odg"))
        if r:
            return r
    return None


def exclusion_sweep(kind, fmt):
    """Bounded native check of the obligation OUTSIDE the recorded exclusion (DESIGN 2.7 step 2, done natively here):
    generated documents that avoid the recorded failing shape must satisfy the aspect -> failure dict or None."""
    if kind == "numbering-per-unit":
        if fmt == "pdf":
            return first_failure([pdf_scenario([[(30, 20), (31, 21), (9, 9)]]), pdf_scenario([[(5, 6)]])], ("numbering",))
        return first_failure(gen_scenarios(fmt, 3, 12, max_units=1, kinds=("embedded", "external", "missing")), ("numbering",))
    if kind in ("corrupt-member", "pdf-bad-candidate"):
        if fmt == "pdf":
            return first_failure([pdf_scenario([[(30, 20), (31, 21)]])], ("numbering",))
        return first_failure(gen_scenarios(fmt, 4, 12, styles=("relative",), max_units=1), ("numbering",), dedup=fmt in ("odt", "odg"))
    if kind == "gap-missing":
        return first_failure(gen_scenarios(fmt, 5, 12, styles=("relative",), kinds=("embedded", "external")), ("numbering",))
    if kind == "pixel-size":
        if fmt == "xlsx":       # anchors without an extent of their own
            return first_failure(gen_scenarios(fmt, 6, 12, styles=("relative",)), ("pixel-size",))
        # every embedded file that declares a size is affected; files that declare none are outside the clause
        sc = Scenario(fmt, [[Anchor(f"{MEDIA_DIR[fmt]}/x.png")]], {f"{MEDIA_DIR[fmt]}/x.png": b"no image header here, just bytes"})
        return first_failure([sc], ("pixel-size", "bytes"))
    if kind == "order":
        return first_failure(gen_scenarios(fmt, 7, 12, styles=("relative",), kinds=("embedded",), share=False, max_units=1 if fmt == "epub" else 3),
                             ("resolution", "bytes"), dedup=fmt in ("odt", "odg"))
    if kind == "percent-names":
        return witness("special-names", fmt) or first_failure(gen_scenarios(fmt, 10, 12, styles=("relative", "parent", "absolute", "dot"), kinds=("embedded", "missing")), ("resolution", "bytes"))
    if kind in ("slide-target", "drawing-dir", "sheet-order"):
        return first_failure(gen_scenarios(fmt, 9, 12, styles=("relative", "absolute"), kinds=("embedded", "missing")), ("resolution", "bytes", "unit"))
    if kind == "odf-dot-href":
        return first_failure(gen_scenarios(fmt, 8, 12, styles=("relative",), kinds=("embedded", "missing", "external")), ("resolution", "bytes"), dedup=fmt in ("odt", "odg"))
    return None


def find(req):
    if req.get("known_finding"):
        w = req.get("witness") or {}
        r = witness(w.get("kind"), w.get("format"))
        out = dict(r, reproduced=True) if r else {"reproduced": False, "note": "the recorded witness satisfies the property now"}
        try:
            x = exclusion_sweep(w.get("kind"), w.get("format"))
        except Exception as e:  # noqa
            x = {"observed": f"sweep crashed: {type(e).__name__}: {e}", "expected": "", "inputs": {}}
        out["outside_exclusion"] = x          # None: nothing fails outside the recorded exclusion (bounded native sweep)
        return out
    r = search(req.get("obligation", ""), req.get("witness"))
    if r:
        return dict(r, reproduced=True)
    return {"reproduced": False, "note": "native small-scope search found no failing input"}


def rerun(stored):
    return find({"obligation": stored.get("obligation", "")})
