"""Native replay for C14 (runs under /venv/bin/python on the REAL code, no z3).

Builds packages in memory (docx / pptx / xlsx / odt / odp / ods / odg / epub: minimal zips with
hand-written XML and relationship files) that embed 0..K tiny PNG / JPEG / GIF / BMP files,
referenced by relative, parent-relative (`../media/x.png`) and absolute (`/ppt/media/x.png`)
targets, shared between anchors, missing, external.  Executable form of the property:

  for every anchor, in document order, whose media part exists in the package, iterate_images()
  returns one image with  bytes == the embedded file,  content type == the table image of the
  extension,  pixel size == the size the file declares,  number == running 1..n,  sitting on the
  unit of the anchor;  nothing else is returned;  concat(u.get_images() for u in units) ==
  list(iterate_images()) for slide / sheet formats;  unit tables are document tables.

`find(req)` runs the checks that belong to the obligation named in the request and returns the first
failing input; `rerun(stored)` re-executes a stored one.
"""
import io
import itertools
import os
import random
import struct
import zipfile

CT = {"png": "image/png", "jpg": "image/jpeg", "jpeg": "image/jpeg", "gif": "image/gif", "bmp": "image/bmp"}


# ------------------------------------------------------------------------ image files --
def png(w, h, tail=b""):
    return b"\x89PNG\r\n\x1a\n" + struct.pack(">I", 13) + b"IHDR" + struct.pack(">II", w, h) + b"\x08\x02\x00\x00\x00" + b"\x00\x00\x00\x00" + tail


def gif(w, h, tail=b""):
    return b"GIF89a" + struct.pack("<HH", w, h) + b"\x00\x00\x00" + b"\x3b" + tail


def bmp(w, h, tail=b""):
    body = struct.pack("<IiiHHIIiiII", 40, w, h, 1, 24, 0, 0, 0, 0, 0, 0)
    return b"BM" + struct.pack("<IHHI", 14 + len(body) + len(tail), 0, 0, 54) + body + tail


def jpeg(w, h, tail=b"", pre=(b"\xff\xe0" + struct.pack(">H", 16) + b"JFIF\x00\x01\x01\x00\x00\x01\x00\x01\x00\x00",), sof=0xC0):
    out = b"\xff\xd8" + b"".join(pre)
    out += bytes([0xFF, sof]) + struct.pack(">HBHHB", 11, 8, h, w, 1) + b"\x01\x11\x00"
    return out + b"\xff\xda" + struct.pack(">H", 8) + b"\x01\x01\x00\x00\x3f\x00" + tail + b"\xff\xd9"


MAKERS = {"png": png, "gif": gif, "bmp": bmp, "jpg": jpeg, "jpeg": jpeg}


def declared_size(data):
    """Reference sniffers written from the format specifications (PNG IHDR, GIF logical screen, BMP info header, JPEG SOFn)."""
    if data[:8] == b"\x89PNG\r\n\x1a\n" and len(data) >= 24 and data[12:16] == b"IHDR":
        return struct.unpack(">II", data[16:24])
    if data[:6] in (b"GIF87a", b"GIF89a") and len(data) >= 10:
        return struct.unpack("<HH", data[6:10])
    if data[:2] == b"BM" and len(data) >= 26:
        w, h = struct.unpack("<ii", data[18:26])
        return (abs(w), abs(h))
    if data[:2] == b"\xff\xd8":
        o = 2
        while o + 4 <= len(data):
            if data[o] != 0xFF:
                return None
            m = data[o + 1]
            if m == 0xFF:
                o += 1
                continue
            if m in (0x00, 0x01) or 0xD0 <= m <= 0xDA:
                return None
            ln = struct.unpack(">H", data[o + 2:o + 4])[0]
            if ln < 2:
                return None
            if 0xC0 <= m <= 0xCF and m not in (0xC4, 0xC8, 0xCC):
                if ln >= 7 and o + 2 + ln <= len(data):
                    h, w = struct.unpack(">HH", data[o + 5:o + 9])
                    return (w, h)
                return None
            o += 2 + ln
    return None


def make_image(rnd, ext, k):
    w, h = rnd.randint(1, 300), rnd.randint(1, 300)
    tail = bytes(rnd.getrandbits(8) for _ in range(rnd.randint(0, 12))) + bytes([k])
    return MAKERS[ext](w, h, tail)


# ---------------------------------------------------------------------- spec: resolve --
def resolve(base_dir, target):
    """OPC / ODF / EPUB reference resolution (DESIGN Appendix B)."""
    segs = target.split("/") if target.startswith("/") else base_dir.split("/") + target.split("/")
    out = []
    for s in segs:
        if s == "..":
            if out:
                out.pop()
        elif s and s != ".":
            out.append(s)
    return "/".join(out)


def ref(style, src_dir, part):
    """A reference to package part `part` written in `style` from a source part in `src_dir`."""
    if style == "absolute":
        return "/" + part
    sd = [s for s in src_dir.split("/") if s]
    pp = part.split("/")
    common = 0
    while common < len(sd) and common < len(pp) - 1 and sd[common] == pp[common]:
        common += 1
    rel = "/".join([".."] * (len(sd) - common) + pp[common:])
    if style == "relative":
        return rel
    if style == "parent":           # forced through the parent directory even when not needed
        if rel.startswith("../") or not sd:
            return rel
        return "../" + sd[-1] + "/" + rel
    if style == "dot":
        return "./" + rel
    raise ValueError(style)


# ------------------------------------------------------------------------ scenarios --
class Anchor:
    """One picture placed in the body: which media part, how it is referenced, what kind of anchor."""

    def __init__(self, media, style="relative", kind="embedded", name=""):
        self.media, self.style, self.kind, self.name = media, style, kind, name   # kind: embedded | missing | external

    def key(self):
        return [self.media, self.style, self.kind]


class Scenario:
    def __init__(self, fmt, units, media, note=""):
        self.fmt, self.units, self.media, self.note = fmt, units, media, note   # units: list[list[Anchor]], media: {part: bytes}

    def describe(self):
        return {"format": self.fmt, "units": [[a.key() for a in u] for u in self.units],
                "media": {k: {"bytes": len(v), "declared_size": declared_size(v)} for k, v in self.media.items()}, "note": self.note}


def zip_bytes(files, first=None):
    buf = io.BytesIO()
    with zipfile.ZipFile(buf, "w", zipfile.ZIP_DEFLATED) as z:
        if first:
            z.writestr(zipfile.ZipInfo(first[0]), first[1], compress_type=zipfile.ZIP_STORED)
        for k, v in files.items():
            z.writestr(k, v)
    return buf.getvalue()


RELNS = 'xmlns="http://schemas.openxmlformats.org/package/2006/relationships"'
IMG_T = "http://schemas.openxmlformats.org/officeDocument/2006/relationships/image"
A = 'xmlns:a="http://schemas.openxmlformats.org/drawingml/2006/main"'
R = 'xmlns:r="http://schemas.openxmlformats.org/officeDocument/2006/relationships"'


def rels_xml(rels):
    rows = "".join(f'<Relationship Id="{i}" Type="{t}" Target="{tg}"{" TargetMode=" + chr(34) + "External" + chr(34) if ext else ""}/>'
                   for (i, t, tg, ext) in rels)
    return f'<?xml version="1.0" encoding="UTF-8"?><Relationships {RELNS}>{rows}</Relationships>'


def target_of(a, src_dir, media_dir):
    if a.kind == "external":
        return "http://example.invalid/" + a.media.rsplit("/", 1)[-1], True
    return ref(a.style, src_dir, a.media), False


# ---- pptx ----
def build_pptx(sc):
    files = {"[Content_Types].xml": '<?xml version="1.0"?><Types xmlns="http://schemas.openxmlformats.org/package/2006/content-types"/>'}
    P = 'xmlns:p="http://schemas.openxmlformats.org/presentationml/2006/main"'
    ids, prels = [], []
    for n, anchors in enumerate(sc.units, start=1):
        ids.append(f'<p:sldId id="{255 + n}" r:id="rId{n}"/>')
        prels.append((f"rId{n}", "http://schemas.openxmlformats.org/officeDocument/2006/relationships/slide", f"slides/slide{n}.xml", False))
        pics, rels = [], []
        for j, a in enumerate(anchors, start=1):
            tg, ext = target_of(a, "ppt/slides", "ppt/media")
            rels.append((f"rId{j}", IMG_T, tg, ext))
            pics.append(f'<p:pic><p:nvPicPr><p:cNvPr id="{j + 1}" name="Pic {j}" descr="d{j}"/><p:cNvPicPr/><p:nvPr/></p:nvPicPr>'
                        f'<p:blipFill><a:blip r:embed="rId{j}"/></p:blipFill>'
                        f'<p:spPr><a:xfrm><a:off x="{j * 1000}" y="{j * 1000}"/><a:ext cx="95250" cy="190500"/></a:xfrm></p:spPr></p:pic>')
        files[f"ppt/slides/slide{n}.xml"] = (f'<?xml version="1.0"?><p:sld {P} {A} {R}><p:cSld><p:spTree><p:nvGrpSpPr/><p:grpSpPr/>'
                                             f'{"".join(pics)}</p:spTree></p:cSld></p:sld>')
        files[f"ppt/slides/_rels/slide{n}.xml.rels"] = rels_xml(rels)
    files["ppt/presentation.xml"] = f'<?xml version="1.0"?><p:presentation {P} {R}><p:sldIdLst>{"".join(ids)}</p:sldIdLst></p:presentation>'
    files["ppt/_rels/presentation.xml.rels"] = rels_xml(prels)
    files.update(sc.media)
    return zip_bytes(files)


# ---- docx ----
def build_docx(sc):
    W = 'xmlns:w="http://schemas.openxmlformats.org/wordprocessingml/2006/main"'
    WP = 'xmlns:wp="http://schemas.openxmlformats.org/drawingml/2006/wordprocessingDrawing"'
    PIC = 'xmlns:pic="http://schemas.openxmlformats.org/drawingml/2006/picture"'
    paras, rels = [], []
    j = 0
    for anchors in sc.units:
        for a in anchors:
            j += 1
            tg, ext = target_of(a, "word", "word/media")
            rels.append((f"rId{j}", IMG_T, tg, ext))
            paras.append(f'<w:p><w:r><w:drawing><wp:inline><wp:extent cx="95250" cy="190500"/><a:graphic><a:graphicData>'
                         f'<pic:pic><pic:nvPicPr><pic:cNvPr id="{j}" name="Pic {j}" descr="d{j}"/></pic:nvPicPr>'
                         f'<pic:blipFill><a:blip r:embed="rId{j}"/></pic:blipFill></pic:pic></a:graphicData></a:graphic></wp:inline></w:drawing></w:r></w:p>')
    files = {"[Content_Types].xml": '<?xml version="1.0"?><Types xmlns="http://schemas.openxmlformats.org/package/2006/content-types"/>',
             "word/document.xml": f'<?xml version="1.0"?><w:document {W} {WP} {A} {PIC} {R}><w:body><w:p><w:r><w:t>text</w:t></w:r></w:p>{"".join(paras)}</w:body></w:document>',
             "word/_rels/document.xml.rels": rels_xml(rels)}
    files.update(sc.media)
    return zip_bytes(files)


# ---- xlsx ----
def build_xlsx(sc):
    M = 'xmlns="http://schemas.openxmlformats.org/spreadsheetml/2006/main"'
    XDR = 'xmlns:xdr="http://schemas.openxmlformats.org/drawingml/2006/spreadsheetDrawing"'
    files = {}
    ct = ['<Default Extension="rels" ContentType="application/vnd.openxmlformats-package.relationships+xml"/>',
          '<Default Extension="xml" ContentType="application/xml"/>',
          '<Override PartName="/xl/workbook.xml" ContentType="application/vnd.openxmlformats-officedocument.spreadsheetml.sheet.main+xml"/>']
    sheets, wrels = [], []
    for n, anchors in enumerate(sc.units, start=1):
        sheets.append(f'<sheet name="S{n}" sheetId="{n}" r:id="rId{n}"/>')
        wrels.append((f"rId{n}", "http://schemas.openxmlformats.org/officeDocument/2006/relationships/worksheet", f"worksheets/sheet{n}.xml", False))
        ct.append(f'<Override PartName="/xl/worksheets/sheet{n}.xml" ContentType="application/vnd.openxmlformats-officedocument.spreadsheetml.worksheet+xml"/>')
        drawing = f'<drawing r:id="rId1"/>' if anchors else ""
        files[f"xl/worksheets/sheet{n}.xml"] = (f'<?xml version="1.0"?><worksheet {M} {R}><sheetData><row r="1"><c r="A1" t="inlineStr"><is><t>v{n}</t></is></c></row></sheetData>'
                                                f'{drawing}</worksheet>')
        if anchors:
            files[f"xl/worksheets/_rels/sheet{n}.xml.rels"] = rels_xml([("rId1", "http://schemas.openxmlformats.org/officeDocument/2006/relationships/drawing",
                                                                         f"../drawings/drawing{n}.xml", False)])
            rels, pics = [], []
            for j, a in enumerate(anchors, start=1):
                tg, ext = target_of(a, "xl/drawings", "xl/media")
                rels.append((f"rId{j}", IMG_T, tg, ext))
                pics.append(f'<xdr:oneCellAnchor><xdr:from><xdr:col>{j}</xdr:col><xdr:colOff>0</xdr:colOff><xdr:row>{j}</xdr:row><xdr:rowOff>0</xdr:rowOff></xdr:from>'
                            f'<xdr:pic><xdr:nvPicPr><xdr:cNvPr id="{j}" name="Pic {j}" descr="d{j}"/><xdr:cNvPicPr/></xdr:nvPicPr>'
                            f'<xdr:blipFill><a:blip r:embed="rId{j}"/></xdr:blipFill><xdr:spPr/></xdr:pic><xdr:clientData/></xdr:oneCellAnchor>')
            files[f"xl/drawings/drawing{n}.xml"] = f'<?xml version="1.0"?><xdr:wsDr {XDR} {A} {R}>{"".join(pics)}</xdr:wsDr>'
            files[f"xl/drawings/_rels/drawing{n}.xml.rels"] = rels_xml(rels)
    files["xl/workbook.xml"] = f'<?xml version="1.0"?><workbook {M} {R}><sheets>{"".join(sheets)}</sheets></workbook>'
    files["xl/_rels/workbook.xml.rels"] = rels_xml(wrels)
    files["_rels/.rels"] = rels_xml([("rId1", "http://schemas.openxmlformats.org/officeDocument/2006/relationships/officeDocument", "xl/workbook.xml", False)])
    files["[Content_Types].xml"] = f'<?xml version="1.0"?><Types xmlns="http://schemas.openxmlformats.org/package/2006/content-types">{"".join(ct)}</Types>'
    files.update(sc.media)
    return zip_bytes(files)


# ---- ODF ----
ODFNS = ('xmlns:office="urn:oasis:names:tc:opendocument:xmlns:office:1.0" xmlns:text="urn:oasis:names:tc:opendocument:xmlns:text:1.0" '
         'xmlns:table="urn:oasis:names:tc:opendocument:xmlns:table:1.0" xmlns:draw="urn:oasis:names:tc:opendocument:xmlns:drawing:1.0" '
         'xmlns:presentation="urn:oasis:names:tc:opendocument:xmlns:presentation:1.0" '
         'xmlns:svg="urn:oasis:names:tc:opendocument:xmlns:svg-compatible:1.0" xmlns:xlink="http://www.w3.org/1999/xlink"')
ODF_MIME = {"odt": "application/vnd.oasis.opendocument.text", "odp": "application/vnd.oasis.opendocument.presentation",
            "ods": "application/vnd.oasis.opendocument.spreadsheet", "odg": "application/vnd.oasis.opendocument.graphics"}


def odf_frame(a, j, size=True):
    if a.kind == "external":
        href = "http://example.invalid/" + a.media.rsplit("/", 1)[-1]
    else:
        href = ref(a.style, "", a.media)
    dims = ' svg:width="1in" svg:height="2in"' if size else ""
    return f'<draw:frame draw:name="Pic {j}"{dims}><draw:image xlink:href="{href}" xlink:type="simple"/><svg:desc>d{j}</svg:desc></draw:frame>'


def build_odf(sc):
    fmt = sc.fmt
    j = 0
    if fmt == "odt":
        body = "<office:text>" + "".join(f"<text:p>{odf_frame(a, i)}</text:p>" for i, a in enumerate(sc.units[0] if sc.units else [], start=1)) + "</office:text>"
    elif fmt == "odp":
        pages = []
        for n, anchors in enumerate(sc.units, start=1):
            pages.append(f'<draw:page draw:name="page{n}">' + "".join(odf_frame(a, i) for i, a in enumerate(anchors, start=1)) + "</draw:page>")
        body = "<office:presentation>" + "".join(pages) + "</office:presentation>"
    elif fmt == "odg":
        pages = []
        for n, anchors in enumerate(sc.units, start=1):
            pages.append(f'<draw:page draw:name="page{n}">' + "".join(odf_frame(a, i) for i, a in enumerate(anchors, start=1)) + "</draw:page>")
        body = "<office:drawing>" + "".join(pages) + "</office:drawing>"
    else:
        tabs = []
        for n, anchors in enumerate(sc.units, start=1):
            shapes = "<table:shapes>" + "".join(odf_frame(a, i) for i, a in enumerate(anchors, start=1)) + "</table:shapes>" if anchors else ""
            tabs.append(f'<table:table table:name="S{n}">{shapes}<table:table-row><table:table-cell office:value-type="string"><text:p>v{n}</text:p></table:table-cell></table:table-row></table:table>')
        body = "<office:spreadsheet>" + "".join(tabs) + "</office:spreadsheet>"
    files = {"content.xml": f'<?xml version="1.0"?><office:document-content {ODFNS}><office:body>{body}</office:body></office:document-content>',
             "META-INF/manifest.xml": '<?xml version="1.0"?><manifest:manifest xmlns:manifest="urn:oasis:names:tc:opendocument:xmlns:manifest:1.0"/>'}
    files.update(sc.media)
    return zip_bytes(files, first=("mimetype", ODF_MIME[fmt]))


# ---- EPUB ----
def build_epub(sc, opf="OEBPS/content.opf"):
    opf_dir = opf.rsplit("/", 1)[0] if "/" in opf else ""
    items, spine, files = [], [], {}
    k = 0
    for n, anchors in enumerate(sc.units, start=1):
        ch = (opf_dir + "/" if opf_dir else "") + f"ch{n}.xhtml"
        imgs = "".join(f'<img src="{ref("relative", opf_dir, a.media) if a.kind != "external" else "http://example.invalid/x.png"}" alt="d"/>' for a in anchors)
        files[ch] = f'<?xml version="1.0"?><html xmlns="http://www.w3.org/1999/xhtml"><head><title>C{n}</title></head><body><p>chapter {n}</p>{imgs}</body></html>'
        items.append(f'<item id="ch{n}" href="ch{n}.xhtml" media-type="application/xhtml+xml"/>')
        spine.append(f'<itemref idref="ch{n}"/>')
        for a in anchors:
            if a.kind == "external":
                continue
            k += 1
            ext = a.media.rsplit(".", 1)[-1]
            items.append(f'<item id="img{k}" href="{ref(a.style, opf_dir, a.media)}" media-type="{CT.get(ext, "image/" + ext)}"/>')
    files[opf] = (f'<?xml version="1.0"?><package xmlns="http://www.idpf.org/2007/opf" version="3.0"><metadata xmlns:dc="http://purl.org/dc/elements/1.1/">'
                  f'<dc:title>t</dc:title></metadata><manifest>{"".join(items)}</manifest><spine>{"".join(spine)}</spine></package>')
    files["META-INF/container.xml"] = (f'<?xml version="1.0"?><container version="1.0" xmlns="urn:oasis:names:tc:opendocument:xmlns:container"><rootfiles>'
                                       f'<rootfile full-path="{opf}" media-type="application/oebps-package+xml"/></rootfiles></container>')
    files.update(sc.media)
    return zip_bytes(files, first=("mimetype", "application/epub+zip"))


BUILDERS = {"pptx": build_pptx, "docx": build_docx, "xlsx": build_xlsx, "odt": build_odf, "odp": build_odf, "ods": build_odf, "odg": build_odf,
            "epub": build_epub}
MEDIA_DIR = {"pptx": "ppt/media", "docx": "word/media", "xlsx": "xl/media", "odt": "Pictures", "odp": "Pictures", "ods": "Pictures",
             "odg": "Pictures", "epub": "OEBPS/images"}
PAGED = {"pptx", "xlsx", "odp", "ods"}          # formats whose units are slides / sheets (statement: the two views coincide)
UNIT_NUMBERED = {"pptx", "odp"}                  # image metadata carries the slide number


def read(fmt, data):
    from sharepoint2text.parsing.extractors.ms_modern.docx_extractor import read_docx
    from sharepoint2text.parsing.extractors.ms_modern.pptx_extractor import read_pptx
    from sharepoint2text.parsing.extractors.ms_modern.xlsx_extractor import read_xlsx
    from sharepoint2text.parsing.extractors.open_office.odt_extractor import read_odt
    from sharepoint2text.parsing.extractors.open_office.odp_extractor import read_odp
    from sharepoint2text.parsing.extractors.open_office.ods_extractor import read_ods
    from sharepoint2text.parsing.extractors.open_office.odg_extractor import read_odg
    from sharepoint2text.parsing.extractors.epub_extractor import read_epub
    fn = {"docx": read_docx, "pptx": read_pptx, "xlsx": read_xlsx, "odt": read_odt, "odp": read_odp, "ods": read_ods, "odg": read_odg,
          "epub": read_epub}[fmt]
    return list(fn(io.BytesIO(data), f"a.{fmt}"))[0]


def observe(content):
    return [(i.get_bytes().read(), i.get_content_type(), dict(i.get_metadata())) for i in content.iterate_images()]


# ------------------------------------------------------------------- the executable property --
def expected(sc):
    """[(bytes, content type, declared size, unit number)] for the anchors whose media exists, in document order."""
    out = []
    for n, anchors in enumerate(sc.units, start=1):
        for a in anchors:
            if a.kind == "embedded" and a.media in sc.media:
                data = sc.media[a.media]
                ext = a.media.rsplit(".", 1)[-1].lower()
                out.append((data, CT.get(ext), declared_size(data), n))
    return out


ASPECTS = ("resolution", "bytes", "content-type", "pixel-size", "numbering", "unit", "views", "no-foreign")


def check(sc, aspects=ASPECTS, dedup=False):
    """-> None or a failure dict (first violated aspect among `aspects`)."""
    data = BUILDERS[sc.fmt](sc)
    content = read(sc.fmt, data)
    obs = observe(content)
    exp = expected(sc)
    if dedup:      # formats that report a shared media part once: compare on first occurrences
        seen, e2 = set(), []
        for e in exp:
            if e[0] not in seen:
                seen.add(e[0])
                e2.append(e)
        exp = e2
    inputs = sc.describe()

    def fail(aspect, want, got):
        return {"target": f"{sc.fmt}: iterate_images()", "aspect": aspect, "inputs": inputs, "expected": want, "observed": got}

    with_bytes = [o for o in obs if o[0]]
    if "no-foreign" in aspects:
        for o in obs:
            if o[0] and o[0] not in [e[0] for e in exp]:
                return fail("no-foreign", "only images the body places", f"an image of {len(o[0])} bytes that no anchor of the body references was returned")
    if "resolution" in aspects or "bytes" in aspects:
        got = [o[0] for o in with_bytes]
        want = [e[0] for e in exp]
        if got != want:
            missing = [i for i, e in enumerate(want) if e not in got]
            if missing and "resolution" in aspects:
                return fail("resolution", f"{len(want)} images, bytes identical to the embedded files, in document order",
                            f"{len(got)} images returned; anchors (document order) not returned: {missing}")
            if "bytes" in aspects:
                return fail("bytes", f"{len(want)} images, bytes identical to the embedded files, in document order",
                            f"{len(got)} images returned, byte lengths {[len(g) for g in got]} vs {[len(w) for w in want]}")
    pairs = list(zip(with_bytes, exp)) if [o[0] for o in with_bytes] == [e[0] for e in exp] else []
    if "content-type" in aspects:
        for k, (o, e) in enumerate(pairs):
            if o[1] != e[1]:
                return fail("content-type", f"image {k}: {e[1]}", f"image {k}: {o[1]}")
    if "pixel-size" in aspects:
        for k, (o, e) in enumerate(pairs):
            if e[2] is not None and (o[2].get("width"), o[2].get("height")) != tuple(e[2]):
                return fail("pixel-size", f"image {k}: {tuple(e[2])} (declared by the file)", f"image {k}: {(o[2].get('width'), o[2].get('height'))}")
    if "numbering" in aspects:
        nums = [o[2].get("image_number") for o in obs]
        if nums != list(range(1, len(obs) + 1)):
            return fail("numbering", f"running numbers {list(range(1, len(obs) + 1))}", f"{nums}")
    if "unit" in aspects and sc.fmt in PAGED:
        units = list(content.iterate_units())
        per_unit = [[i.get_bytes().read() for i in u.get_images() if i.get_bytes().read()] for u in units]
        want = []
        for n, anchors in enumerate(sc.units, start=1):
            want.append([sc.media[a.media] for a in anchors if a.kind == "embedded" and a.media in sc.media])
        if dedup is False and per_unit != want[:len(per_unit)] + [[]] * 0 or len(per_unit) != len(want):
            if per_unit != want:
                return fail("unit", f"images per unit (byte lengths) {[[len(b) for b in u] for u in want]}",
                            f"{[[len(b) for b in u] for u in per_unit]}")
        if sc.fmt in UNIT_NUMBERED:
            for u in units:
                un = u.get_metadata().unit_number
                for i in u.get_images():
                    if i.get_metadata().get("unit_number") != un:
                        return fail("unit", f"image on unit {un} carries unit_number {un}", f"{i.get_metadata().get('unit_number')}")
    if "views" in aspects:
        units = list(content.iterate_units())
        doc = list(content.iterate_images())
        flat = [i for u in units for i in u.get_images()]
        if sc.fmt in PAGED:
            if [id(x) for x in flat] != [id(x) for x in doc]:
                return fail("views", "concat(u.get_images() for u in iterate_units()) == list(iterate_images())",
                            f"{len(flat)} unit images vs {len(doc)} document images")
        else:
            ids = {id(x) for x in doc}
            if any(id(x) not in ids for x in flat):
                return fail("views", "every unit image is a document image", "a unit image is not among iterate_images()")
        dt = [t.get_table() for t in content.iterate_tables()]
        for u in units:
            for t in u.get_tables():
                if t.get_table() not in dt:
                    return fail("views", "every unit table is a document table", "a unit table is not among iterate_tables()")
    return None


# ------------------------------------------------------------------- scenario generators --
def gen_scenarios(fmt, seed=0, count=40, styles=("relative", "parent", "absolute", "dot"), kinds=("embedded", "missing", "external"),
                  share=True, max_units=3, max_per_unit=3):
    rnd = random.Random(seed * 7919 + hash(fmt) % 1000 if False else seed * 7919 + sum(map(ord, fmt)))
    md = MEDIA_DIR[fmt]
    single = fmt in ("docx", "odt")
    for c in range(count):
        n_units = 1 if single else rnd.randint(0 if fmt in ("pptx", "odp") else 1, max_units)
        media, units, k = {}, [], 0
        for _u in range(n_units):
            anchors = []
            for _a in range(rnd.randint(0, max_per_unit)):
                kind = rnd.choice(kinds) if rnd.random() < 0.3 else "embedded"
                style = rnd.choice(styles)
                if share and media and kind == "embedded" and rnd.random() < 0.2:
                    part = rnd.choice(sorted(media))
                else:
                    k += 1
                    ext = rnd.choice(["png", "jpg", "jpeg", "gif", "bmp"])
                    part = f"{md}/image{k}.{ext}"
                    if kind == "embedded":
                        media[part] = make_image(rnd, ext, k)
                anchors.append(Anchor(part, style, kind))
            units.append(anchors)
        yield Scenario(fmt, units, media, note=f"seed={seed} case={c}")


def simple(fmt, styles, n_units=1, per_unit=1, ext="png"):
    rnd = random.Random(5)
    md = MEDIA_DIR[fmt]
    media, units, k = {}, [], 0
    for _u in range(n_units):
        anchors = []
        for _a in range(per_unit):
            k += 1
            part = f"{md}/image{k}.{ext}"
            media[part] = make_image(rnd, ext, k)
            anchors.append(Anchor(part, styles[(k - 1) % len(styles)], "embedded"))
        units.append(anchors)
    return Scenario(fmt, units, media, note=f"simple {styles}")


def first_failure(scs, aspects, dedup=False):
    for sc in scs:
        try:
            r = check(sc, aspects, dedup)
        except Exception as e:  # noqa  an extractor crash on a generated package is reported as observed behaviour
            r = {"target": f"{sc.fmt}: iterate_images()", "aspect": aspects[0], "inputs": sc.describe(), "expected": "extraction succeeds",
                 "observed": f"{type(e).__name__}: {e}"}
        if r:
            return r
    return None
