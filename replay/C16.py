"""Native replay for C16 (runs under /venv/bin/python on the REAL code of $VERIF_REPO; no z3).

* generator: messages produced by the stdlib email generator (EmailMessage, policy.default) over random header sets, address
  lists with quoted commas / RFC 2047 display names, charsets, transfer encodings, multipart/alternative|mixed|related
  nestings, 0..K attachments of generated documents; hand-folded / legacy (email.mime + Header) variants; mboxes of 0..N
  messages with LF / CRLF line ends and escaped `>From ` lines.  The generator's inputs are the ground truth.
* checks: extracted fields / bodies / attachment bytes against the ground truth; one result per message, in order; .eml vs
  .mbox agreement; a supported attachment extracts to the same text as the attached file on its own.
* targeted witnesses for the obligations of contracts/C16.py (find / rerun protocol of replay/run.py).

`/venv/bin/python replay/C16.py [seed] [n]` prints a summary of the differential run.
"""
import base64
import datetime
import io
import os
import quopri
import random
import re
import sys

REPO = os.environ.get("VERIF_REPO", "/repo")
if REPO not in sys.path:
    sys.path.insert(0, REPO)


def _mods():
    from sharepoint2text.parsing.extractors.mail import eml_email_extractor as eml
    from sharepoint2text.parsing.extractors.mail import mbox_email_extractor as mbox
    return mbox, eml


# =========================================================================== generator ==
NAMES = ["Alice", "Bob Stone", "Doe, John", "Jörg Müller", "Müller, Hans", "山田 太郎", 'Al "Big" Smith', "O'Neil; Pat", "",
         "A very long display name number one with many words in it",
 "Zoë Ünïcode Person With A Long Name Indeed", "x@y (not an address)"]
LOCALS = ["alice", "bob.stone", "j.doe", "joerg", "hans+tag", "yamada", "al", "pat", "info", "a-very-long-local-part-indeed"]
DOMAINS = ["example.org", "x.org", "mail.example.com", "sub.domain.example.net"]
SUBJECTS = ["Hello", "Hello Wörld", "Re: [list] status", "Ünïcödé all the way ✓", "  padded  ", "",
            "This is a very long subject line that will certainly be folded by the generator because it exceeds seventy-eight characters by far",
            "Ünïcödé This is a very long subject line that will certainly be folded by the generator because it exceeds the limit by far",
            "comma, semicolon; colon: done", "日本語の件名", "=?not-an-encoded-word?="]
PLAINS = ["hello", "line one\nline two\n", "café olé\nnaïve\n", "From the start\nFrom me to you in 2024\nlast\n", "tabs\tand  spaces  ",
          "Привет мир\n", "x" * 300 + "\nshort\n", "\n\nleading blank lines\n"]
HTMLS = ["<html><body><p>hello</p></body></html>", "<p>café <b>olé</b></p>\n<p>second</p>", "<div>Привет</div>"]
CHARSETS = ["utf-8", "iso-8859-1", "iso-8859-15", "windows-1252", "koi8-r", "iso-2022-jp", "shift_jis", "gb2312"]
DOCS = [("notes.txt", "text", "plain", "attached text\nsecond line\n".encode()),
        ("data.csv", "text", "csv", b"a,b\n1,2\n3,4\n"),
        ("data.json", "application", "json", b'{"k": [1, 2, 3], "s": "v"}'),
        ("page.html", "text", "html", b"<html><body><h1>T</h1><p>para</p></body></html>"),
        ("readme.md", "text", "markdown", b"# Title\n\ntext\n"),
        ("latin1.txt", "text", "plain", "caf\xe9 ol\xe9\r\n".encode("latin-1")),
        ("blob.bin", "application", "octet-stream", bytes(range(256))),
        ("empty.dat", "application", "octet-stream", b""),
        ("Ünï cödé.txt", "text", "plain", b"named with non-ascii\n"),
        ("image.png", "image", "png", b"\x89PNG\r\n\x1a\n" + b"\x00" * 20),
        # names that are not safe file names: the attachment's NAME is reported as sent (nothing is written to disk here)
        ("Q4 2025/forecast v2.csv", "text", "csv", b"q,v\n4,2\n"),
        ("24\\7 support rota.txt", "text", "plain", b"rota\n"),
        ("../up.txt", "text", "plain", b"up\n"),
        (".hidden.md", "text", "markdown", b"# hidden\n"),
        ("n" * 250 + ".txt", "text", "plain", b"long name\n"),
        # generic labels: the name decides (routing is by name first)
        ("page2.html", "text", "plain", b"<html><body><h1>Quarterly</h1><p>Revenue grew.</p></body></html>"),
        ("table.csv", "text", "plain", b"x,y\n5,6\n"),
        ("notes.md", "application", "json", b"# not json\n\nbut markdown\n")]


def _addr(rng):
    from email.headerregistry import Address
    return Address(rng.choice(NAMES), rng.choice(LOCALS), rng.choice(DOMAINS))


def _encodable(text, cs):
    try:
        text.encode(cs)
        return True
    except (UnicodeEncodeError, LookupError):
        return False


def gen_message(rng, idx=0):
    """-> (raw bytes with LF line ends, truth dict)"""
    from email.message import EmailMessage
    from email import policy
    m = EmailMessage(policy=policy.default.clone(linesep="\n"))
    t = {"idx": idx}
    if rng.random() < 0.9:
        a = _addr(rng)
        m["From"] = a
        t["from"] = (a.display_name, a.addr_spec)
    else:
        t["from"] = ("", "")
    for hdr, key in (("To", "to"), ("Cc", "cc"), ("Bcc", "bcc"), ("Reply-To", "reply_to")):
        n = rng.choice([0, 0, 1, 2, 3]) if hdr != "To" else rng.choice([0, 1, 2, 3, 4])
        if n:
            addrs = [_addr(rng) for _ in range(n)]
            m[hdr] = addrs
            t[key] = [(a.display_name, a.addr_spec) for a in addrs]
        else:
            t[key] = []
    subj = rng.choice(SUBJECTS)
    if rng.random() < 0.9:
        m["Subject"] = f"{subj}" if idx == 0 else f"{subj} #{idx}"
        t["subject"] = str(m["Subject"])
    else:
        t["subject"] = ""
    if rng.random() < 0.85:
        tz = datetime.timezone(datetime.timedelta(minutes=rng.choice([0, 60, 120, -300, 330, 570, -210, -570, -150, 345, -1])))
        dt = datetime.datetime(2000 + rng.randrange(25), rng.randrange(1, 13), rng.randrange(1, 28), rng.randrange(24), rng.randrange(60), rng.randrange(60), tzinfo=tz)
        m["Date"] = dt
        t["date"] = dt
    else:
        t["date"] = None
    if rng.random() < 0.8:
        t["message_id"] = f"<{rng.randrange(10**9)}.{idx}@{rng.choice(DOMAINS)}>"
        m["Message-ID"] = t["message_id"]
    else:
        t["message_id"] = ""
    if rng.random() < 0.3:
        t["in_reply_to"] = f"<parent.{rng.randrange(10**6)}@{rng.choice(DOMAINS)}>"
        m["In-Reply-To"] = t["in_reply_to"]
    else:
        t["in_reply_to"] = ""
    shape = rng.choice(["plain", "plain", "html", "alt", "mixed-plain", "mixed-alt", "mixed-related", "atts-only"])
    t["shape"] = shape
    plain = rng.choice(PLAINS)
    html = rng.choice(HTMLS)
    cs = rng.choice([c for c in CHARSETS if _encodable(plain, c) and _encodable(html, c)])
    cte = rng.choice(["8bit", "quoted-printable", "base64"]) if cs != "iso-2022-jp" else rng.choice(["7bit", "base64"])
    t["plain"], t["html"] = "", ""
    t["charset"], t["cte"] = cs, cte
    if shape in ("plain", "alt", "mixed-plain", "mixed-alt", "mixed-related"):
        m.set_content(plain, subtype="plain", charset=cs, cte=cte)
        t["plain"] = plain
        if shape in ("alt", "mixed-alt", "mixed-related"):
            m.add_alternative(html, subtype="html", charset=cs, cte=cte)
            t["html"] = html
            if shape == "mixed-related":
                m.get_payload()[1].add_related(b"\x89PNG\r\n\x1a\n" + b"\x01" * 16, "image", "png", cid="<img1@x.org>")
    elif shape == "html":
        m.set_content(html, subtype="html", charset=cs, cte=cte)
        t["html"] = html
    atts = []
    if shape.startswith("mixed") or shape == "atts-only":
        k = rng.choice([1, 1, 2, 3]) if shape != "mixed-plain" or rng.random() < 0.8 else 0
        for _ in range(k):
            if rng.random() < 0.2:
                # "forward as attachment": another message attached as message/rfc822 (single part or multipart)
                inner = EmailMessage(policy=policy.default.clone(linesep="\n"))
                inner["From"], inner["To"], inner["Subject"] = "inner@x.org", "t@x.org", rng.choice(["inner message", "Re: inner", "x" * rng.randrange(1, 9)])
                inner["Date"] = "Mon, 01 Jan 2024 10:00:00 +0000"
                inner.set_content(rng.choice(["inner body text\nsecond line\n", "short\n", "inner " * rng.randrange(1, 7) + "\n"]))
                if rng.random() < 0.5:
                    inner.add_alternative("<p>inner html</p>", subtype="html")
                fname = rng.choice(["forwarded.eml", "original message.eml"])
                m.add_attachment(inner, filename=fname)
                atts.append((fname, "message/rfc822", inner.as_bytes()))
                continue
            name, mt, st, data = rng.choice(DOCS)
            if mt == "text":
                # keep the exact bytes: attach as bytes with an explicit text type
                m.add_attachment(data, maintype=mt, subtype=st, filename=name)
            else:
                m.add_attachment(data, maintype=mt, subtype=st, filename=name)
            atts.append((name, f"{mt}/{st}", data))
    t["attachments"] = atts
    raw = m.as_bytes()
    t["generator_ok"] = generator_faithful(raw, t)
    return raw, t


def generator_faithful(raw, t):
    """The stdlib generator has folding defects of its own (e.g. the space between two adjacent encoded words of a display
    name is lost).  A generated message counts only when the stdlib's own modern parser (policy.default) reads the intended
    ground truth back from the generated bytes; otherwise it is a generator artefact and is skipped (and counted)."""
    import email
    from email import policy
    head = raw.partition(b"\n\n")[0]
    for h in re.findall(rb"(?im)^(?:from|to|cc|bcc|reply-to):(?:.*\n?(?:[ \t].*\n?)*)", head):
        if re.search(rb"\?=[ \t\r\n]+=\?", h):
            # a display name split into two adjacent encoded words: RFC 2047 6.2 says the white space between them is NOT
            # part of the text, so the bytes no longer spell the intended name (CPython generator defect)
            return False
    m = email.message_from_bytes(raw, policy=policy.default)
    try:
        if (str(m["Subject"]) if m["Subject"] is not None else "") != t["subject"]:
            return False
        for hdr, key in (("To", "to"), ("Cc", "cc"), ("Bcc", "bcc"), ("Reply-To", "reply_to")):
            got = [(a.display_name, a.addr_spec) for a in m[hdr].addresses] if m[hdr] is not None else []
            if got != t[key]:
                return False
        got = [(a.display_name, a.addr_spec) for a in m["From"].addresses][0] if m["From"] is not None else ("", "")
        if got != t["from"]:
            return False
        body = m.get_body(preferencelist=("plain",))
        if t["plain"] and (body is None or body.get_content().strip() != _norm_text(t["plain"])):
            return False
        body = m.get_body(preferencelist=("html",))
        if t["html"] and (body is None or body.get_content().strip() != _norm_text(t["html"])):
            return False
    except Exception:  # noqa
        return False
    return True


def legacy_variants():
    """Hand-made messages: RFC 2047 B/Q words in several charsets, hand-folded headers, legacy email.mime construction."""
    out = []
    D = b"Date: Mon, 01 Jan 2024 10:00:00 +0200\n"
    base = {"to": [], "cc": [], "bcc": [], "reply_to": [], "in_reply_to": "", "message_id": "", "html": "", "attachments": [],
            "date": datetime.datetime(2024, 1, 1, 10, 0, 0, tzinfo=datetime.timezone(datetime.timedelta(hours=2)))}
    raw = (b"From: =?utf-8?q?M=C3=BCller=2C_Hans?= <h@x.org>\n"
           b"To: =?utf-8?q?Doe=2C_John?= <j@x.org>, =?iso-8859-1?b?SvZyZw==?= <jo@x.org>,\n \"Quoted, Name\" <q@x.org>\n"
           b"Subject: =?utf-8?B?SGVsbG8gV8O2cmxk?= =?utf-8?q?_and_more?=\n" + D + b"Message-ID: <abc@x.org>\n"
           b"Content-Type: text/plain; charset=iso-8859-1\nContent-Transfer-Encoding: quoted-printable\n\ncaf=E9 ol=E9\n")
    out.append((raw, dict(base, **{"from": ("Müller, Hans", "h@x.org"), "to": [("Doe, John", "j@x.org"), ("Jörg", "jo@x.org"), ("Quoted, Name", "q@x.org")],
                                   "subject": "Hello Wörld and more", "message_id": "<abc@x.org>", "plain": "café olé", "shape": "legacy-qp"})))
    raw = (b"From: a@x.org\nSubject: part one\n part two\n\tpart three\n" + D + b"Message-ID:\n <folded@x.org>\nIn-Reply-To:\n <parent@x.org>\n\nbody\n")
    out.append((raw, dict(base, **{"from": ("", "a@x.org"), "subject": "part one part two\tpart three", "message_id": "<folded@x.org>",
                                   "in_reply_to": "<parent@x.org>", "plain": "body", "shape": "hand-folded"})))
    long_name = "Mustermann, Erika (Corporate Finance and Controlling Department, Building 7, Frankfurt am Main)"
    raw = (b'From: "Mustermann, Erika (Corporate Finance and Controlling\n Department, Building 7, Frankfurt am Main)" <e@x.org>\n'
           b'To: "Mustermann, Erika (Corporate Finance and Controlling Department,\n Building 7, Frankfurt am Main)" <e@x.org>, Bob <b@x.org>\n'
           b'Cc: "Mustermann, Erika (Corporate Finance and Controlling Department, Building 7,\n\tFrankfurt am Main)" <e2@x.org>\n'
           b"Subject: folded quoted display names\n" + D + b"\nbody\n")
    out.append((raw, dict(base, **{"from": (long_name, "e@x.org"), "to": [(long_name, "e@x.org"), ("Bob", "b@x.org")],
                                   "cc": [(long_name.replace("7, Frankfurt", "7,\tFrankfurt"), "e2@x.org")], "subject": "folded quoted display names",
                                   "plain": "body", "shape": "folded-quoted-names"})))
    raw = (b"From: =?koi8-r?B?8NLJ18XU?= <p@x.org>\nSubject: =?koi8-r?B?8NLJ18XUIM3J0g==?=\n" + D +
           b"Content-Type: text/plain; charset=koi8-r\nContent-Transfer-Encoding: base64\n\n" + base64.encodebytes("Привет мир\n".encode("koi8-r")))
    out.append((raw, dict(base, **{"from": ("Привет", "p@x.org"), "subject": "Привет мир", "plain": "Привет мир", "shape": "legacy-koi8"})))
    raw = (b"From: a@x.org\nSubject: =?x-unknown-charset?q?caf=C3=A9?=\n" + D + b"Content-Type: text/plain; charset=x-nope\n\ncaf\xc3\xa9\n")
    out.append((raw, dict(base, **{"from": ("", "a@x.org"), "subject": "café", "plain": "café", "shape": "unknown-charset"})))
    return out


def mbox_bytes(raws, eol=b"\n", escape=True):
    out = b""
    for k, raw in enumerate(raws):
        body = raw
        if escape:
            head, sep, rest = body.partition(b"\n\n")
            rest = re.sub(rb"(?m)^(>*From )", rb">\1", rest)
            body = head + sep + rest
        out += b"From MAILER-DAEMON Sat Oct  3 21:40:0" + str(k % 10).encode() + b" 2026\n" + body
        if not body.endswith(b"\n"):
            out += b"\n"
        out += b"\n"
    return out.replace(b"\n", eol) if eol != b"\n" else out


# ============================================================================ checking ==
def _norm_text(s):
    s = s.replace("\r\n", "\n").replace("\r", "\n")
    s = re.sub(r"(?m)^>(>*From )", r"\1", s)
    return s.strip()


def _addr_list(xs):
    return [(a.name, a.address) for a in xs]


def _expected_addrs(pairs):
    return [(n, a) for (n, a) in pairs if a]


def compare(result, t, kind):
    """-> list of (field, expected, observed)"""
    bad = []

    def chk(field, exp, obs):
        if exp != obs:
            bad.append((field, exp, obs))
    chk("subject", t["subject"].strip(), result.subject)
    chk("from_email", t["from"], (result.from_email.name, result.from_email.address))
    for key, field in (("to", "to_emails"), ("cc", "to_cc"), ("bcc", "to_bcc"), ("reply_to", "reply_to")):
        chk(field, _expected_addrs(t[key]), _addr_list(getattr(result, field)))
    if t["date"] is None:
        chk("date", "", result.metadata.date)
    else:
        try:
            got = datetime.datetime.fromisoformat(result.metadata.date)
            ok = got.tzinfo is not None and got == t["date"]
        except ValueError:
            ok = False
        if not ok:
            bad.append(("date", t["date"].isoformat(), result.metadata.date))
        if kind == "mbox":
            chk("date(iso, original offset)", t["date"].isoformat(), result.metadata.date)
    chk("message_id", t["message_id"], result.metadata.message_id)
    chk("in_reply_to", t["in_reply_to"], result.in_reply_to)
    # decoding proper is the library's: mailparser does not decode an unknown charset label as UTF-8 and skips the charset of
    # 7bit bodies altogether (iso-2022-jp stays as escape sequences); reported under `lib:` and not attributed to the glue
    lib = kind == "eml" and (t.get("shape") == "unknown-charset" or (t.get("charset") == "iso-2022-jp" and t.get("cte") == "7bit"))
    pre = "lib:mailparser:" if lib else ""
    if any(mt_ == "message/rfc822" for (_n, mt_, _d) in t["attachments"]):
        pre = "known:attached-message:"        # recorded finding: the text of an attached message leaks into the bodies
    chk(pre + "body_plain", _norm_text(t["plain"]), _norm_text(result.body_plain))
    chk(pre + "body_html", _norm_text(t["html"]), _norm_text(result.body_html))
    got = [(a.filename, a.mime_type, a.data.getvalue()) for a in result.attachments]
    exp = list(t["attachments"])
    extra = [g for g in got if g not in exp]
    if t.get("shape") == "mixed-related":
        extra = [g for g in extra if not g[0].startswith("<img1")]      # the inline related image (classified by mailparser)
    missing = [e for e in exp if e not in got]
    if missing or extra or [g for g in got if g in exp] != exp:
        bad.append(("attachments", [(n, m, len(d)) for n, m, d in exp], [(n, m, len(d)) for n, m, d in got]))
    for a in result.attachments:
        from sharepoint2text.parsing.mime_types import is_supported_mime_type
        if a.is_supported_mime_type != is_supported_mime_type(a.mime_type):
            bad.append(("is_supported_mime_type", is_supported_mime_type(a.mime_type), a.is_supported_mime_type))
    return bad


def attachments_as_files(result):
    """-> list of mismatches: supported attachments extract to the same text as the file on its own; streams are reset."""
    from sharepoint2text.parsing.router import get_extractor
    from sharepoint2text.parsing.mime_types import MIME_TYPE_MAPPING
    from sharepoint2text.parsing.exceptions import ExtractionFileFormatNotSupportedError
    bad = []
    want = []
    for a in result.attachments:
        if not a.is_supported_mime_type:
            continue
        try:
            ex = get_extractor(a.filename)
        except ExtractionFileFormatNotSupportedError:
            ft = MIME_TYPE_MAPPING.get(a.mime_type)
            if not ft:
                continue
            ex = get_extractor(f"attachment.{ft}")
        try:
            want.extend(r.get_full_text() for r in ex(io.BytesIO(a.data.getvalue()), a.filename))
        except Exception:  # noqa  (a failing attachment is skipped by the iterator)
            pass
    got = [r.get_full_text() for r in result.iterate_supported_attachments()]
    if got != want:
        bad.append(("iterate_supported_attachments", want, got))
    for a in result.attachments:
        if a.data.tell() != 0:
            bad.append(("attachment stream position", 0, a.data.tell()))
    return bad


def run_eml(raw):
    _mbox, eml = _mods()
    return list(eml.read_eml_format_mail(io.BytesIO(raw)))


def run_mbox(data):
    mbox, _eml = _mods()
    return list(mbox.read_mbox_format_mail(io.BytesIO(data)))


def _short(x, n=300):
    r = repr(x)
    return r if len(r) <= n else r[:n] + "..."


def differential(seed=0, n=120, stop_at=None):
    """Run the generator corpus through .eml and .mbox extraction.  -> {category: [failure records]}"""
    rng = random.Random(seed)
    fails = {}

    def add(cat, rec):
        fails.setdefault(cat, []).append(rec)

    corpus = [gen_message(rng, i) for i in range(n)]
    skipped = [c for c in corpus if not c[1].get("generator_ok", True)]
    corpus = [c for c in corpus if c[1].get("generator_ok", True)] + legacy_variants()
    if skipped:
        fails["~generator-artefacts-skipped"] = [{"expected": "stdlib parser reads the ground truth back", "observed": f"{len(skipped)} of {n} generated messages"}]
    for raw, t in corpus:
        # --- .eml
        try:
            res = run_eml(raw)
            if len(res) != 1:
                add("eml:count", {"raw": raw.decode("latin-1"), "expected": 1, "observed": len(res)})
            else:
                for (f, e, o) in compare(res[0], t, "eml"):
                    add(f"eml:{f}", {"raw": raw.decode("latin-1"), "expected": _short(e), "observed": _short(o), "shape": t.get("shape")})
                for (f, e, o) in attachments_as_files(res[0]):
                    add(f"eml:{f}", {"raw": raw.decode("latin-1"), "expected": _short(e), "observed": _short(o)})
        except Exception as e:  # noqa
            add("eml:exception", {"raw": raw.decode("latin-1"), "expected": "a result", "observed": f"{type(e).__name__}: {e} cause={e.__cause__!r}", "shape": t.get("shape")})
        # --- single-message mbox, LF and CRLF
        for eol in (b"\n", b"\r\n"):
            try:
                res = run_mbox(mbox_bytes([raw], eol))
                if len(res) != 1:
                    add("mbox:count", {"raw": raw.decode("latin-1"), "expected": 1, "observed": len(res)})
                    continue
                for (f, e, o) in compare(res[0], t, "mbox"):
                    add(f"mbox:{f}", {"raw": raw.decode("latin-1"), "eol": eol.decode("latin-1"), "expected": _short(e), "observed": _short(o), "shape": t.get("shape")})
            except Exception as e:  # noqa
                add("mbox:exception", {"raw": raw.decode("latin-1"), "expected": "a result", "observed": f"{type(e).__name__}: {e} cause={e.__cause__!r}", "shape": t.get("shape")})
        if stop_at and len(fails) >= stop_at:
            break
    # --- mailboxes of 0..N messages: one result per message, in order
    for N in range(0, 6):
        for eol in (b"\n", b"\r\n"):
            part = [corpus[rng.randrange(len(corpus))] for _ in range(N)]
            data = mbox_bytes([r for r, _t in part], eol)
            try:
                res = run_mbox(data)
                got = [r.subject for r in res]
                exp = [t["subject"].strip() for _r, t in part]
                if len(res) != N:
                    add("mailbox:count", {"n_messages": N, "eol": eol.decode("latin-1"), "expected": N, "observed": len(res), "mbox": data.decode("latin-1")[:2000]})
                elif got != exp and all("\n" not in s for s in exp):
                    add("mailbox:order", {"n_messages": N, "expected": exp, "observed": got})
            except Exception as e:  # noqa
                add("mailbox:exception", {"n_messages": N, "eol": eol.decode("latin-1"), "expected": f"{N} results",
                                          "observed": f"{type(e).__name__}: {e} cause={e.__cause__!r}", "dates": [t["date"] is not None for _r, t in part]})
    # --- .eml vs .mbox agreement
    for raw, t in corpus[:60]:
        try:
            a, b = run_eml(raw), run_mbox(mbox_bytes([raw]))
        except Exception:  # noqa  (reported above)
            continue
        if len(a) == 1 and len(b) == 1:
            a, b = a[0], b[0]
            for f in ("subject", "in_reply_to"):
                if getattr(a, f) != getattr(b, f):
                    add(f"agree:{f}", {"raw": raw.decode("latin-1"), "eml": getattr(a, f), "mbox": getattr(b, f)})
            for f in ("to_emails", "to_cc", "to_bcc", "reply_to"):
                if _addr_list(getattr(a, f)) != _addr_list(getattr(b, f)):
                    add(f"agree:{f}", {"raw": raw.decode("latin-1"), "eml": _addr_list(getattr(a, f)), "mbox": _addr_list(getattr(b, f))})
            if (a.from_email.name, a.from_email.address) != (b.from_email.name, b.from_email.address):
                add("agree:from_email", {"raw": raw.decode("latin-1"), "eml": str(a.from_email), "mbox": str(b.from_email)})
            if (t.get("charset"), t.get("cte")) == ("iso-2022-jp", "7bit") or t.get("shape") == "unknown-charset" \
                    or any(mt_ == "message/rfc822" for (_n, mt_, _d) in t["attachments"]):
                pass
            elif _norm_text(a.body_plain) != _norm_text(b.body_plain) or _norm_text(a.body_html) != _norm_text(b.body_html):
                add("agree:body", {"raw": raw.decode("latin-1"), "eml": _short(a.body_plain), "mbox": _short(b.body_plain)})
            if len(a.attachments) != len(b.attachments):
                add("agree:attachments", {"raw": raw.decode("latin-1")[:1500], "eml": len(a.attachments), "mbox": len(b.attachments)})
    return fails


# ============================================================ per-function native checks ==
def ref_split(data):
    """Reference: messages are the runs of lines between separator lines ('From ' + token + ... + 4-digit year), trailing
    end-of-line characters stripped, empty runs dropped."""
    out, cur, started = [], [], False
    for ln in data.splitlines(keepends=True):
        body = ln.rstrip(b"\r\n")
        is_sep = ln.endswith(b"\n") and re.fullmatch(rb"From \S+.*\d{4}", body.rstrip(b"\r") if ln.endswith(b"\r\n") else body) is not None \
            and b"\r" not in (body[:-1] if ln.endswith(b"\r\n") else body)
        if is_sep:
            if started:
                out.append(b"".join(cur))
            cur, started = [], True
        elif started:
            cur.append(ln)
    if started:
        out.append(b"".join(cur))
    return [x.rstrip(b"\r\n") for x in out if x.rstrip(b"\r\n")]


def _splitter(mbox):
    """The mailbox splitter of the real module, by its ROLE when it does not carry the written name (a private helper may be
    renamed): the one module-level one-argument function that runs `finditer` of a module-level compiled pattern."""
    fn = getattr(mbox, "_split_mbox_messages", None)
    if fn is not None:
        return fn
    import ast, inspect
    tree = ast.parse(inspect.getsource(mbox))
    cands = [f.name for f in tree.body if isinstance(f, ast.FunctionDef) and len(f.args.posonlyargs + f.args.args) == 1
             and any(isinstance(n, ast.Call) and isinstance(n.func, ast.Attribute) and n.func.attr == "finditer" and isinstance(n.func.value, ast.Name)
                     and isinstance(getattr(mbox, n.func.value.id, None), re.Pattern) for n in ast.walk(f))]
    if len(cands) != 1:
        raise AttributeError("no function of mbox_email_extractor fills the role of _split_mbox_messages")
    return getattr(mbox, cands[0])


def check_split(seed=0, n=3000):
    mbox, _ = _mods()
    split = _splitter(mbox)
    rng = random.Random(seed)
    atoms = [b"From a@x.org Mon Jan  1 00:00:00 2024", b">From b Mon Jan  1 00:00:00 2024", b"From: a@x.org", b"Subject: s", b"", b"body 2024", b"From x",
             b"text", b"From MAILER-DAEMON Sat Oct  3 21:40:04 2026"]
    for _ in range(n):
        eol = rng.choice([b"\n", b"\r\n"])
        lines = [rng.choice(atoms) for _ in range(rng.randrange(0, 9))]
        data = eol.join(lines) + (eol if lines and rng.random() < 0.8 else b"")
        got, want = split(data), ref_split(data)
        if got != want:
            return {"target": "mbox_email_extractor.py::_split_mbox_messages", "inputs": {"data": data.decode("latin-1")}, "expected": _short(want), "observed": _short(got)}
    return None


def check_headers():
    import email.header
    import email.utils
    mbox, _ = _mods()
    vals = [None, "", "plain", "=?utf-8?B?SGVsbG8gV8O2cmxk?=", "=?x-nope?q?caf=E9?=", "=?utf-8?q?a?= b =?iso-8859-1?q?=E9?=", "a\n b", "a\r\n\tb", "=?utf-8?b?w5w=?=\n =?utf-8?b?w7Y=?=",
            "=?utf-8?q?bad=FF?=", "=?ascii?q?=E9?="]
    # (round 6) folded values, systematically: every pair / triple of segments (plain text, RFC 2047 Q word, B word) folded between
    # the segments with a blank or a tab, LF or CRLF -- the folding white space between an encoded word and plain text is content
    segs = ["Quartalsbericht", "=?utf-8?q?M=C3=A4rz?=", "=?utf-8?b?w5xiZXJzaWNodA==?=", "Haus 7"]
    for a in segs:
        for b in segs:
            for ws in (" ", "\t"):
                for eol in ("\n", "\r\n"):
                    vals.append(a + eol + ws + b)
                    vals.append(a + eol + ws + b + eol + ws + segs[0])
                    vals.append(segs[0] + " " + a + eol + ws + b)

    def ref_dhv(v):
        if not v:
            return ""
        v = re.sub(r"\r?\n(?=[ \t])", "", v)
        out = []
        for part, cs in email.header.decode_header(v):
            if isinstance(part, bytes):
                try:
                    out.append(part.decode(cs or "utf-8", errors="replace"))
                except LookupError:
                    out.append(part.decode("utf-8", errors="replace"))
            else:
                out.append(part)
        return "".join(out)
    for v in vals:
        try:
            got = mbox.decode_header_value(v)
        except Exception as e:  # noqa
            return {"target": "mbox_email_extractor.py::decode_header_value", "inputs": {"value": v}, "expected": "no exception", "observed": f"{type(e).__name__}: {e}"}
        if got != ref_dhv(v):
            return {"target": "mbox_email_extractor.py::decode_header_value", "inputs": {"value": v}, "expected": ref_dhv(v), "observed": got}
    lists = [None, "", "a@x.org", "A <a@x.org>, B <b@x.org>", '"Doe, John" <j@x.org>, Name Only, <c@x.org>', "=?utf-8?q?Doe=2C_John?= <j@x.org>",
             "undisclosed-recipients:;", "A <a@x.org>,\n B <b@x.org>",
             '"Mustermann, Erika (Corporate Finance and Controlling Department,\n Building 7)" <e@x.org>', '"Folded\n\tname" <f@x.org>, plain@x.org',
             "Plain Name <p@x.org>", "Very Long Unquoted Display Name That Goes On\n And On <u@x.org>"]
    for v in lists:
        want = [(ref_dhv(n), a) for n, a in email.utils.getaddresses([v]) if a] if v else []
        try:
            got = [(x.name, x.address) for x in mbox.parse_email_addresses(v)]
        except Exception as e:  # noqa
            return {"target": "mbox_email_extractor.py::parse_email_addresses", "inputs": {"addr_string": v}, "expected": want, "observed": f"{type(e).__name__}: {e}"}
        if got != want:
            return {"target": "mbox_email_extractor.py::parse_email_addresses", "inputs": {"addr_string": v}, "expected": want, "observed": got}
        if v is not None:
            n, a = email.utils.parseaddr(v) if v else ("", "")
            r = mbox.parse_email_address(v)
            if (r.name, r.address) != ((ref_dhv(n), a) if v else ("", "")):
                return {"target": "mbox_email_extractor.py::parse_email_address", "inputs": {"addr_string": v}, "expected": (ref_dhv(n), a), "observed": (r.name, r.address)}
    return None


def _unfold(v):
    return re.sub(r"\r?\n(?=[ \t])", "", v)


FOLDED_ADDRESS_HEADERS = ['"Mustermann, Erika (Corporate Finance and Controlling Department,\r\n Building 7, Frankfurt am Main)" <e@x.org>, Bob <b@x.org>',
                          '"Doe, John and a long\r\n\tname" <j@x.org>', '"Doe, John and a long\n name" <j@x.org>']


def check_address_unfolding():
    """parse_email_address(es) on folded header values (as message.get() returns them from LF and CRLF files): the addresses
    are those of the UNFOLDED value (RFC 5322 2.2.3)."""
    import email.utils
    mbox, _ = _mods()
    for v in FOLDED_ADDRESS_HEADERS:
        want = [(n, a) for n, a in email.utils.getaddresses([_unfold(v)]) if a]
        got = [(x.name, x.address) for x in mbox.parse_email_addresses(v)]
        if got != want:
            return {"target": "mbox_email_extractor.py::parse_email_addresses", "inputs": {"addr_string": v}, "expected": want, "observed": got}
        r = mbox.parse_email_address(v)
        w1 = email.utils.parseaddr(_unfold(v))
        if (r.name, r.address) != w1:
            return {"target": "mbox_email_extractor.py::parse_email_address", "inputs": {"addr_string": v}, "expected": w1, "observed": (r.name, r.address)}
    return None


def check_eml_names_unfolded():
    raw = (b'From: "Mustermann, Erika (Corporate Finance and Controlling\n Department, Building 7, Frankfurt am Main)" <e@x.org>\n'
           b'To: "Doe, John and a very long display name that is folded inside\n its quotes" <j@x.org>, Bob <b@x.org>\nSubject: s\n' + D0 + b"\nbody\n")
    r = run_eml(raw)[0]
    want = {"from": "Mustermann, Erika (Corporate Finance and Controlling Department, Building 7, Frankfurt am Main)",
            "to": ["Doe, John and a very long display name that is folded inside its quotes", "Bob"]}
    got = {"from": r.from_email.name, "to": [a.name for a in r.to_emails]}
    if got != want:
        return {"target": "eml_email_extractor.py::_read_eml_format", "inputs": {"message": raw.decode()}, "expected": want, "observed": got}
    return None


def check_dates():
    """Date -> ISO 8601 for the offsets and spellings RFC 5322 allows; the stdlib's own parse + isoformat is the ground truth."""
    import email
    from email.utils import parsedate_to_datetime
    mbox, _ = _mods()
    dates = ["Mon, 01 Jan 2024 10:00:00 +0000", "Mon, 01 Jan 2024 10:00:00 +0200", "Mon, 01 Jan 2024 10:00:00 -0500", "Mon, 01 Jan 2024 10:00:00 +0530",
             "Mon, 01 Jan 2024 10:00:00 +0545", "Mon, 01 Jan 2024 10:00:00 -0330", "Mon, 01 Jan 2024 10:00:00 -0930", "Mon, 01 Jan 2024 10:00:00 -0230",
             "Mon, 01 Jan 2024 10:00:00 -0001", "Mon, 01 Jan 2024 10:00:00 +1400", "Mon, 01 Jan 2024 10:00:00 -1200", "Mon, 01 Jan 2024 10:00:00 -0000",
             "Mon, 01 Jan 2024 10:00:00 GMT", "Mon, 01 Jan 2024 10:00:00 EST", "1 Jan 2024 10:00 +0100", "Mon, 1 Jan 24 10:00:00 +0100",
             "Sun, 31 Dec 2023 23:59:59 -0330", "Thu, 29 Feb 2024 00:00:00 +0930", "not a date", ""]
    for d in dates:
        raw = b"From: a@x.org\nSubject: s\n" + (b"Date: " + d.encode() + b"\n" if d else b"") + b"\nbody\n"
        try:
            want = parsedate_to_datetime(d).isoformat()
        except (TypeError, ValueError):
            want = ""
        try:
            got = mbox.parse_email_message(email.message_from_bytes(raw)).metadata.date
        except Exception as e:  # noqa
            got = f"{type(e).__name__}: {e}"
        if got != want:
            return {"target": "mbox_email_extractor.py::parse_email_message", "inputs": {"Date": d}, "expected": want, "observed": got}
    return None


def check_eml_dates():
    """.eml: the ISO date denotes the instant of the Date header (mailparser normalises to UTC)."""
    import datetime as _dt
    from email.utils import parsedate_to_datetime
    for d in ["Mon, 01 Jan 2024 10:00:00 +0000", "Mon, 01 Jan 2024 10:00:00 +0530", "Mon, 01 Jan 2024 10:00:00 -0330", "Mon, 01 Jan 2024 10:00:00 -0930",
              "Sun, 31 Dec 2023 23:59:59 -0230", "Mon, 01 Jan 2024 10:00:00 +1400"]:
        raw = b"From: a@x.org\nSubject: s\nDate: " + d.encode() + b"\n\nbody\n"
        got = run_eml(raw)[0].metadata.date
        try:
            ok = _dt.datetime.fromisoformat(got) == parsedate_to_datetime(d) and _dt.datetime.fromisoformat(got).tzinfo is not None
        except ValueError:
            ok = False
        if not ok:
            return {"target": "eml_email_extractor.py::_read_eml_format", "inputs": {"Date": d}, "expected": parsedate_to_datetime(d).isoformat() + " (same instant)", "observed": got}
    return None


def check_eml_attachments():
    """.eml: every attachment of the message is returned, in order, with name, type and exact bytes.  Systematic (not sampled):
    every generated document (0-byte, binary, text in a foreign charset, non-file-safe names, ...) alone and next to its
    neighbour, with and without a text body in front."""
    from email.message import EmailMessage
    from email import policy
    groups = [[d] for d in DOCS] + [[DOCS[i], DOCS[(i + 1) % len(DOCS)]] for i in range(len(DOCS))]
    for with_body in (True, False):
        for docs in groups:
            m = EmailMessage(policy=policy.default.clone(linesep="\n"))
            m["From"], m["To"], m["Subject"], m["Date"] = "a@x.org", "b@x.org", "attachments", "Mon, 01 Jan 2024 10:00:00 +0000"
            if with_body:
                m.set_content("body\n")
            for (name, mt, st, data) in docs:
                m.add_attachment(data, maintype=mt, subtype=st, filename=name)
            raw = m.as_bytes()
            exp = [(name, f"{mt}/{st}", data) for (name, mt, st, data) in docs]
            res = run_eml(raw)
            got = [(a.filename, a.mime_type, a.data.getvalue()) for r in res for a in r.attachments]
            if got != exp:
                return {"target": "eml_email_extractor.py::_read_eml_format", "inputs": {"message": raw.decode("latin-1")},
                        "expected": _short([(n, t_, len(d), d[:40]) for n, t_, d in exp]), "observed": _short([(n, t_, len(d), d[:40]) for n, t_, d in got])}
    return None


def _std_type(ext):
    import mimetypes
    return mimetypes.guess_type("file." + ext)[0]


def check_standard_type(exts):
    """An attachment named file.<ext>, announced with the standard MIME type of <ext> (what the stdlib generator picks), of a file
    the router accepts on its own: it must be flagged supported, else iterate_supported_attachments silently skips it."""
    from email.message import EmailMessage
    from email import policy
    from sharepoint2text.parsing.router import get_extractor
    from sharepoint2text.parsing.mime_types import is_supported_mime_type
    for ext in exts:
        mt = _std_type(ext)
        if not mt:
            continue
        name = f"file.{ext}"
        try:
            get_extractor(name)
        except Exception:  # noqa  (not a supported file on its own)
            continue
        m = EmailMessage(policy=policy.default.clone(linesep="\n"))
        m["From"], m["Subject"], m["Date"] = "a@x.org", "s", "Mon, 01 Jan 2024 10:00:00 +0000"
        m.set_content("body")
        m.add_attachment(b"# title\n\ntext\n", maintype=mt.split("/")[0], subtype=mt.split("/")[1], filename=name)
        r = run_eml(m.as_bytes())[0]
        flags = [(a.filename, a.mime_type, a.is_supported_mime_type) for a in r.attachments]
        if flags != [(name, mt.lower(), True)] or not is_supported_mime_type(mt):
            return {"target": "mime_types.py::MIME_TYPE_MAPPING / is_supported_mime_type", "inputs": {"attachment": name, "declared type": mt},
                    "expected": [(name, mt.lower(), True)], "observed": {"attachments (name, type, is_supported_mime_type)": flags,
                                                                 "is_supported_mime_type": is_supported_mime_type(mt), "file on its own": "routed by the router"}}
    return None


def check_mime_keys():
    from sharepoint2text.parsing.mime_types import MIME_TYPE_MAPPING
    bad = [k for k in MIME_TYPE_MAPPING if not re.fullmatch(r"[A-Za-z0-9][A-Za-z0-9!#$&^_.+-]*/[A-Za-z0-9][A-Za-z0-9!#$&^_.+-]*", k)]
    if bad:
        return {"target": "mime_types.py::MIME_TYPE_MAPPING", "inputs": {}, "expected": "every key is a type/subtype name", "observed": bad[:20]}
    return None


RECORDED_MISSING_TYPES = ["7z", "docm", "dotm", "dotx", "otp", "ots", "ott", "potm", "potx", "ppsm", "ppsx", "pptm", "xlsm", "xltm", "xltx"]


def check_dispatch():
    """iterate_supported_attachments: extractor, arguments, stream position, error containment -- with a spy router."""
    from sharepoint2text.parsing import router
    from sharepoint2text.parsing.exceptions import ExtractionFileEncryptedError, ExtractionFileFormatNotSupportedError
    from sharepoint2text.parsing.extractors.data_types import EmailAddress, EmailAttachment, EmailContent
    from sharepoint2text.parsing.mime_types import MIME_TYPE_MAPPING
    real = router.get_extractor
    calls = []

    def spy_extractor(tag, behaviour):
        def ex(stream, name):
            calls.append((tag, name, stream.tell()))
            stream.read()
            if behaviour == "raise":
                raise ValueError("boom")
            if behaviour == "encrypted":
                raise ExtractionFileEncryptedError("enc")
            yield from ()
        return ex

    behaviour = {"v": "ok"}

    def ident(path):
        f = real(path)
        return f"{f.__module__}.{f.__name__}"

    def fake_get_extractor(path):
        return spy_extractor(ident(path), behaviour["v"])      # raises ExtractionFileFormatNotSupportedError like the real one

    router.get_extractor = fake_get_extractor
    try:
        import itertools
        # (file name, declared MIME type, support flag, path the router must be asked for | None = skipped)
        cases = [("report.pdf", "application/pdf", True, "report.pdf"), ("noext", "application/pdf", True, "attachment.pdf"),
                 ("weird.xyz123", "text/csv", True, "attachment.csv"), ("x.bin", "application/octet-stream", False, None),
                 ("noext2", "application/x-unknown", True, None), ("a.txt", "text/plain", True, "a.txt"),
                 # same declared type, names that route differently (generic labels are common: text/plain, application/zip)
                 ("page.html", "text/plain", True, "page.html"), ("bundle.zip", "application/zip", True, "bundle.zip"),
                 ("report.docx", "application/zip", True, "report.docx"), ("noext3", "text/plain", True, "attachment.txt")]
        # every attachment is routed on its own: sequences of 1..3 attachments (state must not leak between iterations)
        seqs = [c for k in (1, 2) for c in itertools.product(cases, repeat=k)] + \
               [c for c in itertools.product(cases, repeat=3) if len({x[1] for x in c}) < 3]
        for beh in ("ok", "raise", "encrypted"):
            behaviour["v"] = beh
            for seq in seqs:
                calls.clear()
                atts = [EmailAttachment(filename=fn, mime_type=mt, data=io.BytesIO(b"0123456789"), is_supported_mime_type=flag) for (fn, mt, flag, _r) in seq]
                for att in atts:
                    att.data.seek(5)
                c = EmailContent(from_email=EmailAddress(), attachments=atts)
                exc = None
                try:
                    list(c.iterate_supported_attachments())
                except Exception as e:  # noqa
                    exc = e
                want_calls, want_exc, touched = [], None, []
                for att, (fn, mt, flag, routed) in zip(atts, seq):
                    if routed is None:
                        continue
                    want_calls.append((ident(routed), fn, 0))
                    touched.append(att)
                    if beh == "encrypted":
                        want_exc = ExtractionFileEncryptedError
                        break
                ok = calls == want_calls and (type(exc) if exc else None) == want_exc and all(a_.data.tell() == 0 for a_ in touched)
                if not ok:
                    return {"target": "data_types.py::EmailContent.iterate_supported_attachments",
                            "inputs": {"attachments (filename, mime_type, is_supported_mime_type)": [x[:3] for x in seq], "extractor_behaviour": beh,
                                       "stream_position_before": 5},
                            "expected": {"calls (extractor the router gives for the file on its own / its MIME type, name passed, stream position)": want_calls,
                                         "exception": want_exc.__name__ if want_exc else None, "position_after": 0},
                            "observed": {"calls": list(calls), "exception": repr(exc), "positions_after": [a_.data.tell() for a_ in atts]}}
        for mt, ft in MIME_TYPE_MAPPING.items():
            try:
                real(f"attachment.{ft}")
            except Exception as e:  # noqa
                return {"target": "router.get_extractor", "inputs": {"path": f"attachment.{ft}"}, "expected": "an extractor", "observed": repr(e)}
    finally:
        router.get_extractor = real
    return None


def check_bodies():
    """get_body_content against the specified selection on hand-made multiparts (walk order, attachments skipped, empty parts
    skipped, charset fallback)."""
    import email
    mbox, _ = _mods()

    def ref(msg):
        def text(p):
            b = p.get_payload(decode=True)
            cs = p.get_content_charset() or "utf-8"
            try:
                return b.decode(cs, errors="replace")
            except LookupError:
                return b.decode("utf-8", errors="replace")
        if not msg.is_multipart():
            b = msg.get_payload(decode=True)
            if not b:
                return "", ""
            return ("", text(msg)) if msg.get_content_type() == "text/html" else (text(msg), "")
        out = {"text/plain": "", "text/html": ""}
        for p in msg.walk():
            if p.get_content_disposition() == "attachment":
                continue
            ct = p.get_content_type()
            if ct in out and not out[ct] and p.get_payload(decode=True):
                out[ct] = text(p)
        return out["text/plain"], out["text/html"]

    def part(ct, body, extra=b""):
        return b"--B\nContent-Type: " + ct + b"\n" + extra + b"\n" + body + b"\n"
    cases = [
        MP + part(b"text/plain", b"first") + part(b"text/plain", b"second") + b"--B--\n",
        MP + part(b"text/html", b"<p>h1</p>") + part(b"text/plain", b"p1") + part(b"text/html", b"<p>h2</p>") + b"--B--\n",
        MP + part(b"text/plain", b"") + part(b"text/plain", b"after an empty part") + b"--B--\n",
        MP + part(b"text/plain", b"att", b"Content-Disposition: attachment; filename=a.txt\n") + part(b"text/plain", b"body") + b"--B--\n",
        MP + part(b"text/plain; charset=x-nope", b"caf\xc3\xa9") + b"--B--\n",
        MP + part(b"application/pdf", b"%PDF") + part(b"text/html", b"<b>only html</b>") + b"--B--\n",
        b"From: a@x.org\nContent-Type: text/html\n\n<p>single html</p>\n",
        b"From: a@x.org\nContent-Type: text/plain; charset=iso-8859-1\nContent-Transfer-Encoding: quoted-printable\n\ncaf=E9\n",
        b"From: a@x.org\n\n",
    ]
    for raw in cases:
        m = email.message_from_bytes(raw)
        want = ref(m)
        try:
            got = mbox.get_body_content(m)
        except Exception as e:  # noqa
            return {"target": "mbox_email_extractor.py::get_body_content", "inputs": {"message": raw.decode("latin-1")}, "expected": want,
                    "observed": f"{type(e).__name__}: {e}"}
        if tuple(got) != want:
            return {"target": "mbox_email_extractor.py::get_body_content", "inputs": {"message": raw.decode("latin-1")}, "expected": want, "observed": tuple(got)}
    return None


def eml_raw_forms():
    """(round 6) Hand-assembled .eml files, systematically: line ends of the FILE (LF / CRLF) x transfer encoding of the bodies
    (7bit, 8bit, quoted-printable, base64) x an extra INLINE part without a file name that is neither text/plain nor text/html
    (text/calendar, text/x-vcard, text/enriched, message/delivery-status; inside the alternative or next to it) x attachments
    whose data is carried verbatim (7bit / 8bit / binary, data with CR LF pairs of its own) or encoded.  -> [(label, raw)]"""
    plain_u, html_u = "line one\nline tw\u00f6\n\nlast line", "<p>caf\u00e9</p>\n<p>second</p>"
    plain_a, html_a = "line one\nline two\n\nlast line", "<p>cafe</p>\n<p>second</p>"

    def enc(text, cte):
        b = text.encode("utf-8")
        if cte == "base64":
            return base64.encodebytes(b)
        if cte == "quoted-printable":
            return quopri.encodestring(b) + b"\n"
        return b + b"\n"

    def part(ct, cte, body, extra=b""):
        return b"Content-Type: " + ct + b"\nContent-Transfer-Encoding: " + cte.encode() + b"\n" + extra + b"\n" + body

    EXTRA = [None,
             (b"text/calendar; charset=utf-8; method=REQUEST", b"BEGIN:VCALENDAR\nVERSION:2.0\nBEGIN:VEVENT\nSUMMARY:Review\nEND:VEVENT\nEND:VCALENDAR\n"),
             (b"text/x-vcard; charset=utf-8", b"BEGIN:VCARD\nFN:Alice Example\nEND:VCARD\n"),
             (b"text/enriched; charset=utf-8", b"<bold>enriched</bold> text\n"),
             (b"message/delivery-status", b"Reporting-MTA: dns; mx.example.org\n\nFinal-Recipient: rfc822; b@x.org\nAction: failed\n")]
    ATTS = [None,
            ("data.csv", b"text/csv", "7bit", b"a,b\n1,2\n3,4\n"),
            ("win.csv", b"text/csv", "7bit", b"a,b\r\n1,2\r\n"),
            ("notes.txt", b"text/plain; charset=us-ascii", "8bit", b"first\r\nsecond\r\n"),
            ("image.png", b"image/png", "base64", b"\x89PNG\r\n\x1a\n" + b"\x00" * 20),
            ("page.html", b"text/html", "quoted-printable", b"<p>x</p>\r\n<p>y</p>\r\n")]
    out = []
    head = b"From: Alice <a@x.org>\nTo: b@x.org\nSubject: raw forms\n" + D0 + b"MIME-Version: 1.0\n"
    for cte in ("7bit", "8bit", "quoted-printable", "base64"):
        plain, html = (plain_a, html_a) if cte == "7bit" else (plain_u, html_u)
        for xi, extra in enumerate(EXTRA):
            for where in (("alt", "mixed") if extra is not None else ("alt",)):
                for ai, att in enumerate(ATTS):
                    alt = [part(b"text/plain; charset=utf-8", cte, enc(plain, cte)), part(b"text/html; charset=utf-8", cte, enc(html, cte))]
                    if extra is not None and where == "alt":
                        alt.append(part(extra[0], "7bit", extra[1]))
                    inner = b"Content-Type: multipart/alternative; boundary=ALT\n\n" + b"".join(b"--ALT\n" + x_ for x_ in alt) + b"--ALT--\n"
                    parts = [inner]
                    if extra is not None and where == "mixed":
                        parts.append(part(extra[0], "7bit", extra[1]))
                    if att is not None:
                        name, ct, acte, data = att
                        body = base64.encodebytes(data) if acte == "base64" else (quopri.encodestring(data) + b"\n" if acte == "quoted-printable" else data)
                        parts.append(part(ct, acte, body, b'Content-Disposition: attachment; filename="' + name.encode() + b'"\n'))
                    raw = head + b"Content-Type: multipart/mixed; boundary=MIX\n\n" + b"".join(b"--MIX\n" + x_ for x_ in parts) + b"--MIX--\n"
                    for eol in ("LF", "CRLF"):
                        if eol == "CRLF":
                            # a file saved with CRLF line ends: every line end of the LF form becomes CR LF (data lines that already
                            # end in CR LF keep theirs)
                            r2 = re.sub(rb"(?<!\r)\n", b"\r\n", raw)
                        else:
                            r2 = raw
                        out.append((f"eol={eol} cte={cte} extra={xi}/{where} att={ai}", r2))
    return out


def check_eml_raw_forms(what=("bodies", "attachments")):
    """.eml against the stdlib parser as reference, on eml_raw_forms(): body_plain / body_html are the content of the text/plain /
    text/html part (an inline part of another type is in neither), every attachment has the bytes the stdlib decodes
    (`get_payload(decode=True)`) -- exact, whatever line ends the file or the data use."""
    import email
    for label, raw in eml_raw_forms():
        m = email.message_from_bytes(raw)
        want_p = want_h = ""
        want_atts = []
        for p_ in m.walk():
            if p_.is_multipart():
                continue
            if p_.get_filename():
                want_atts.append((p_.get_filename(), p_.get_content_type(), p_.get_payload(decode=True)))
            elif p_.get_content_type() == "text/plain" and not want_p:
                want_p = p_.get_payload(decode=True).decode(p_.get_content_charset() or "utf-8", errors="replace")
            elif p_.get_content_type() == "text/html" and not want_h:
                want_h = p_.get_payload(decode=True).decode(p_.get_content_charset() or "utf-8", errors="replace")
        try:
            res = run_eml(raw)
            got_p, got_h = res[0].body_plain, res[0].body_html
            got_atts = [(a.filename, a.mime_type, a.data.getvalue()) for a in res[0].attachments]
        except Exception as e:  # noqa
            return {"target": "eml_email_extractor.py::_read_eml_format", "inputs": {"form": label, "message": raw.decode("latin-1")},
                    "expected": "a result", "observed": f"{type(e).__name__}: {e}"}
        if "bodies" in what and (got_p.strip() != want_p.strip() or got_h.strip() != want_h.strip()):
            return {"target": "eml_email_extractor.py::_read_eml_format", "inputs": {"form": label, "message": raw.decode("latin-1")},
                    "expected": _short((want_p.strip(), want_h.strip())), "observed": _short((got_p, got_h))}
        if "attachments" in what and got_atts != want_atts:
            return {"target": "eml_email_extractor.py::_read_eml_format", "inputs": {"form": label, "message": raw.decode("latin-1")},
                    "expected": _short([(n, t_, len(d), d[:40]) for n, t_, d in want_atts]), "observed": _short([(n, t_, len(d), d[:40]) for n, t_, d in got_atts])}
    return None


def check_pattern():
    mbox, _ = _mods()
    rx = mbox.MBOX_FROM_PATTERN
    must = [b"From a@x.org Mon Jan  1 00:00:00 2024\n", b"From a@x.org Mon Jan  1 00:00:00 2024\r\n", b"From MAILER-DAEMON Sat Oct  3 21:40:04 2026\n"]
    must_not = [b">From a@x.org Mon Jan  1 00:00:00 2024\n", b"From: a@x.org\n", b" From a@x.org Mon Jan  1 00:00:00 2024\n", b"Subject: From a@x.org Mon Jan  1 00:00:00 2024\n"]
    for x in must:
        mm = rx.match(x)
        if not (mm and mm.end() == len(x)):
            return {"target": "mbox_email_extractor.py::MBOX_FROM_PATTERN", "inputs": {"line": x.decode()}, "expected": "whole-line match", "observed": repr(mm)}
    for x in must_not:
        if rx.search(x):
            return {"target": "mbox_email_extractor.py::MBOX_FROM_PATTERN", "inputs": {"line": x.decode()}, "expected": "no match", "observed": repr(rx.search(x))}
    return check_split()


def check_single_recipient():
    from sharepoint2text.parsing.extractors.mail import msg_email_extractor as msg
    table = [("John Doe <john@example.com>", ("John Doe", "john@example.com")), ("<admin@example.com>", ("", "admin@example.com")),
             ("user@example.com", ("", "user@example.com")), ("John Doe", ("John Doe", "")), ("", None), ("   ", None),
             ('"Doe, John" <j@x.org>  ', ("Doe, John", "j@x.org")), ("  a@b.c  ", ("", "a@b.c")), ("A B <a@b.c> trailing", ("A B <a@b.c> trailing", ""))]
    for raw, want in table:
        r = msg._parse_single_recipient(raw)
        got = None if r is None else (r.name, r.address)
        if got != want:
            return {"target": "msg_email_extractor.py::_parse_single_recipient", "inputs": {"raw": raw}, "expected": want, "observed": got}
    return None


def check_multi_recipients():
    """(round 7) _parse_multi_recipients on strings (the pieces between ';' / ',' that give a name or an address, in order) and on
    lists of such strings (concatenation in item order)."""
    from sharepoint2text.parsing.extractors.mail import msg_email_extractor as msg
    table = [("", []), ("A <a@x.com>; B <b@x.com>", [("A", "a@x.com"), ("B", "b@x.com")]), ("u1@x.com, u2@x.com", [("", "u1@x.com"), ("", "u2@x.com")]),
             ("A <a@x.com>;;  ; B", [("A", "a@x.com"), ("B", "")]), ("< > ; c@x.org", [("", "c@x.org")]), (";", []), ("One Name", [("One Name", "")]),
             ("X <x@x.org>,Y <y@x.org>;Z <z@x.org>", [("X", "x@x.org"), ("Y", "y@x.org"), ("Z", "z@x.org")]),
             # the list form: the recipients of each item, items in order
             ([], []), (["User <user@x.com>"], [("User", "user@x.com")]),
             (["A <a@x.com>", "B <b@x.com>; C <c@x.com>", "", "d@x.com"], [("A", "a@x.com"), ("B", "b@x.com"), ("C", "c@x.com"), ("", "d@x.com")]),
             (["Q <q@x.org>, R", "S <s@x.org>"], [("Q", "q@x.org"), ("R", ""), ("S", "s@x.org")])]
    for raw, want in table:
        got = [(r.name, r.address) for r in msg._parse_multi_recipients(raw)]
        if got != want:
            return {"target": "msg_email_extractor.py::_parse_multi_recipients", "inputs": {"raw": raw}, "expected": want, "observed": got}
    return None


def check_read_ole_string():
    """(round 7) _read_ole_string over a stub OLE file: never raises; '' when the stream is missing / unreadable, else the UTF-16-LE
    text without trailing NULs (undecodable units dropped) -- validates the assumed olefile shapes the contract is stated over."""
    from sharepoint2text.parsing.extractors.mail import msg_email_extractor as msg

    class Stream:
        def __init__(self, data):
            self.data = data

        def read(self):
            if isinstance(self.data, Exception):
                raise self.data
            return self.data

    class Ole:
        def __init__(self, streams):
            self.streams = streams

        def openstream(self, path):
            key = tuple(path)
            if key not in self.streams:
                raise OSError("file not found")
            return Stream(self.streams[key])
    ole = Ole({("st", "a"): "report.txt\x00\x00".encode("utf-16-le"), ("st", "b"): "Bericht \u00fc.pdf".encode("utf-16-le") + b"\x00",
               ("st", "c"): OSError("broken sector chain"), ("st", "d"): b"", ("a", "st"): "swapped".encode("utf-16-le")})
    table = [(("st", "a"), "report.txt"), (("st", "b"), "Bericht \u00fc.pdf"), (("st", "c"), ""), (("st", "d"), ""), (("st", "missing"), "")]
    for (storage, name), want in table:
        try:
            got = msg._read_ole_string(ole, storage, name)
        except Exception as e:  # noqa
            got = f"raised {type(e).__name__}: {e}"
        if got != want:
            return {"target": "msg_email_extractor.py::_read_ole_string", "inputs": {"storage": storage, "stream": name}, "expected": want, "observed": got}
    return None


def check_looks_like_html():
    """(round 7) _looks_like_html: the cases the contract distinguishes (empty, doctype / <html / <body in any case after leading
    blanks, a listed tag closed at once); tags with attributes are the recorded finding C16-msg-html-fragment-not-recognised."""
    from sharepoint2text.parsing.extractors.mail import msg_email_extractor as msg
    table = [("", False), ("plain text", False), ("  \n<!DOCTYPE html><title>x</title>", True), ("x <HTML lang=en>", True), ("<Body\n>", True),
             ("<p>para</p>", True), ("a < b", False), ("<BR>", True), ("1 <pre>x</pre>", False)]
    for text, want in table:
        got = msg._looks_like_html(text)
        if got is not want:
            return {"target": "msg_email_extractor.py::_looks_like_html", "inputs": {"text": text}, "expected": want, "observed": got}
    return None


def check_msg_fixture():
    """read_msg_format_mail on the repository's .msg fixtures against their .eml twins (field mapping)."""
    from sharepoint2text.parsing.extractors.mail import msg_email_extractor as msg
    d = os.path.join(REPO, "sharepoint2text/tests/resources/mails")
    for name in ("basic_email", "msg_with_attachment"):
        p = os.path.join(d, name + ".msg")
        if not os.path.exists(p):
            continue
        data = open(p, "rb").read()
        res = list(msg.read_msg_format_mail(io.BytesIO(data)))
        if len(res) != 1:
            return {"target": "msg_email_extractor.py::read_msg_format_mail", "inputs": {"file": p}, "expected": 1, "observed": len(res)}
        from msg_parser import MsOxMessage
        mo = MsOxMessage(io.BytesIO(data))
        r = res[0]
        if r.subject != (mo.subject or "").strip() or r.metadata.message_id != mo.message_id:
            return {"target": "msg_email_extractor.py::read_msg_format_mail", "inputs": {"file": p}, "expected": (mo.subject, mo.message_id), "observed": (r.subject, r.metadata.message_id)}
    return None


def check_msg_mapping():
    """read_msg_format_mail with a stub MsOxMessage carrying distinct property values (over a real .msg file so that the OLE
    side works): every field of the result comes from its own property."""
    from sharepoint2text.parsing.extractors.mail import msg_email_extractor as msg
    p = os.path.join(REPO, "sharepoint2text/tests/resources/mails/basic_email.msg")
    if not os.path.exists(p):
        return None
    data = open(p, "rb").read()
    for body, want_plain, want_html in (("plain body text", "plain body text", ""), ("<html><body><p>html body</p></body></html>", None, "<html><body><p>html body</p></body></html>")):
        class Stub:
            def __init__(self, stream):
                self.subject, self.message_id, self.sent_date = "  the  subject\u00a0x\ty ", "<mid@x.org>", "Mon, 01 Jan 2024 10:00:00 +0200"
                self.sender, self.to, self.cc, self.bcc, self.reply_to = "S <s@x.org>", "A <a@x.org>; A2 <a2@x.org>", "C <c@x.org>", "B <b@x.org>", "R <r@x.org>"
                self.body = body
        real = msg.MsOxMessage
        msg.MsOxMessage = Stub
        try:
            res = list(msg.read_msg_format_mail(io.BytesIO(data)))
        except Exception as e:  # noqa
            return {"target": "msg_email_extractor.py::read_msg_format_mail", "inputs": {"stub body": body}, "expected": "one result", "observed": f"{type(e).__name__}: {e} cause={e.__cause__!r}"}
        finally:
            msg.MsOxMessage = real
        if len(res) != 1:
            return {"target": "msg_email_extractor.py::read_msg_format_mail", "inputs": {"stub body": body}, "expected": 1, "observed": len(res)}
        r = res[0]
        got = {"subject": r.subject, "message_id": r.metadata.message_id, "date": r.metadata.date, "from": (r.from_email.name, r.from_email.address),
               "to": _addr_list(r.to_emails), "cc": _addr_list(r.to_cc), "bcc": _addr_list(r.to_bcc), "html": r.body_html}
        want = {"subject": "the  subject\u00a0x\ty", "message_id": "<mid@x.org>", "date": "2024-01-01T10:00:00+02:00", "from": ("S", "s@x.org"),
                "to": [("A", "a@x.org"), ("A2", "a2@x.org")], "cc": [("C", "c@x.org")], "bcc": [("B", "b@x.org")], "html": want_html}
        if want_plain is not None:
            got["plain"], want["plain"] = r.body_plain, want_plain
        if got != want:
            return {"target": "msg_email_extractor.py::read_msg_format_mail", "inputs": {"stub MsOxMessage": "distinct property values", "body": body},
                    "expected": want, "observed": got}
    return None


# ================================================================= targeted witnesses ==
D0 = b"Date: Mon, 01 Jan 2024 10:00:00 +0000\n"


def _simple(subject, date=True, extra=b"", body=b"body\n"):
    return b"From: a@x.org\nTo: b@x.org\nSubject: " + subject + b"\n" + (D0 if date else b"") + extra + b"\n" + body


def w_no_date():
    mbox, _ = _mods()
    import email
    raws = [_simple(b"first"), _simple(b"second (no Date header)", date=False), _simple(b"third")]
    got, exc = [], None
    try:
        for r in mbox.read_mbox_format_mail(io.BytesIO(mbox_bytes(raws))):
            got.append(r.subject)
    except Exception as e:  # noqa
        exc = e
    fn_exc = None
    try:
        mbox.parse_email_message(email.message_from_bytes(raws[1]))
    except Exception as e:  # noqa
        fn_exc = e
    bad = exc is not None or got != ["first", "second (no Date header)", "third"] or fn_exc is not None
    return bad, {"mbox": mbox_bytes(raws).decode("latin-1")}, "3 results in order (a message without Date gets an empty date)", \
        {"results": got, "read_mbox_format_mail": f"{type(exc).__name__}: {exc} cause={exc.__cause__!r}" if exc else None,
         "parse_email_message(message 2)": repr(fn_exc)}


def _with_attachment():
    from email.message import EmailMessage
    from email import policy
    m = EmailMessage(policy=policy.default.clone(linesep="\n"))
    m["From"] = "a@x.org"
    m["To"] = "b@x.org"
    m["Subject"] = "with attachments"
    m["Date"] = "Mon, 01 Jan 2024 10:00:00 +0000"
    m.set_content("body")
    m.add_attachment(b"attached text\n", maintype="text", subtype="plain", filename="a.txt")
    m.add_attachment(bytes(range(256)), maintype="application", subtype="octet-stream", filename="b.bin")
    return m.as_bytes()


def w_mbox_attachments():
    raw = _with_attachment()
    res = run_mbox(mbox_bytes([raw]))
    eml = run_eml(raw)
    n = [len(r.attachments) for r in res]
    return n != [2], {"message": raw.decode("latin-1")}, "1 result carrying 2 attachments (a.txt text/plain 14 bytes, b.bin application/octet-stream 256 bytes)", \
        {"mbox attachments": n, "eml attachments": [(a.filename, a.mime_type, len(a.data.getvalue())) for a in eml[0].attachments]}


MP = (b"From: a@x.org\nTo: b@x.org\nSubject: s\n" + D0 + b"MIME-Version: 1.0\nContent-Type: multipart/mixed; boundary=B\n\n")


def w_disposition():
    mbox, _ = _mods()
    import email
    cases = [
        ("disposition type in upper case (RFC 2183: case-insensitive)", MP + b"--B\nContent-Type: text/plain\nContent-Disposition: ATTACHMENT; filename=a.txt\n\nattached text\n"
         b"--B\nContent-Type: text/plain\n\nreal body\n--B--\n", "real body"),
        ("inline part whose file name contains the word attachment", MP + b"--B\nContent-Type: text/plain\nContent-Disposition: inline; filename=\"attachment-notes.txt\"\n\n"
         b"real inline body\n--B--\n", "real inline body"),
    ]
    for what, raw, want in cases:
        got = mbox.get_body_content(email.message_from_bytes(raw))[0].strip()
        if got != want:
            return True, {"message": raw.decode("latin-1"), "case": what}, f"body_plain == {want!r}", {"body_plain": got}
    return False, {}, "", {}


def w_eml_no_from():
    _, eml = _mods()
    raw = b"To: b@x.org\nSubject: no From header\n" + D0 + b"\nbody\n"
    try:
        r = eml._read_eml_format(raw)
        return False, {"message": raw.decode()}, "", {"from_email": str(r.from_email)}
    except Exception as e:  # noqa
        api = None
        try:
            run_eml(raw)
        except Exception as e2:  # noqa
            api = f"{type(e2).__name__}: {e2} cause={e2.__cause__!r}"
        return True, {"message": raw.decode()}, "a result with an empty sender (as .mbox gives)", {"_read_eml_format": f"{type(e).__name__}: {e}", "read_eml_format_mail": api}


def w_unfold_fn():
    mbox, _ = _mods()
    for v, want in (("part one\n part two", "part one part two"), ("a\r\n\tb", "a\tb")):
        got = mbox.decode_header_value(v)
        if got != want:
            return True, {"value": v}, want, got
    return False, {}, "", ""


def w_folded_subject(kind):
    raw = _simple(b"part one\n part two")
    res = run_eml(raw) if kind == "eml" else run_mbox(mbox_bytes([raw]))
    got = res[0].subject
    return got != "part one part two", {"message": raw.decode()}, "subject == 'part one part two' (RFC 5322 2.2.3 unfolding)", {"subject": got}


WS_SUBJECTS = ["Re:  Q4  figures", "a\tb", "prix\u00a0: 10\u202f000 \u20ac", "\u5168\u89d2\u3000\u30b9\u30da\u30fc\u30b9", "thin\u2009space  and  runs", "x  ", "  y"]


def check_subjects(kind):
    """The subject is the decoded Subject header: white space that is CONTENT (runs of blanks, a tab, NBSP / narrow NBSP /
    thin / ideographic space) is kept, only the ends are stripped.  Systematic: every generator subject and every
    white-space subject, written by the stdlib generator (RFC 2047 words where needed) and as a legacy Header in utf-8 /
    a national charset."""
    from email.message import EmailMessage
    from email.header import Header
    from email import policy
    raws = []
    for subj in SUBJECTS + WS_SUBJECTS:
        m = EmailMessage(policy=policy.default.clone(linesep="\n"))
        m["From"], m["To"], m["Date"] = "a@x.org", "b@x.org", "Mon, 01 Jan 2024 10:00:00 +0000"
        m["Subject"] = subj
        m.set_content("body\n")
        raw = m.as_bytes()
        import email as _email
        back = _email.message_from_bytes(raw, policy=policy.default)["Subject"]
        if back is not None and str(back).strip() == subj.strip():        # otherwise a generator artefact, not ground truth
            raws.append((raw, subj))
        for cs in ("utf-8", "iso-8859-1", "shift_jis"):
            if not _encodable(subj, cs) or not subj.strip() or len(subj) > 60:
                continue
            try:
                h = Header(subj, cs).encode()
            except Exception:  # noqa
                continue
            if "\n" in h:
                continue
            raws.append((_simple(h.encode("ascii")), subj))
    for raw, subj in raws:
        res = run_eml(raw) if kind == "eml" else run_mbox(mbox_bytes([raw]))
        got = [r.subject for r in res]
        if got != [subj.strip()]:
            return {"target": "subject", "inputs": {"message": raw.decode("latin-1"), "kind": kind}, "expected": [subj.strip()], "observed": got}
    return None


def w_folded_ids():
    raw = b"From: a@x.org\nSubject: s\n" + D0 + b"Message-ID:\n <abc@x.org>\nIn-Reply-To:\n <parent@x.org>\n\nbody\n"
    r = run_mbox(mbox_bytes([raw]))[0]
    got = (r.metadata.message_id, r.in_reply_to)
    return got != ("<abc@x.org>", "<parent@x.org>"), {"message": raw.decode()}, ("<abc@x.org>", "<parent@x.org>"), got


def _w(fn):
    def run():
        r = fn()
        if r is None:
            return False, {}, "", ""
        return True, r.get("inputs"), r.get("expected"), r.get("observed")
    return run


def w_standard_type_of(ob):
    m_ = re.search(r"standard-type-of-\.([A-Za-z0-9]+)-attachments", ob)
    return check_standard_type([m_.group(1)]) if m_ else None


WITNESSES = [
    ("header-is-unfolded-before-address-parsing", _w(check_address_unfolding)),
    ("display-names-are-unfolded", _w(check_eml_names_unfolded)),
    ("keys-are-type/subtype-names", _w(check_mime_keys)),
    ("parse_email_message/raises", w_no_date),
    ("every-attachment-is-returned", w_mbox_attachments),
    ("get_body_content/", w_disposition),
    ("_read_eml_format/raises", w_eml_no_from),
    ("_read_eml_format/inv-init#attachments", _w(check_eml_attachments)),
    ("_read_eml_format/inv-preserve#attachments", _w(check_eml_attachments)),
    ("_read_eml_format/ensures#every-attachment", _w(check_eml_attachments)),
    ("decode_header_value/ensures", w_unfold_fn),
    ("_read_eml_format/ensures#subject", lambda: w_folded_subject("eml")),
    ("_read_eml_format/ensures#subject", _w(lambda: check_subjects("eml"))),
    ("parse_email_message/ensures#subject", _w(lambda: check_subjects("mbox"))),
    ("parse_email_message/ensures#message_id", w_folded_ids),
    ("parse_email_message/ensures#in_reply_to", w_folded_ids),
    ("_HTML_HINT_RE", lambda: w_html_hint()),
    ("_looks_like_html", lambda: w_html_hint()),
]
def w_folded_address_headers():
    r = check_address_unfolding() or check_eml_names_unfolded()
    return (r is not None, (r or {}).get("inputs"), (r or {}).get("expected"), (r or {}).get("observed"))


def w_missing_standard_types():
    r = check_standard_type(RECORDED_MISSING_TYPES)
    return (r is not None, (r or {}).get("inputs"), (r or {}).get("expected"), (r or {}).get("observed"))


def w_attached_message_leak():
    """A message forwarded as attachment (message/rfc822, Content-Disposition: attachment): its text is not the outer message's body."""
    from email.message import EmailMessage
    from email import policy
    pol = policy.default.clone(linesep="\n")
    inner = EmailMessage(policy=pol)
    inner["From"], inner["Subject"], inner["Date"] = "in@x.org", "inner", "Mon, 01 Jan 2024 10:00:00 +0000"
    inner.set_content("INNER PLAIN\n")
    inner.add_alternative("<p>INNER HTML</p>", subtype="html")
    m = EmailMessage(policy=pol)
    m["From"], m["Subject"], m["Date"] = "a@x.org", "fwd", "Mon, 01 Jan 2024 10:00:00 +0000"
    m.set_content("outer plain body\n")
    m.add_attachment(inner, filename="forwarded.eml")
    raw = m.as_bytes()
    r = run_mbox(mbox_bytes([raw]))[0]
    e = run_eml(raw)[0]
    got = {"mbox": (r.body_plain, r.body_html), "eml": (e.body_plain, e.body_html)}
    want = {"mbox": ("outer plain body", ""), "eml": ("outer plain body", "")}
    return got != want, {"message": raw.decode("latin-1")}, want, got


def w_html_hint():
    """An Outlook HTML body is a fragment whose tags carry attributes (`<div class="WordSection1"><p class="MsoNormal">..`): read
    through read_msg_format_mail (stub MsOxMessage over a real .msg file, as check_msg_mapping) it must come back as the HTML body,
    the plain body being its text.  Falls back to the helper alone when the fixture is missing."""
    from sharepoint2text.parsing.extractors.mail import msg_email_extractor as msg
    body = '<div class="WordSection1"><p class="MsoNormal">Hello Bob,</p><p class="MsoNormal">see you <span style="color:red">tomorrow</span>.</p></div>'
    want = {"body_html": body, "markup in body_plain": False}
    p = os.path.join(REPO, "sharepoint2text/tests/resources/mails/basic_email.msg")
    if not os.path.exists(p) or not hasattr(msg, "MsOxMessage"):
        fn = getattr(msg, "_looks_like_html", None)
        if fn is None:
            return False, {}, "", ""
        got = fn(body)
        return got is not True, {"_looks_like_html": body}, True, got

    class Stub:
        def __init__(self, stream):
            self.subject, self.message_id, self.sent_date = "s", "<mid@x.org>", "Mon, 01 Jan 2024 10:00:00 +0200"
            self.sender, self.to, self.cc, self.bcc, self.reply_to = "S <s@x.org>", "A <a@x.org>", "", "", ""
            self.body = body
    real = msg.MsOxMessage
    msg.MsOxMessage = Stub
    try:
        res = list(msg.read_msg_format_mail(io.BytesIO(open(p, "rb").read())))
    finally:
        msg.MsOxMessage = real
    r = res[0]
    got = {"body_html": r.body_html, "markup in body_plain": "<p" in r.body_plain or "<div" in r.body_plain}
    return got != want, {"stub MsOxMessage over basic_email.msg, body": body}, want, dict(got, body_plain=r.body_plain)


KNOWN = {"C16-msg-html-fragment-not-recognised": w_html_hint, "C16-attached-message-body-leak": w_attached_message_leak, "F21-mbox-no-attachments": w_mbox_attachments, "C16-folded-address-headers": w_folded_address_headers,
         "C16-standard-mime-types-missing": w_missing_standard_types}
RECORDED_SHAPES = ("folded-quoted-names",)       # legacy variants that only restate a recorded finding

FUNCTION_CHECKS = [
    ("parse_email_message", check_dates), ("_read_eml_format", check_eml_dates),
    ("_read_eml_format/ensures#body_", lambda: check_eml_raw_forms(("bodies",))), ("_read_eml_format/ensures#every-attachment", lambda: check_eml_raw_forms(("attachments",))),
    ("_read_eml_format", check_eml_raw_forms),
    ("MBOX_FROM_PATTERN", check_pattern), ("get_body_content", check_bodies),
    ("_split_mbox_messages", check_split), ("decode_header_value", check_headers), ("parse_email_address", check_headers),
    ("iterate_supported_attachments", check_dispatch), ("_parse_single_recipient", check_single_recipient), ("_parse_multi_recipients", check_multi_recipients),
    ("_looks_like_html", check_looks_like_html), ("_read_ole_string", check_read_ole_string), ("read_msg_format_mail", check_msg_mapping), ("read_msg_format_mail", check_msg_fixture),
]
CATEGORY_OF = [("parse_email_message", "mbox:"), ("get_body_content", "mbox:body"), ("read_mbox_format_mail", "mailbox:"), ("_read_eml_format", "eml:"),
               ("read_eml_format_mail", "eml:")]


def find(req):
    ob = req.get("obligation", "") or ""
    if req.get("known_finding"):
        fn = KNOWN.get(req["known_finding"])
        if fn is None:
            return {"reproduced": False, "note": "unknown finding"}
        bad, inputs, exp, obs = fn()
        return {"reproduced": bool(bad), "target": ob, "inputs": inputs, "expected": exp, "observed": obs}
    if req.get("function_check_only"):          # (round 7) one named table check, nothing else (bounded stand-in obligations of the pack)
        fn = globals().get(req["function_check_only"])
        r = fn() if callable(fn) else None
        if r is not None:
            r["reproduced"] = True
            return r
        return {"reproduced": False, "note": "table check passed"}
    if "standard-type-of-." in ob:
        r = w_standard_type_of(ob)
        if r is not None:
            r["reproduced"] = True
            return r
        return {"reproduced": False, "note": "the standard type is flagged supported natively"}
    for key, fn in WITNESSES:
        if key in ob:
            try:
                bad, inputs, exp, obs = fn()
            except Exception:  # noqa  (the witness does not fit the changed code)
                continue
            if bad:
                return {"reproduced": True, "target": ob, "inputs": inputs, "expected": exp, "observed": obs}
    for key, fn in FUNCTION_CHECKS:
        if key in ob:
            try:
                r = fn()
            except Exception:  # noqa  (the check does not fit the changed code, e.g. a renamed helper: no evidence either way)
                continue
            if r is not None:
                r["reproduced"] = True
                return r
    # generic: differential run, restricted to the categories of the function the obligation belongs to
    fails = differential(seed=int(os.environ.get("VERIF_SEED", "0") or 0), n=60)
    for key, prefix in CATEGORY_OF:
        if key in ob:
            for cat, recs in sorted(fails.items()):
                recs = [r_ for r_ in recs if r_.get("shape") not in RECORDED_SHAPES]
                if recs and cat.startswith(prefix) and not _recorded(cat):
                    rec = recs[0]
                    return {"reproduced": True, "target": ob, "inputs": {k: v for k, v in rec.items() if k not in ("expected", "observed")},
                            "expected": rec.get("expected"), "observed": rec.get("observed"), "category": cat}
    return {"reproduced": False, "note": f"no failing input found natively for {ob}; differential categories failing: {sorted(fails)}"}


def _recorded(cat):
    """Categories that are not evidence against the glue: a recorded finding (mbox results carry no attachments), decoding
    done by the library (`lib:`), artefacts of the stdlib generator (`~`)."""
    return cat in ("mbox:attachments", "agree:attachments") or ":lib:" in cat or ":known:" in cat or cat.startswith(("lib:", "~", "known:"))


def rerun(stored):
    return find({"obligation": stored.get("obligation", "")})


if __name__ == "__main__":
    import json
    import logging
    logging.disable(logging.CRITICAL)
    seed = int(sys.argv[1]) if len(sys.argv) > 1 else 0
    n = int(sys.argv[2]) if len(sys.argv) > 2 else 200
    fails = differential(seed, n)
    print(f"repo={REPO} seed={seed} messages={n}+{len(legacy_variants())}")
    for cat, recs in sorted(fails.items()):
        r = recs[0]
        print(f"  {cat}: {len(recs)} failing; e.g. expected={_short(r.get('expected'), 120)} observed={_short(r.get('observed'), 160)} shape={r.get('shape')}")
    for key, fn in FUNCTION_CHECKS:
        print(f"  function check {key}: {json.dumps(fn(), default=repr)[:300]}")
    for key, fn in WITNESSES:
        bad, inputs, exp, obs = fn()
        print(f"  witness {key}: {'FAILS' if bad else 'ok'} {_short(obs, 200) if bad else ''}")
