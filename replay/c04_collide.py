"""More field-name collision documents (C04 (c)/(g): what comes from the path argument must not be overwritten by the document):
package formats whose metadata part names properties with element / attribute NAMES -- OPF (EPUB) and OOXML core properties.
Every field of the result's metadata class appears as a property name, appended AFTER the genuine properties (first-match readers
keep reading the genuine ones)."""
import dataclasses
import glob
import io
import os
import re
import zipfile

REPO = os.environ.get("VERIF_REPO", "/repo")
RES = os.path.join(REPO, "sharepoint2text", "tests", "resources")


def _repack(path, member_pred, edit):
    src = zipfile.ZipFile(path)
    buf = io.BytesIO()
    hit = False
    with zipfile.ZipFile(buf, "w", zipfile.ZIP_DEFLATED) as z:
        for zi in src.infolist():
            data = src.read(zi.filename)
            if member_pred(zi.filename):
                new = edit(data)
                hit = hit or new != data
                data = new
            z.writestr(zi, data)
    return buf.getvalue() if hit else None


def _fixtures(sub, ext):
    return sorted(f for f in glob.glob(os.path.join(RES, sub, "*" + ext)) if "password" not in f and "encrypt" not in f.lower())


def documents():
    from sharepoint2text.parsing.extractors import data_types as dt
    # EPUB: children of <metadata> named after the fields (Dublin Core namespace, package namespace) and <meta name=FIELD content=...>
    names = [f.name for f in dataclasses.fields(dt.EpubMetadata)] if hasattr(dt, "EpubMetadata") else []
    if names:
        extra = ("".join(f"<dc:{n}>doc-says-{n}</dc:{n}>" for n in names) + "".join(f"<{n}>doc-says-{n}</{n}>" for n in names)
                 + "".join(f'<meta name="{n}" content="doc-says-{n}"/>' for n in names)
                 + "".join(f'<meta property="{n}">doc-says-{n}</meta>' for n in names)).encode("utf-8")
        for f in _fixtures("epub", ".epub"):
            try:
                data = _repack(f, lambda n: n.endswith(".opf"), lambda d: re.sub(rb"(</(?:\w+:)?metadata>)", lambda m: extra + m.group(1), d, count=1))
            except Exception:  # noqa -- a fixture that cannot be re-packed gives no document
                continue
            if data:
                yield "collision.epub", data, "epub OPF metadata children / meta names for every field of EpubMetadata"
                break
    # OOXML: docProps/core.xml children named after the fields (core-properties and Dublin Core namespaces)
    # (docx / pptx: own core.xml readers; the xlsx reader's library refuses a core.xml with unknown children -- no result to judge)
    for sub, ext, cls in (("modern_ms", ".docx", "DocxMetadata"), ("modern_ms", ".pptx", "PptxMetadata")):
        if not hasattr(dt, cls):
            continue
        names = [f.name for f in dataclasses.fields(getattr(dt, cls))]
        extra = ("".join(f"<cp:{n}>doc-says-{n}</cp:{n}>" for n in names) + "".join(f"<dc:{n}>doc-says-{n}</dc:{n}>" for n in names)).encode("utf-8")
        for f in _fixtures(sub, ext):
            try:
                data = _repack(f, lambda n: n == "docProps/core.xml",
                               lambda d: re.sub(rb"(</cp:coreProperties>)", lambda m: extra + m.group(1), d, count=1) if b"xmlns:dc=" in d else d)
            except Exception:  # noqa
                continue
            if data:
                yield "collision" + ext, data, f"OOXML core.xml children named after every field of {cls}"
                break
