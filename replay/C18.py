"""Native replay for C18 (runs under /venv/bin/python against the REAL client, no z3).

A fake Microsoft Graph document library (random folder trees, names that need URL quoting, 0..N items per
folder, page sizes 1..N, optional fields missing, hidden children that are trimmed after paging -- so a page that is
not the last may be short or empty and still carry a nextLink) is served through the client's `request_func` hook.  Checked:

* list_all_files / list_files_filtered == an independent reference walk + reference filter (written from the
  property statement: instants as exact fractions, inclusive-after / exclusive-before, case-insensitive
  extension, fnmatch on the full path) -- every matching file exactly once, right parent path, nothing else;
* fault injection at every request index k x {HTTP 4xx/5xx, URLError, malformed JSON (text and non-UTF-8 bytes),
  non-2xx without exception}: the call raises an error of the client's own family (request error carrying
  status / url for HTTP and network failures), every response object handed out so far has been closed, the
  caches hold only what a successful response delivered, and the retry on the healed transport returns the
  complete listing.
* (round 6) paging links carry query strings ($skiptoken / signature styles), so `exc.url` is compared against such URLs too;
  `check_crafted_patterns`: path patterns whose wildcards span `/` against files above / at / below the pattern's directory depth;
  `check_error_fields`: the request error reports the status and URL it was constructed with.
"""
import fnmatch
import logging
import io
import json
import random
import re
from datetime import datetime, timedelta, timezone
from fractions import Fraction
from urllib.error import HTTPError, URLError
from urllib.parse import unquote

logging.getLogger("sharepoint2text.sharepoint_io.client").setLevel(logging.ERROR)
GRAPH = "https://graph.microsoft.com/v1.0"
UTC = timezone.utc
EPOCH = datetime(1970, 1, 1, tzinfo=UTC)


# ------------------------------------------------------------------ reference --
_ISO = re.compile(r"^(\d{4})-(\d\d)-(\d\d)T(\d\d):(\d\d):(\d\d)(?:\.(\d+))?(Z|[+-]\d\d:\d\d)$")


def instant_us(s):
    """Exact instant (Fraction of microseconds since the epoch) denoted by an ISO-8601 UTC/offset timestamp."""
    m = _ISO.match(s or "")
    if not m:
        return None
    y, mo, d, h, mi, sec, frac, tz = m.groups()
    off = timedelta(0)
    if tz != "Z":
        sign = 1 if tz[0] == "+" else -1
        off = sign * timedelta(hours=int(tz[1:3]), minutes=int(tz[4:6]))
    whole = datetime(int(y), int(mo), int(d), int(h), int(mi), int(sec), tzinfo=UTC) - off
    us = Fraction((whole - EPOCH) // timedelta(microseconds=1))
    if frac:
        us += Fraction(int(frac), 10 ** len(frac)) * 1000000
    return us


def bound_us(dt):
    return Fraction((dt - EPOCH) // timedelta(microseconds=1))


def spec_matches(flt, rec):
    """The statement's predicate.  flt: dict of the FileFilter fields; rec: (name, parent_path, created, modified)."""
    name, pp, created, modified = rec
    for stamp, after, before in ((created, flt.get("created_after"), flt.get("created_before")),
                                 (modified, flt.get("modified_after"), flt.get("modified_before"))):
        if after is None and before is None:
            continue
        t = instant_us(stamp)
        if t is None:
            return False
        if after is not None and not (t >= bound_us(after)):
            return False
        if before is not None and not (t < bound_us(before)):
            return False
    exts = flt.get("extensions") or []
    if exts and not any(name.lower().endswith(e.lower()) for e in exts):
        return False
    pats = flt.get("path_patterns") or []
    if pats:
        full = f"{pp}/{name}" if pp else name
        if not any(fnmatch.fnmatch(full, p) for p in pats):
            return False
    return True


# --------------------------------------------------------------- fake library --
class Node:
    def __init__(self, kind, name, nid, **extra):
        self.kind, self.name, self.id, self.extra, self.children = kind, name, nid, extra, []

    def item(self):
        d = dict(self.extra)
        if self.name is not None:
            d["name"] = self.name
        if self.id is not None:
            d["id"] = self.id
        if self.kind == "folder":
            # optional facet fields missing: every third folder has a bare `"folder": {}` facet (Graph allows it)
            d["folder"] = {} if sum(map(ord, str(self.id))) % 3 == 0 else {"childCount": len(self.children)}
        elif self.kind == "file":
            d["file"] = self.extra.get("file", {"mimeType": "application/octet-stream"})
        else:
            d["package"] = {"type": "oneNote"}
        return d


NAMES = ["a.txt", "Report Q1.PDF", "b.docx", "x y.pdf", "ü#1.Pdf", "100%.xlsx", "notes", "c.tar.gz", "d.pdf", "e&f.DOCX"]
FOLDERS = ["Docs", "My Folder", "ä ö", "r#d", "2024-01", "sub", "100% real", "a+b", "Q1%20Reports", "Q1 Reports", "Growth 50%25", "Growth 50%"]
STAMPS = ["2024-01-15T10:30:00Z", "2024-01-15T10:30:00.5Z", "2024-01-15T10:30:00.250Z", "2024-01-15T10:30:00.999999Z",
          "2024-01-15T10:30:00.0000001Z", "2024-01-15T10:30:01Z", "2024-01-15T09:30:00.75-01:00", "2024-01-15T10:29:59.999Z",
          "2024-01-15T12:30:00.123456+02:00", None, "not a date"]


def random_tree(rnd, max_depth=3, max_items=6):
    counter = [0]

    def nid():
        counter[0] += 1
        return f"ID{counter[0]:03d}"

    def build(depth, folder):
        n = rnd.randint(3 if depth == 0 else 0, max_items)
        for _ in range(n):
            r = rnd.random()
            if r < (0.45 if depth == 0 else 0.3) and depth < max_depth:
                # a folder may carry a file facet as well (the folder facet wins: it is walked, never listed as a file)
                fx = {"file": {"mimeType": "application/x-folderish"}} if rnd.random() < 0.2 else {}
                # folders are drive items too: they carry their own (optional) timestamps, which say nothing about the
                # files below them (editing a file in place does not touch the folder)
                if rnd.random() < 0.7:
                    fx["lastModifiedDateTime"] = rnd.choice(STAMPS[:9] + ["2023-06-01T00:00:00Z"])
                if rnd.random() < 0.5:
                    fx["createdDateTime"] = rnd.choice(STAMPS[:9] + ["2023-06-01T00:00:00Z"])
                ch = Node("folder", rnd.choice(FOLDERS) if rnd.random() < 0.95 else None, nid(), **fx)
                build(depth + 1, ch)
            elif r < 0.93:
                extra = {}
                if rnd.random() < 0.8:
                    extra["createdDateTime"] = rnd.choice(STAMPS[:9])
                if rnd.random() < 0.8:
                    extra["lastModifiedDateTime"] = rnd.choice(STAMPS[:9])
                if rnd.random() < 0.1:
                    extra["createdDateTime"] = rnd.choice(STAMPS[9:])
                if rnd.random() < 0.7:
                    extra["size"] = rnd.randint(0, 10 ** 6)
                if rnd.random() < 0.7:
                    extra["webUrl"] = "https://x/" + str(rnd.random())
                if rnd.random() < 0.3:
                    extra["listItem"] = {"fields": {"Custom": 1, "Title": "t", "@odata.etag": "e"}}
                if rnd.random() < 0.1:
                    extra["file"] = {}
                ch = Node("file", rnd.choice(NAMES) if rnd.random() < 0.95 else None, nid() if rnd.random() < 0.95 else None, **extra)
            elif r < 0.965:
                ch = Node("other", "Notebook", nid())
            else:
                for _ in range(rnd.randint(0, 2)):          # a run of hidden entries (trimmed server-side)
                    folder.children.append(Node("hidden", "~hidden", nid()))
                ch = Node("hidden", "~hidden", nid())
            folder.children.append(ch)
    root = Node("folder", "", "ROOT")
    build(0, root)
    return root


def join(pp, name):
    return f"{pp}/{name}" if pp else name


def ref_walk(folder, pp=""):
    """Reference: files of the folder in listing order, then each subfolder (preorder)."""
    out = []
    for ch in folder.children:
        if ch.kind == "file":
            out.append((ch.name or "", pp or None, ch.id or "", ch.extra.get("createdDateTime"), ch.extra.get("lastModifiedDateTime")))
    for ch in folder.children:
        if ch.kind == "folder" and ch.id:
            out.extend(ref_walk(ch, join(pp, ch.name or "")))
    return out


def find_by_path(root, path):
    cur = root
    for seg in [s for s in path.strip("/").split("/") if s]:
        nxt = [c for c in cur.children if c.kind == "folder" and c.name == seg]
        if not nxt:
            return None
        cur = nxt[0]
    return cur


class FakeResponse:
    def __init__(self, status, body, log):
        self.status, self._body, self.closed, self.reads = status, body, 0, 0
        log.append(self)

    def read(self):
        self.reads += 1
        return self._body

    def getcode(self):
        return self.status

    def close(self):
        self.closed += 1


class OldStyleResponse(FakeResponse):
    """No `status` attribute: only getcode()."""
    def __getattribute__(self, name):
        if name == "status":
            raise AttributeError(name)
        return object.__getattribute__(self, name)

    def getcode(self):
        return object.__getattribute__(self, "__dict__")["status"]


class BrokenBodyResponse(FakeResponse):
    def read(self):
        raise ConnectionResetError(104, "injected: connection reset while reading the body")


class FakeGraph:
    """request_func for SharePointRestClient: serves one library; `fault` = (request index, kind) or None."""

    def __init__(self, root, page_size, rnd=None, drive_id=None, omit_empty_value=False):
        self.root, self.page_size, self.drive_id = root, page_size, drive_id
        self.responses, self.requests, self.fault, self.n = [], [], None, 0
        self.by_id = {}
        self.omit_empty_value = omit_empty_value
        self.http_error_bodies = []
        self.rnd = rnd or random.Random(0)

        def index(n):
            if n.id:
                self.by_id[n.id] = n
            for c in n.children:
                if c.kind == "folder":
                    index(c)
        index(root)

    # -- healthy answers -------------------------------------------------------
    def answer(self, req):
        url = req.full_url
        if url.startswith("https://login.microsoftonline.com/"):
            assert req.get_method() == "POST"
            return 200, json.dumps({"access_token": "TOK", "token_type": "Bearer"}).encode()
        assert req.get_header("Authorization") == "Bearer TOK", req.headers
        drive = "drive" if self.drive_id is None else f"drives/{self.drive_id}"
        if url.startswith(GRAPH + "/next/"):
            fid, start = url[len(GRAPH + "/next/"):].split("?")[0].split("/")
            return self.page(self.by_id[fid], int(start))
        m = re.match(re.escape(GRAPH) + r"/sites/([^/]+)/" + re.escape(drive) + r"/root/children\?\$expand=listItem\(\$expand=fields\)$", url)
        if m and m.group(1) == "SITE":
            return self.page(self.root, 0)
        m = re.match(re.escape(GRAPH) + r"/sites/SITE/" + re.escape(drive) + r"/items/([^/]+)/children\?\$expand=listItem\(\$expand=fields\)$", url)
        if m:
            if m.group(1) not in self.by_id:
                return 404, b'{"error": {"code": "itemNotFound"}}'
            return self.page(self.by_id[m.group(1)], 0)
        m = re.match(re.escape(GRAPH) + r"/sites/SITE/" + re.escape(drive) + r"/root:/(.*)$", url)
        if m:
            node = find_by_path(self.root, unquote(m.group(1)))
            if node is None:
                return 404, b'{"error": {"code": "itemNotFound"}}'
            return 200, json.dumps(node.item()).encode()
        if url == GRAPH + "/sites/contoso.sharepoint.com:/sites/Team":
            return 200, json.dumps({"id": "SITE", "displayName": "Team"}).encode()
        return 400, json.dumps({"error": {"code": "BadRequest", "message": "unrouted " + url}}).encode()

    def page(self, folder, start):
        # Graph pages first and trims afterwards: a `hidden` child occupies a slot of its page but is not served, so a page that
        # is not the last one may come back with fewer entries than the page size -- or with none -- and still carry a nextLink
        items = folder.children
        chunk = [c.item() for c in items[start:start + self.page_size] if c.kind != "hidden"]
        body = {"value": chunk}
        if not chunk and self.omit_empty_value:
            body = {}
        if start + self.page_size < len(items):
            body["@odata.nextLink"] = f"{GRAPH}/next/{folder.id}/{start + self.page_size}" + self.next_query(folder, start)
        return 200, json.dumps(body).encode()

    # Paging links are opaque to the client: Graph's carry a query string ($skiptoken, often next to $expand / $top; some
    # services add signatures).  The link styles are mixed per folder and page (no use of the random stream), so a fault on a
    # later page is reported against a URL with a query string as well as against a plain one.
    NEXT_QUERIES = ("", "?$skiptoken=UGFnZWQ9VFJVRSZwX0lEPTEy", "?$expand=listItem($expand=fields)&$top=2&$skiptoken=MSZzaWc9",
                    "?%24skiptoken=p2&sig=Zm9v%2Bbar&tempauth=v1.e30")

    def next_query(self, folder, start):
        return self.NEXT_QUERIES[(sum(map(ord, str(folder.id))) + start // self.page_size) % len(self.NEXT_QUERIES)]

    # -- transport ---------------------------------------------------------------
    def __call__(self, req, timeout=None):
        k = self.n
        self.n += 1
        self.requests.append(req.full_url)
        status, body = self.answer(req)
        if self.fault is not None and self.fault[0] == k:
            kind = self.fault[1]
            if kind.startswith("http"):
                fp = io.BytesIO(b'{"error": "injected"}')
                self.http_error_bodies.append(fp)
                raise HTTPError(req.full_url, int(kind[4:]), "injected", {}, fp)
            if kind == "urlerror":
                raise URLError("injected: connection refused")
            if kind == "readerror":
                return BrokenBodyResponse(200, b"", self.responses)
            if kind == "badjson":
                return FakeResponse(200, b'{"value": [', self.responses)
            if kind == "badutf8":
                return FakeResponse(200, b"\xff\xfe{", self.responses)
            if kind == "emptybody":          # body cut off before the first byte: not JSON either
                return FakeResponse(200, b"", self.responses)
            if kind == "blankbody":
                return FakeResponse(200, b" \r\n\t ", self.responses)
            if kind.startswith("status"):
                cls = OldStyleResponse if self.rnd.random() < 0.3 else FakeResponse
                return cls(int(kind[6:]) if kind[6:] != "None" else None, b"redirect / error page", self.responses)
            raise AssertionError(kind)
        if status >= 400:
            fp = io.BytesIO(body)
            self.http_error_bodies.append(fp)
            raise HTTPError(req.full_url, status, "error", {}, fp)
        cls = OldStyleResponse if self.rnd.random() < 0.2 else FakeResponse
        return cls(status, body, self.responses)


FAULT_KINDS = ["http404", "http401", "http500", "http503", "urlerror", "badjson", "badutf8", "emptybody", "blankbody", "status302", "status500",
               "statusNone", "readerror"]
# "readerror": the response object is handed out and its read() fails (connection reset in mid-body).  Not one of the statement's
# fault kinds: which exception escapes is not judged, only that the response was closed, nothing cached and the retry complete.


def make_client(graph):
    from sharepoint2text.sharepoint_io.client import EntraIDAppCredentials, SharePointRestClient
    return SharePointRestClient("https://contoso.sharepoint.com/sites/Team/", EntraIDAppCredentials("tenant", "cid", "secret"),
                                request_func=graph)


def rec_of(m, dates=False):
    r = (m.name, m.parent_path, m.id)
    return r + (m.created, m.last_modified) if dates else r


def mk_filter(fd):
    from sharepoint2text.sharepoint_io.client import FileFilter
    return FileFilter(**fd)


def fd_json(fd):
    return {k: (v.isoformat() if isinstance(v, datetime) else v) for k, v in fd.items()}


def fd_from_json(d):
    out = {}
    for k, v in d.items():
        out[k] = datetime.fromisoformat(v) if k.endswith(("_after", "_before")) and v is not None else v
    return out


# ----------------------------------------------------------------- experiments --
def listing_call(kind, fd, drive_id):
    if kind == "all":
        return lambda c: c.list_all_files()
    return lambda c: list(c.list_files_filtered(mk_filter(fd), drive_id=drive_id))


def reference(root, kind, fd):
    if kind == "all":
        return [r[:3] for r in ref_walk(root)]
    out = []
    targets = fd.get("folder_paths") or []
    if targets:
        for p in targets:
            node = find_by_path(root, p) if p.strip("/") else None
            if node is None or node is root:
                if not p:
                    continue
                if node is None:
                    continue
            out.extend(ref_walk(node, p))
    else:
        out = ref_walk(root)
    return [r[:3] for r in out if spec_matches(fd, (r[0], r[1], r[3], r[4]))]


def check_listing(seed, kind="all", fd=None, page_size=None, drive_id=None, faults=True, fault_filter=None):
    """-> None or failure record."""
    from sharepoint2text.sharepoint_io.exceptions import SharePointAuthError, SharePointError, SharePointRequestError
    rnd = random.Random(seed)
    root = random_tree(rnd)
    page_size = page_size or rnd.randint(1, 4)
    fd = fd or {}
    call = listing_call(kind, fd, drive_id)
    want = reference(root, kind, fd)
    base = {"seed": seed, "listing": kind, "filter": fd_json(fd), "page_size": page_size, "drive_id": drive_id}
    g = FakeGraph(root, page_size, random.Random(seed), drive_id, omit_empty_value=seed % 3 == 0)
    c = make_client(g)
    try:
        got = [rec_of(m) for m in call(c)]
    except Exception as e:  # noqa
        return dict(base, expected=f"{len(want)} records", observed=f"healthy run raised {type(e).__name__}: {e}")
    if got != want:
        extra = [r for r in got if r not in want]
        missing = [r for r in want if r not in got]
        return dict(base, expected=f"listing == reference walk ({len(want)} records)",
                    observed=f"{len(got)} records; missing={missing[:3]} unexpected={extra[:3]} order_differs={sorted(map(str, got)) == sorted(map(str, want))}")
    open_ = [r for r in g.responses if r.closed == 0]
    if open_:
        return dict(base, expected="every response closed", observed=f"{len(open_)} of {len(g.responses)} responses not closed after a healthy run")
    n_req = g.n
    if not faults:
        return None
    for k in range(n_req):
        for fk in FAULT_KINDS:
            if fault_filter and not fault_filter(k, fk):
                continue
            g = FakeGraph(root, page_size, random.Random(seed), drive_id, omit_empty_value=seed % 3 == 0)
            g.fault = (k, fk)
            c = make_client(g)
            rec = dict(base, fault={"request_index": k, "kind": fk})
            try:
                res = call(c)
                exc = None
            except Exception as e:  # noqa
                exc = e
            fault_url = g.requests[k] if k < len(g.requests) else None
            rec["fault"]["url"] = fault_url
            tolerated = kind != "all" and fk == "http404" and fault_url and "/root:/" in fault_url   # 404 on a folder lookup = folder absent
            if exc is None:
                if not tolerated:
                    return dict(rec, expected="an error of the client's family", observed=f"call returned {len(res)} records")
            elif fk == "readerror":
                pass
            else:
                if not isinstance(exc, SharePointError):
                    return dict(rec, expected="an error of the client's own family (SharePointError)",
                                observed=f"{type(exc).__name__}: {exc}")
                if fk.startswith("http") or fk == "urlerror" or fk.startswith("status"):
                    code = int(fk[4:]) if fk.startswith("http") else (None if fk in ("urlerror", "statusNone") else int(fk[6:]))
                    if not isinstance(exc, SharePointRequestError) or exc.status_code != code or exc.url != fault_url:
                        return dict(rec, expected=f"SharePointRequestError(status_code={code}, url={fault_url})",
                                    observed=f"{type(exc).__name__}(status_code={getattr(exc, 'status_code', '?')}, url={getattr(exc, 'url', '?')})")
                elif k == 0 and not isinstance(exc, SharePointAuthError):
                    return dict(rec, expected="SharePointAuthError for a malformed token response", observed=type(exc).__name__)
                elif k > 0 and (not isinstance(exc, SharePointRequestError) or exc.url != fault_url):
                    return dict(rec, expected=f"SharePointRequestError(url={fault_url}) for malformed JSON", observed=f"{type(exc).__name__}")
            open_ = [r for r in g.responses if r.closed == 0]
            if open_:
                return dict(rec, expected="every response opened so far closed", observed=f"{len(open_)} of {len(g.responses)} responses not closed")
            if exc is not None:
                if (c._access_token is not None) != (k > 0) and k <= 1:
                    return dict(rec, expected="token cached iff the token request succeeded", observed=f"_access_token={c._access_token!r}")
                if (c._site_id is not None) != (k > 1) and k <= 2:
                    return dict(rec, expected="site id cached iff the site request succeeded", observed=f"_site_id={c._site_id!r}")
            # retry on the healed transport, same client
            g.fault = None
            try:
                got = [rec_of(m) for m in call(c)]
            except Exception as e:  # noqa
                return dict(rec, expected="retry returns the complete listing", observed=f"retry raised {type(e).__name__}: {e}")
            if got != want:
                return dict(rec, expected=f"retry returns the complete listing ({len(want)} records)", observed=f"{len(got)} records: {got[:4]}")
            open_ = [r for r in g.responses if r.closed == 0]
            if open_:
                return dict(rec, expected="every response closed after the retry", observed=f"{len(open_)} not closed")
    return None


# ---- filter boundary experiments (function level + through the listing) ------
BASE = datetime(2024, 1, 15, 10, 30, 0, tzinfo=UTC)


def boundary_cases():
    """(file stamp, bound) pairs around the bound: fractions of 1-7 digits, bounds on the microsecond grid."""
    stamps = ["2024-01-15T10:30:00Z", "2024-01-15T10:30:00.5Z", "2024-01-15T10:30:00.25Z", "2024-01-15T10:30:00.250000Z",
              "2024-01-15T10:30:00.249999Z", "2024-01-15T10:30:00.250001Z", "2024-01-15T10:30:00.2500001Z", "2024-01-15T10:30:00.999999Z",
              "2024-01-15T11:30:00.5+01:00", "2024-01-15T05:30:00.75-05:00", "2024-01-15T10:29:59.999999Z", "2024-01-15T10:30:01Z"]
    bounds = [BASE, BASE + timedelta(microseconds=250000), BASE + timedelta(microseconds=250001), BASE + timedelta(microseconds=249999),
              BASE + timedelta(microseconds=500000), BASE + timedelta(microseconds=750000), BASE + timedelta(seconds=1),
              BASE + timedelta(microseconds=999999), BASE - timedelta(microseconds=1)]
    for s in stamps:
        for b in bounds:
            yield s, b


def check_matches_once(stamp, bound, which):
    from sharepoint2text.sharepoint_io.client import FileFilter, SharePointFileMetadata
    fd = {which: bound}
    field = "created" if which.startswith("created") else "last_modified"
    meta = SharePointFileMetadata(name="a.txt", id="1", web_url="u", **{field: stamp})
    want = spec_matches(fd, ("a.txt", None, stamp if field == "created" else None, stamp if field == "last_modified" else None))
    try:
        got = FileFilter(**fd).matches(meta)
    except Exception as e:  # noqa
        got = f"{type(e).__name__}: {e}"
    if got != want:
        return {"target": "sharepoint2text/sharepoint_io/client.py::FileFilter.matches",
                "inputs": {"filter": fd_json(fd), "file": {"name": "a.txt", field: stamp}},
                "expected": f"matches == {want} (instant {stamp} vs {which} {bound.isoformat()}: "
                            f"{'inclusive-after' if which.endswith('after') else 'exclusive-before'})",
                "observed": f"matches == {got}"}
    return None


def check_filter_boundaries(extra=()):
    for (s, b) in list(extra) + list(boundary_cases()):
        for which in ("created_after", "created_before", "modified_after", "modified_before"):
            r = check_matches_once(s, b, which)
            if r is not None:
                return r
    return None


EXT_NAMES = ["a.PDF", "a.pdf", "b.Docx", "pdf", "x.pdf.bak", "Ü.PdF", "backup.tar.gz", "BACKUP.TAR.GZ", "plain.gz", "types.d.ts",
             "main.ts", "noext", ".hidden", "a.b.c", "v1.2.docx", "trailing.", "a.pdf ", "dir.d/x"]
EXT_SETS = [[".pdf"], [".PDF", ".docx"], [".tar.gz"], [".Tar.Gz", ".docx"], [".gz"], [".d.ts"], [".ts"], [".pdf.bak"], [".bak"],
            ["pdf"], ["gz", ".c"], [""], ["."], ["x.pdf.bak"], [".hidden"], [".b.c"], [".2.docx"], []]
PARENTS = [None, "", "Docs", "Docs/sub", "My Folder", "a.pdf", "*"]
PATTERN_SETS = [["*.pdf"], ["Docs/*"], ["*/sub/*", "a.*"], ["Docs*"], ["a.pdf"], ["[ab].*"], ["?.pdf"], ["*"], []]


def check_one_filter(fd, n, pp):
    from sharepoint2text.sharepoint_io.client import FileFilter, SharePointFileMetadata
    meta = SharePointFileMetadata(name=n, id="1", web_url="u", parent_path=pp)
    want = spec_matches(fd, (n, pp, None, None))
    try:
        got = FileFilter(**fd).matches(meta)
    except Exception as e:  # noqa
        got = f"{type(e).__name__}: {e}"
    if got != want:
        return {"target": "sharepoint2text/sharepoint_io/client.py::FileFilter.matches",
                "inputs": {"filter": fd, "file": {"name": n, "parent_path": pp}},
                "expected": f"matches == {want} (case-insensitive suffix / fnmatch on the full path)", "observed": f"matches == {got}"}
    return None


def check_misc_filter(extra=()):
    """Extension / pattern / full-path clauses and get_full_path on a directed lattice: single and multi-part
    extensions, extensions without a dot, empty ones, names with several dots / none / a leading dot."""
    from sharepoint2text.sharepoint_io.client import SharePointFileMetadata
    for (fd, n, pp) in extra:
        r = check_one_filter(fd, n, pp)
        if r is not None:
            return r
    for n in EXT_NAMES:
        for pp in PARENTS:
            meta = SharePointFileMetadata(name=n, id="1", web_url="u", parent_path=pp)
            want_fp = f"{pp}/{n}" if pp else n
            if meta.get_full_path() != want_fp:
                return {"target": "client.py::SharePointFileMetadata.get_full_path", "inputs": {"name": n, "parent_path": pp},
                        "expected": want_fp, "observed": meta.get_full_path()}
            for exts in EXT_SETS:
                r = check_one_filter({"extensions": exts}, n, pp)
                if r is not None:
                    return r
    for n in EXT_NAMES:
        for pp in PARENTS:
            for pats in PATTERN_SETS:
                for exts in ([], [".pdf"], [".tar.gz", "pdf"]):
                    r = check_one_filter({"extensions": exts, "path_patterns": pats}, n, pp)
                    if r is not None:
                        return r
    return None


def witness_filters(w):
    """Candidate (filter, name, parent) triples from a solver witness of the FileFilter.matches obligation: the model's
    name / extensions / patterns, plus variants (the uninterpreted `lower` / `fnmatch` of the model need not be real)."""
    out = []
    if not isinstance(w, dict):
        return out
    fm = w.get("file_meta") if isinstance(w.get("file_meta"), dict) else {}
    names = [x for x in [fm.get("name")] if isinstance(x, str)]
    def lst(key):
        d = w.get(key)
        if isinstance(d, dict) and isinstance(d.get("len"), int) and isinstance(d.get("first"), list):
            return [x for x in d["first"][:max(0, min(d["len"], 3))] if isinstance(x, str)]
        return []
    exts, pats = lst("extensions"), lst("path_patterns")
    for n in names + [x + y for x in names for y in exts][:4]:
        for pp in (None, "Docs"):
            out.append(({"extensions": exts, "path_patterns": pats}, n, pp))
    return out


# ---- which folders a filter searches -----------------------------------------------------------------------
TARGET_VOCAB = ["Reports", "Reports 2024", "Docs", "Docs/Q1", "Docs/Q10", "Docs/Q1 & Q2", "/Docs/", "Docs/", "a", "ab", "a/b", "a b",
                "Archive", "Reports/Drafts", "reports", "Doc"]


def covers_py(t, p):
    a, b = p.strip("/"), t.strip("/")
    return a == b or b == "" or a.startswith(b + "/")


def check_targets_once(paths):
    from sharepoint2text.sharepoint_io.client import FileFilter
    try:
        got = list(FileFilter(folder_paths=list(paths)).get_target_folders())
    except Exception as e:  # noqa
        return _tf(paths, "a list of target folders", f"{type(e).__name__}: {e}")
    extra = [t for t in got if t not in paths]
    if extra:
        return _tf(paths, "every target is a requested folder path", f"targets {got}: {extra} not requested")
    lost = [p for p in paths if not any(covers_py(t, p) for t in got)]
    if lost:
        return _tf(paths, "every requested folder is searched (it is a target or lies below one, component-wise)",
                   f"targets {got}: requested {lost} not covered")
    dis = lambda xs: all(not covers_py(xs[i], xs[k]) for i in range(len(xs)) for k in range(len(xs)) if i != k)  # noqa
    if dis(list(paths)) and not dis(got):
        return _tf(paths, "non-overlapping requests give non-overlapping targets", f"targets {got}")
    return None


def _tf(paths, expected, observed):
    return {"target": "sharepoint2text/sharepoint_io/client.py::FileFilter.get_target_folders",
            "inputs": {"folder_paths": list(paths)}, "expected": expected, "observed": observed}


def check_target_folders(extra=()):
    import itertools
    for paths in list(extra) + [[]] + [[v] for v in TARGET_VOCAB]:
        r = check_targets_once(paths)
        if r is not None:
            return r
    for n in (2, 3):
        for paths in itertools.permutations(TARGET_VOCAB[:12] if n == 3 else TARGET_VOCAB, n):
            r = check_targets_once(list(paths))
            if r is not None:
                return r
    return None


def crafted_tree():
    """Siblings whose names are textual prefixes of each other, at two levels."""
    ids = iter(f"C{i:02d}" for i in range(100))

    def folder(name, files, subs=()):
        f = Node("folder", name, next(ids), createdDateTime="2023-06-01T00:00:00Z", lastModifiedDateTime="2023-06-01T08:00:00.5Z")
        for fn in files:
            early, late = "2024-01-15T10:29:59.5Z", "2024-01-15T10:30:00.5Z"
            flip = len(fn) % 2 == 0          # some files created before / modified after the bound, some the other way round
            f.children.append(Node("file", fn, next(ids), createdDateTime=late if flip else early, lastModifiedDateTime=early if flip else late))
        f.children.extend(subs)
        return f
    def hidden(n):
        return [Node("hidden", "~hidden", next(ids)) for _ in range(n)]
    root = Node("folder", "", "ROOT")
    root.children = [Node("file", "top.txt", "T0"), *hidden(3),
                     folder("Reports", ["r1.pdf", "r2.txt"], [folder("Drafts", ["draft.pdf"])]),
                     *hidden(1), folder("Reports 2024", ["q1.pdf", "q2.pdf"], [*hidden(3), folder("Final", ["final.pdf"])]), *hidden(2),
                     folder("Docs", [], [folder("Q1", ["a.pdf"]), folder("Q10", ["b.pdf", "c.txt"]), folder("Q1 & Q2", ["d.pdf"])]),
                     folder("Archive", ["old.pdf"]),
                     # names with a literal percent escape next to the folder the escape decodes to
                     folder("Q1%20Reports", ["enc.pdf"], [folder("Deep%2Fer", ["deep.pdf"])]), folder("Q1 Reports", ["plain.pdf"]),
                     folder("Growth 50%25", ["g25.pdf"]), folder("Growth 50%", ["g.pdf"])]
    return root


CRAFTED_TARGETS = [["Reports", "Reports 2024"], ["Reports 2024", "Reports"], ["Docs/Q1", "Docs/Q10", "Docs/Q1 & Q2"], ["Docs/Q10", "Archive", "Docs/Q1"],
                   ["Archive"], ["Reports/Drafts", "Reports 2024/Final", "nope"], ["Docs", "Reports"],
                   ["Q1%20Reports"], ["Growth 50%25", "Q1 Reports"], ["Growth 50%", "Q1%20Reports/Deep%2Fer"], ["Q1%2520Reports"]]


def check_crafted(targets=None, extra_filter=None):
    """End to end on the crafted library: list_files_filtered / list_files_modified_since / list_files_created_since
    over disjoint requested folders return every file of every requested folder exactly once."""
    root = crafted_tree()
    for tg in ([targets] if targets else CRAFTED_TARGETS):
        for page, exts in ((1, None), (3, [".PDF"])):
            for api in ("filtered", "modified_since", "created_since"):
                fd = {"folder_paths": tg}
                if exts:
                    fd["extensions"] = exts
                if api == "modified_since":
                    fd["modified_after"] = BASE
                if api == "created_since":
                    fd["created_after"] = BASE
                want = sorted(reference(root, "filtered", fd))
                g = FakeGraph(root, page)
                c = make_client(g)
                try:
                    if api == "filtered":
                        got = [rec_of(m) for m in c.list_files_filtered(mk_filter(fd))]
                    elif api == "modified_since":
                        got = [rec_of(m) for m in c.list_files_modified_since(BASE, folder_paths=tg, extensions=exts)]
                    else:
                        got = [rec_of(m) for m in c.list_files_created_since(BASE, folder_paths=tg, extensions=exts)]
                except Exception as e:  # noqa
                    got = f"{type(e).__name__}: {e}"
                if not isinstance(got, list) or sorted(got) != want:
                    missing = [r for r in want if not isinstance(got, list) or r not in got]
                    return {"target": "sharepoint2text/sharepoint_io/client.py::SharePointRestClient.list_files_" +
                                      {"filtered": "filtered", "modified_since": "modified_since", "created_since": "created_since"}[api],
                            "inputs": {"library": "crafted_tree()", "folder_paths": tg, "page_size": page, "api": api, "since": BASE.isoformat(),
                                       "extensions": exts},
                            "expected": f"every file of every requested folder exactly once ({len(want)} records)",
                            "observed": f"{got if not isinstance(got, list) else len(got)} records; missing={missing[:4]}"}
    return None


CRAFTED_PATTERNS = [["Reports/*"], ["Docs/*.pdf"], ["*/Q1/*", "Archive/*"], ["Reports*/*.pdf"], ["*Final/final.pdf"], ["D*/Q1?/[bc].*"],
                    ["Reports/r*", "*.txt"], ["*/*/*"], ["**/d*.pdf"], ["Reports 2024/**"], ["?eports/Drafts/*", "nope/*"], ["*draft*"],
                    ["Drafts/*"], ["/Reports/*"], ["reports/*"]]


def check_crafted_patterns(patterns=None):
    """path_patterns apply to the FULL path with fnmatch semantics (a `*` spans `/`): whole-drive and per-folder filtered
    listings over the crafted library (files at, above and below the depth of the pattern's directory part) == reference."""
    root = crafted_tree()
    for pats in ([patterns] if patterns else CRAFTED_PATTERNS):
        for page, extra in ((2, {}), (5, {"extensions": [".pdf"]}), (1, {"folder_paths": ["Reports", "Docs", "Reports 2024"]})):
            fd = dict(extra, path_patterns=pats)
            want = sorted(reference(root, "filtered", fd))
            c = make_client(FakeGraph(root, page))
            try:
                got = [rec_of(m) for m in c.list_files_filtered(mk_filter(fd))]
            except Exception as e:  # noqa
                got = f"{type(e).__name__}: {e}"
            if not isinstance(got, list) or sorted(got) != want:
                missing = [r for r in want if not isinstance(got, list) or r not in got]
                extra_ = [r for r in got if r not in want] if isinstance(got, list) else []
                return {"target": "sharepoint2text/sharepoint_io/client.py::SharePointRestClient.list_files_filtered",
                        "inputs": {"library": "crafted_tree()", "filter": fd, "page_size": page},
                        "expected": f"every file whose full path matches a pattern, exactly once ({len(want)} records)",
                        "observed": f"{got if not isinstance(got, list) else len(got)} records; missing={missing[:4]} unexpected={extra_[:4]}"}
    return None


def check_error_fields(extra_urls=()):
    """The request error reports the status and the URL it was constructed with (whatever the URL looks like)."""
    from sharepoint2text.sharepoint_io.exceptions import SharePointRequestError
    base = GRAPH + "/sites/SITE/drive/items/F1/children"
    urls = [base, base + "?$expand=listItem($expand=fields)", "https://login.microsoftonline.com/tenant/oauth2/v2.0/token", "",
            "not a url", "https://h/p?a=1#frag", "HTTPS://Host:443/A%20b/../c?x=%2F&Token=abc", "http://[::1", "//h/p?sig=1", "?token",
            GRAPH + "/sites/SITE/drive/root:/Q1%20Reports/a%26b"] + [GRAPH + "/next/F1/2" + q for q in FakeGraph.NEXT_QUERIES]
    for url in list(extra_urls) + urls:
        for status in (None, 0, 200, 302, 404, 503):
            for body in (None, "", '{"error": {"code": "itemNotFound"}}'):
                rec = {"target": "sharepoint2text/sharepoint_io/exceptions.py::SharePointRequestError.__init__",
                       "inputs": {"message": "API request failed", "status_code": status, "body": body, "url": url},
                       "expected": f"status_code={status!r}, url={url!r}"}
                try:
                    e = SharePointRequestError("API request failed", status_code=status, body=body, url=url)
                except Exception as ex:  # noqa
                    return dict(rec, observed=f"constructor raised {type(ex).__name__}: {ex}")
                got = (getattr(e, "status_code", "<missing>"), getattr(e, "url", "<missing>"))
                if got != (status, url) or type(got[1]) is not str:
                    return dict(rec, observed=f"status_code={got[0]!r}, url={got[1]!r}")
    return None


def check_known_overlap(witness):
    """Known finding C18-overlapping-targets: a requested folder together with one of its descendants is walked twice."""
    tg = (witness or {}).get("folder_paths") or ["Docs", "Docs/Q1"]
    root = crafted_tree()
    c = make_client(FakeGraph(root, 2))
    got = [rec_of(m) for m in c.list_files_filtered(mk_filter({"folder_paths": tg}))]
    dup = sorted({r for r in got if got.count(r) > 1})
    if dup:
        return {"reproduced": True, "target": "client.py::SharePointRestClient.list_files_filtered", "inputs": {"library": "crafted_tree()", "folder_paths": tg},
                "expected": "every matching file exactly once", "observed": f"{len(got)} records, listed twice: {dup[:3]}"}
    return {"reproduced": False, "note": f"no file listed twice for folder_paths={tg}"}


def check_parse_assumptions():
    """Validates the ISO-SEM assumptions of the contract natively: the first six fraction digits, right-padded with
    zeros, are the floor of the fraction in microseconds; fromisoformat is exact on six-digit fractions."""
    rnd = random.Random(1)
    for _ in range(300):
        n = rnd.randint(1, 9)
        frac = "".join(rnd.choice("0123456789") for _ in range(n))
        f6 = frac[:6].ljust(6, "0")
        if int(f6) != (Fraction(int(frac), 10 ** n) * 1000000).__floor__():
            return {"target": "assumption ISO-SEM", "inputs": {"frac": frac}, "expected": "floor", "observed": f6}
        tz = rnd.choice(["+00:00", "-05:00", "+02:30", ""])
        a = datetime.fromisoformat(f"2024-01-15T10:30:00.{f6}{tz}")
        b = datetime.fromisoformat(f"2024-01-15T10:30:00{tz}") + timedelta(microseconds=int(f6))
        if a != b:
            return {"target": "assumption ISO-SEM", "inputs": {"f6": f6, "tz": tz}, "expected": str(b), "observed": str(a)}
    return None


def listing_filters():
    b = BASE
    return [
        {},
        {"extensions": [".pdf"]},
        {"extensions": [".PDF", ".docx"], "path_patterns": ["*"]},
        {"path_patterns": ["Docs/*", "*/sub/*"]},
        {"created_after": b + timedelta(microseconds=250000)},
        {"created_before": b + timedelta(microseconds=500000)},
        {"modified_after": b, "modified_before": b + timedelta(seconds=1)},
        {"folder_paths": ["Docs", "My Folder", "missing/none"], "extensions": [".pdf", ".txt"]},
        {"folder_paths": ["ä ö", "r#d", "100% real", "a+b", "Docs/sub"]},
        {"folder_paths": ["/Docs/"], "modified_after": b + timedelta(microseconds=999999)},
        {"folder_paths": ["Q1%20Reports", "Growth 50%25", "Q1 Reports", "Growth 50%"]},
        {"modified_after": b - timedelta(seconds=1)},
        {"modified_after": b + timedelta(microseconds=250000), "extensions": [".pdf", ".txt", ".docx"]},
    ]


def suite(seeds=range(6), fault_seeds=range(3), quick=False):
    r = check_parse_assumptions() or check_misc_filter() or check_filter_boundaries() or check_target_folders() or check_crafted() or check_crafted_patterns() \
        or check_error_fields()
    if r is not None:
        return r
    for seed in seeds:
        for fd in listing_filters():
            r = check_listing(seed, "filtered" if fd or seed % 2 else "all", fd, faults=False,
                              drive_id="DRV1" if (seed % 2 and fd) else None)
            if r is not None:
                return _lift(r)
    for seed in fault_seeds:
        r = check_listing(seed, "all", {}, faults=True)
        if r is not None:
            return _lift(r)
        fd = listing_filters()[7 + seed % 3]
        r = check_listing(seed + 100, "filtered", fd, faults=True, drive_id=None if seed % 2 else "DRV1",
                          fault_filter=(lambda k, fk: (k + len(fk)) % 3 == 0) if quick else None)
        if r is not None:
            return _lift(r)
    return None


def _lift(r):
    return {"target": "sharepoint2text/sharepoint_io/client.py::SharePointRestClient." +
                      ("list_all_files" if r.get("listing") == "all" else "list_files_filtered"),
            "inputs": {k: r[k] for k in ("seed", "listing", "filter", "page_size", "drive_id", "fault") if k in r},
            "expected": r["expected"], "observed": r["observed"]}


def witness_stamps(w):
    """Candidate (stamp, bound) pairs from a solver witness of the _parse_iso_datetime obligation."""
    out = []
    for k, v in (w or {}).items():
        if isinstance(v, dict) and {"base", "frac", "tz"} <= set(v) and all(isinstance(v[x], str) for x in ("base", "frac", "tz")):
            frac = re.sub(r"\D", "", v["frac"])[:7] or "5"
            tz = v["tz"] if re.match(r"^(Z|[+-]\d\d:\d\d)$", v["tz"]) else "Z"
            stamp = f"2024-01-15T10:30:00.{frac}{tz}"
            t = instant_us(stamp)
            if t is not None and t.denominator == 1 or t is not None:
                us = int(t)   # floor
                out.append((stamp, EPOCH + timedelta(microseconds=us)))
                out.append((stamp, EPOCH + timedelta(microseconds=us + 1)))
    return out


def find(req):
    ob = req.get("obligation") or ""
    if req.get("known_finding") == "C18-overlapping-targets":
        return check_known_overlap(req.get("witness"))
    if req.get("suite"):
        r = suite(quick=True) if req["suite"] == "quick" else suite(seeds=range(12), fault_seeds=range(5))
        if r is None:
            return {"reproduced": False, "note": "native suite agrees with the reference (libraries of depth <= 3, <= 6 items per folder, page sizes 1..4, "
                                                 "12 fault kinds at every request index, crafted prefix / percent-escape siblings)"}
        r["reproduced"] = True
        return r
    if "SharePointRequestError" in ob:
        w = req.get("witness") or {}
        r = check_error_fields([v for v in w.values() if isinstance(v, str)] if isinstance(w, dict) else ()) or suite(quick=True)
        if r is None:
            return {"reproduced": False, "note": "request errors built from 15 URL shapes x 6 statuses x 3 bodies report what they were given"}
        r["reproduced"] = True
        return r
    if "get_target_folders" in ob or "_since" in ob:
        r = (check_target_folders() if "get_target_folders" in ob else None) or check_crafted()
        if r is None:
            return {"reproduced": False, "note": "target-folder lattice (permutations of 16 paths, length <= 3) and crafted library agree with the reference"}
        r["reproduced"] = True
        return r
    if "_parse_iso_datetime" in ob or "FileFilter.matches" in ob or "get_full_path" in ob:
        r = check_misc_filter(extra=witness_filters(req.get("witness"))) if "matches" in ob else None
        if r is None:
            r = check_filter_boundaries(extra=witness_stamps(req.get("witness")))
        if r is None:
            r = check_misc_filter()
    elif "fetch_access_token" in ob:
        r = None
        for fk in ("badutf8", "badjson"):
            rr = check_listing(0, "all", {}, faults=True, fault_filter=lambda k, f, fk=fk: k == 0 and f == fk)
            if rr is not None:
                r = _lift(rr)
                break
    else:
        r = suite(quick=True)
    if r is None:
        r2 = suite(quick=True) if ("_parse_iso_datetime" in ob or "fetch_access_token" in ob or "matches" in ob) else None
        if r2 is None:
            return {"reproduced": False, "note": "native suite (boundary instants, random libraries, fault injection at every request index) agrees with the reference"}
        r = r2
    r["reproduced"] = True
    return r


def rerun(stored):
    inp = stored.get("inputs") or {}
    if "file" in inp and "filter" in inp:
        fd = fd_from_json(inp["filter"])
        which = [k for k in fd if k.endswith(("_after", "_before"))]
        if which:
            field = "created" if which[0].startswith("created") else "last_modified"
            r = check_matches_once(inp["file"][field], fd[which[0]], which[0])
        else:
            r = check_one_filter(fd, inp["file"].get("name", ""), inp["file"].get("parent_path"))
        return dict(r or {}, reproduced=r is not None)
    if "status_code" in inp and "url" in inp:
        r = check_error_fields([inp["url"]])
        return dict(r or {}, reproduced=r is not None)
    if "folder_paths" in inp and "library" not in inp:
        r = check_targets_once(inp["folder_paths"])
        return dict(r or {}, reproduced=r is not None)
    if inp.get("library") == "crafted_tree()" and "filter" in inp:
        r = check_crafted_patterns(inp["filter"].get("path_patterns"))
        return dict(r or {}, reproduced=r is not None)
    if inp.get("library") == "crafted_tree()":
        r = check_crafted(inp["folder_paths"])
        return dict(r or {}, reproduced=r is not None)
    if "seed" in inp:
        f = inp.get("fault")
        r = check_listing(inp["seed"], inp["listing"], fd_from_json(inp.get("filter") or {}), inp.get("page_size"), inp.get("drive_id"),
                          faults=f is not None,
                          fault_filter=(lambda k, fk: k == f["request_index"] and fk == f["kind"]) if f else None)
        return dict(_lift(r) if r else {}, reproduced=r is not None)
    r = suite(quick=True)
    return dict(r or {}, reproduced=r is not None)


if __name__ == "__main__":
    import sys
    sys.path.insert(0, __import__("os").environ.get("VERIF_REPO", "/repo"))
    full = suite(seeds=range(12), fault_seeds=range(5))
    print(json.dumps(full or {"ok": True}, default=str, indent=1))
