"""Native replay for C01: hostile bytes through every registered extractor, read_file,
the archive-member wrapper and the CLI; only the ExtractionError family may escape."""
import contextlib
import glob
import io
import os
import random
import signal


class _Timeout(Exception):
    pass


def _alarm(signum, frame):
    raise _Timeout()


def inputs(seed, repo):
    rnd = random.Random(seed)
    yield "empty", b""
    yield "garbage", b"garbage \x00\xff" * 40
    files = sorted(glob.glob(os.path.join(repo, "sharepoint2text/tests/resources/*/*")))
    files = [f for f in files if os.path.isfile(f) and os.path.getsize(f) < 400_000]
    rnd.shuffle(files)
    for f in files[:14]:
        data = open(f, "rb").read()
        name = os.path.basename(f)
        yield f"whole:{name}", data
        yield f"truncated:{name}", data[: max(1, len(data) // 3)]
        b = bytearray(data)
        for _ in range(8):
            b[rnd.randrange(len(b))] ^= 1 << rnd.randrange(8)
        yield f"bitflips:{name}", bytes(b)


def find(req):
    repo = os.environ.get("VERIF_REPO", "/repo")
    from sharepoint2text.parsing import router
    from sharepoint2text.parsing.exceptions import ExtractionError
    import importlib
    seed = int(os.environ.get("VERIF_SEED", "0") or 0)
    target_fn = (req.get("function") or "")
    signal.signal(signal.SIGALRM, _alarm)
    tried = 0
    extractors = []
    for k, (modpath, fn) in router._EXTRACTOR_REGISTRY.items():
        f = getattr(importlib.import_module(modpath), fn)
        if f not in [e[1] for e in extractors]:
            extractors.append((k, f))
    if "::main" not in target_fn:
        for label, data in inputs(seed, repo):
            for k, f in extractors:
                if target_fn and "::read_" in target_fn and f.__name__ not in target_fn:
                    continue
                tried += 1
                signal.alarm(20)
                try:
                    for _ in f(io.BytesIO(data), f"x.{k}"):
                        pass
                except ExtractionError:
                    pass
                except _Timeout:
                    signal.alarm(0)
                    return {"reproduced": True, "target": f.__name__, "inputs": {"case": label, "as": k}, "expected": "terminates",
                            "observed": "no result within 20 s"}
                except Exception as e:  # noqa
                    signal.alarm(0)
                    return {"reproduced": True, "target": f"{f.__module__}.{f.__name__}", "inputs": {"case": label, "as": k, "bytes_hex_prefix": data[:64].hex()},
                            "expected": "ExtractionError family", "observed": f"{type(e).__name__}: {str(e)[:120]}"}
                finally:
                    signal.alarm(0)
    # CLI: exit 0 with output, or exit 1 with clean stdout and one stderr line
    import tempfile
    from sharepoint2text import cli
    with tempfile.TemporaryDirectory() as d:
        cases = []
        p = os.path.join(d, "bad.docx")
        open(p, "wb").write(b"not a zip")
        cases.append([p, "--json"])
        cases.append([p])
        try:
            import datetime
            import openpyxl
            wb = openpyxl.Workbook()
            wb.active.append([1, datetime.timedelta(hours=1)])
            q = os.path.join(d, "dur.xlsx")
            wb.save(q)
            cases += [[q, "--json"], [q, "--json-unit"], [q]]
        except Exception:  # noqa
            pass
        t = os.path.join(d, "ok.txt")
        open(t, "w").write("hello")
        cases += [[t], [t, "--json"], [os.path.join(d, "missing.pdf")]]
        for argv in cases:
            tried += 1
            out, err = io.StringIO(), io.StringIO()
            with contextlib.redirect_stdout(out), contextlib.redirect_stderr(err):
                try:
                    rc = cli.main(argv)
                except BaseException as e:  # noqa
                    rc = f"raised {type(e).__name__}"
            o, e = out.getvalue(), err.getvalue()
            ok = (rc == 0 and o and not e) or (rc == 1 and o == "" and e.count("\n") == 1)
            if not ok:
                return {"reproduced": True, "target": "sharepoint2text/cli.py::main", "inputs": {"argv": [os.path.basename(a) for a in argv]},
                        "expected": "exit 0 with output, or exit 1 with empty stdout and one stderr line",
                        "observed": f"exit={rc} stdout_bytes={len(o)} stderr_lines={e.count(chr(10))}"}
    # in a fresh process (logging unconfigured): a failing input gives exactly one stderr line
    import subprocess
    import sys
    with tempfile.TemporaryDirectory() as d:
        g = os.path.join(d, "g.pdf")
        open(g, "wb").write(b"garbage not a pdf")
        p = subprocess.run([sys.executable, "-m", "sharepoint2text.cli", g], capture_output=True, text=True, cwd=repo, timeout=120)
        tried += 1
        if not (p.returncode == 1 and p.stdout == "" and p.stderr.count("\n") == 1):
            return {"reproduced": True, "target": "sharepoint2text/cli.py::main", "inputs": {"argv": ["g.pdf"], "content": "garbage not a pdf"},
                    "expected": "exit 1, empty stdout, one stderr line", "observed": f"exit={p.returncode} stdout_bytes={len(p.stdout)} stderr_lines={p.stderr.count(chr(10))}"}
    return {"reproduced": False, "note": f"{tried} native cases within the ExtractionError family / CLI contract"}


def rerun(stored):
    return find({"function": stored.get("target", "")})
