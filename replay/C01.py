"""Native replay for C01: hostile bytes through every registered extractor, read_file,
the archive-member wrapper and the CLI; only the ExtractionError family may escape."""
import contextlib
import glob
import io
import os
import random
import signal


class _Timeout(Exception):
    pass


def _alarm(signum, frame):
    raise _Timeout()


def _container_mutations():
    """valid container shell, damaged compressed payload"""
    import lzma
    import tarfile
    import zipfile
    buf = io.BytesIO()
    with zipfile.ZipFile(buf, "w", zipfile.ZIP_DEFLATED) as z:
        z.writestr("a.txt", ("line of text %d\n" * 400) % tuple(range(400)))
    b = bytearray(buf.getvalue())
    for k in range(60, 160, 7):           # inside the deflate stream of the first member
        b[k] ^= 0x5A
    yield "zip:damaged-deflate-stream", bytes(b), "zip"
    raw = io.BytesIO()
    with tarfile.open(fileobj=raw, mode="w") as t:
        data = b"hello tar member\n" * 200
        ti = tarfile.TarInfo("a.txt")
        ti.size = len(data)
        t.addfile(ti, io.BytesIO(data))
    x = bytearray(lzma.compress(raw.getvalue()))
    for k in range(40, min(len(x) - 12, 140), 5):
        x[k] ^= 0xA5
    yield "tar.xz:damaged-lzma-stream", bytes(x), "tar.xz"
    import gzip
    g = bytearray(gzip.compress(raw.getvalue()))
    for k in range(30, min(len(g) - 8, 100), 3):
        g[k] ^= 0x3C
    yield "tar.gz:damaged-deflate-stream", bytes(g), "tar.gz"


def inputs(seed, repo):
    rnd = random.Random(seed)
    yield "empty", b""
    yield "garbage", b"garbage \x00\xff" * 40
    for label, data, _k in _container_mutations():
        yield label, data
    files = sorted(glob.glob(os.path.join(repo, "sharepoint2text/tests/resources/*/*")))
    files = [f for f in files if os.path.isfile(f) and os.path.getsize(f) < 400_000]
    rnd.shuffle(files)
    for f in files[:14]:
        data = open(f, "rb").read()
        name = os.path.basename(f)
        yield f"whole:{name}", data
        yield f"truncated:{name}", data[: max(1, len(data) // 3)]
        b = bytearray(data)
        for _ in range(8):
            b[rnd.randrange(len(b))] ^= 1 << rnd.randrange(8)
        yield f"bitflips:{name}", bytes(b)


POOLS = {
    "list[str]": [[], ["1"], ["1", "2"], ["1.5", "2.5", "3.5"], ["x", "1", "2", "3"], ["-", "12", "(3)"], ["a", "b", "c", "d"], ["1", "2", "3", "4", "5"]],
    "int": [0, 1, 2, 3, 7],
    "str": ["", "a", "1 2 3", "Revenue 1.5 2.5 3.5", "x  12  13", "\\u1234?", "{\\rtf1 a}"],
    "bytes": [b"", b"\x00" * 64, b"\x89PNG\r\n\x1a\n" * 3, b"BM" + b"\x28\x00\x00\x00" * 20, bytes(range(256))],
    "bool": [False, True],
}


def hang_search(obligation, repo):
    """Small-scope native calls of the function a `decreases#` obligation belongs to, built from its annotations, each under a 3 s alarm."""
    import importlib
    import inspect
    import itertools
    try:
        fileq = obligation.split("/", 1)[1].split("/decreases")[0]
        fname, q = fileq.split("::")
    except Exception:  # noqa
        return None
    hits = glob.glob(os.path.join(repo, "sharepoint2text", "**", fname), recursive=True)
    if not hits:
        return None
    modname = os.path.relpath(hits[0], repo)[:-3].replace(os.sep, ".")
    try:
        obj = importlib.import_module(modname)
        for part in q.split("."):
            obj = getattr(obj, part)
        sig = inspect.signature(obj)
    except Exception:  # noqa
        return None
    pools = []
    for name, prm in sig.parameters.items():
        if name in ("self", "cls"):
            return None
        a_ = prm.annotation
        ann = a_ if isinstance(a_, str) else (a_.__name__ if isinstance(a_, type) and not getattr(a_, "__args__", None) else str(a_))
        ann = str(ann).replace("typing.", "").replace("List", "list")
        if ann not in POOLS:
            return None
        pools.append(POOLS[ann])
    signal.signal(signal.SIGALRM, _alarm)
    tried = 0
    for args in itertools.islice(itertools.product(*pools), 400):
        tried += 1
        signal.alarm(3)
        try:
            r = obj(*[a.copy() if isinstance(a, list) else a for a in args])
            if inspect.isgenerator(r):
                for _ in r:
                    pass
        except _Timeout:
            return {"reproduced": True, "target": f"{modname}.{q}", "inputs": {"args": [repr(a)[:80] for a in args]}, "expected": "terminates",
                    "observed": "no return within 3 s"}
        except Exception:  # noqa
            pass
        finally:
            signal.alarm(0)
    return {"reproduced": False, "note": f"{tried} annotation-driven calls of {q} returned"}


def find(req):
    repo = os.environ.get("VERIF_REPO", "/repo")
    if "/decreases#" in (req.get("obligation") or ""):
        r = hang_search(req["obligation"], repo)
        if r is not None and r.get("reproduced"):
            return r
    from sharepoint2text.parsing import router
    from sharepoint2text.parsing.exceptions import ExtractionError
    import importlib
    seed = int(os.environ.get("VERIF_SEED", "0") or 0)
    target_fn = (req.get("function") or "")
    signal.signal(signal.SIGALRM, _alarm)
    tried = 0
    extractors = []
    for k, (modpath, fn) in router._EXTRACTOR_REGISTRY.items():
        f = getattr(importlib.import_module(modpath), fn)
        if f not in [e[1] for e in extractors]:
            extractors.append((k, f))
    if "::main" not in target_fn:
        for label, data in inputs(seed, repo):
            for k, f in extractors:
                if target_fn and "::read_" in target_fn and f.__name__ not in target_fn:
                    continue
                tried += 1
                signal.alarm(20)
                bio = io.BytesIO(data)
                try:
                    for _ in f(bio, f"x.{k}"):
                        pass
                    if bio.closed:
                        signal.alarm(0)
                        return {"reproduced": True, "target": f"{f.__module__}.{f.__name__}", "inputs": {"case": label, "as": k},
                                "expected": "the caller's stream is left open (callers rewind it afterwards: e-mail attachments, archive members)",
                                "observed": "file_like.closed is True after the results were consumed"}
                except ExtractionError:
                    pass
                except _Timeout:
                    signal.alarm(0)
                    return {"reproduced": True, "target": f.__name__, "inputs": {"case": label, "as": k}, "expected": "terminates",
                            "observed": "no result within 20 s"}
                except Exception as e:  # noqa
                    signal.alarm(0)
                    return {"reproduced": True, "target": f"{f.__module__}.{f.__name__}", "inputs": {"case": label, "as": k, "bytes_hex_prefix": data[:64].hex()},
                            "expected": "ExtractionError family", "observed": f"{type(e).__name__}: {str(e)[:120]}"}
                finally:
                    signal.alarm(0)
    # CLI: exit 0 with output, or exit 1 with clean stdout and one stderr line
    import tempfile
    from sharepoint2text import cli
    with tempfile.TemporaryDirectory() as d:
        cases = []
        p = os.path.join(d, "bad.docx")
        open(p, "wb").write(b"not a zip")
        cases.append([p, "--json"])
        cases.append([p])
        try:
            import datetime
            import openpyxl
            wb = openpyxl.Workbook()
            wb.active.append([1, datetime.timedelta(hours=1)])
            q = os.path.join(d, "dur.xlsx")
            wb.save(q)
            cases += [[q, "--json"], [q, "--json-unit"], [q]]
        except Exception:  # noqa
            pass
        t = os.path.join(d, "ok.txt")
        open(t, "w").write("hello")
        cases += [[t], [t, "--json"], [os.path.join(d, "missing.pdf")]]
        for argv in cases:
            tried += 1
            out, err = io.StringIO(), io.StringIO()
            with contextlib.redirect_stdout(out), contextlib.redirect_stderr(err):
                try:
                    rc = cli.main(argv)
                except BaseException as e:  # noqa
                    rc = f"raised {type(e).__name__}"
            o, e = out.getvalue(), err.getvalue()
            ok = (rc == 0 and o and not e) or (rc == 1 and o == "" and e.count("\n") == 1)
            if not ok:
                return {"reproduced": True, "target": "sharepoint2text/cli.py::main", "inputs": {"argv": [os.path.basename(a) for a in argv]},
                        "expected": "exit 0 with output, or exit 1 with empty stdout and one stderr line",
                        "observed": f"exit={rc} stdout_bytes={len(o)} stderr_lines={e.count(chr(10))}"}
    # in a fresh process (logging unconfigured): a failing input gives exactly one stderr line
    import subprocess
    import sys
    with tempfile.TemporaryDirectory() as d:
        g = os.path.join(d, "g.pdf")
        open(g, "wb").write(b"garbage not a pdf")
        p = subprocess.run([sys.executable, "-m", "sharepoint2text.cli", g], capture_output=True, text=True, cwd=repo, timeout=120)
        tried += 1
        if not (p.returncode == 1 and p.stdout == "" and p.stderr.count("\n") == 1):
            return {"reproduced": True, "target": "sharepoint2text/cli.py::main", "inputs": {"argv": ["g.pdf"], "content": "garbage not a pdf"},
                    "expected": "exit 1, empty stdout, one stderr line", "observed": f"exit={p.returncode} stdout_bytes={len(p.stdout)} stderr_lines={p.stderr.count(chr(10))}"}
    return {"reproduced": False, "note": f"{tried} native cases within the ExtractionError family / CLI contract"}


def rerun(stored):
    return find({"function": stored.get("target", "")})
