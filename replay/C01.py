"""Native replay for C01: hostile bytes through every registered extractor, read_file,
the archive-member wrapper and the CLI; only the ExtractionError family may escape."""
import contextlib
import glob
import io
import os
import random
import signal


class _Timeout(BaseException):      # not an Exception: the extractors' own `except Exception` must not swallow the alarm
    pass


def _alarm(signum, frame):
    raise _Timeout()


def _container_mutations():
    """valid container shell, damaged compressed payload"""
    import lzma
    import tarfile
    import zipfile
    buf = io.BytesIO()
    with zipfile.ZipFile(buf, "w", zipfile.ZIP_DEFLATED) as z:
        z.writestr("a.txt", ("line of text %d\n" * 400) % tuple(range(400)))
    b = bytearray(buf.getvalue())
    for k in range(60, 160, 7):           # inside the deflate stream of the first member
        b[k] ^= 0x5A
    yield "zip:damaged-deflate-stream", bytes(b), "zip"
    raw = io.BytesIO()
    with tarfile.open(fileobj=raw, mode="w") as t:
        data = b"hello tar member\n" * 200
        ti = tarfile.TarInfo("a.txt")
        ti.size = len(data)
        t.addfile(ti, io.BytesIO(data))
    x = bytearray(lzma.compress(raw.getvalue()))
    for k in range(40, min(len(x) - 12, 140), 5):
        x[k] ^= 0xA5
    yield "tar.xz:damaged-lzma-stream", bytes(x), "tar.xz"
    import gzip
    g = bytearray(gzip.compress(raw.getvalue()))
    for k in range(30, min(len(g) - 8, 100), 3):
        g[k] ^= 0x3C
    yield "tar.gz:damaged-deflate-stream", bytes(g), "tar.gz"


def inputs(seed, repo):
    rnd = random.Random(seed)
    yield "empty", b""
    yield "garbage", b"garbage \x00\xff" * 40
    for label, data, _k in _container_mutations():
        yield label, data
    # hostile record content inside a valid shell
    for i, body in enumerate((b"hello \\'zz world", b"it\\'s", b"\\'}}", b"a\\u-1?b\\'4", b"{\\*\\x \\'q}" * 3, b"\\bin99999999 x", b"\\uc0\\u55357\\u56832")):
        yield f"rtf:hostile-escape-{i}", b"{\\rtf1\\ansi " + body + b"}"
    yield "zip:empty", b"PK\x05\x06" + b"\0" * 18
    yield "mbox:blank", b"\n\n"
    files = sorted(glob.glob(os.path.join(repo, "sharepoint2text/tests/resources/*/*")))
    files = [f for f in files if os.path.isfile(f) and os.path.getsize(f) < 400_000]
    rnd.shuffle(files)
    for f in files[:14]:
        data = open(f, "rb").read()
        name = os.path.basename(f)
        yield f"whole:{name}", data
        yield f"truncated:{name}", data[: max(1, len(data) // 3)]
        b = bytearray(data)
        for _ in range(8):
            b[rnd.randrange(len(b))] ^= 1 << rnd.randrange(8)
        yield f"bitflips:{name}", bytes(b)


POOLS = {
    "list[str]": [[], ["1"], ["1", "2"], ["1.5", "2.5", "3.5"], ["x", "1", "2", "3"], ["-", "12", "(3)"], ["a", "b", "c", "d"], ["1", "2", "3", "4", "5"]],
    "int": [0, 1, 2, 3, 7],
    "str": ["", "a", "1 2 3", "Revenue 1.5 2.5 3.5", "x  12  13", "\\u1234?", "{\\rtf1 a}"],
    "bytes": [b"", b"\x00" * 64, b"\x89PNG\r\n\x1a\n" * 3, b"BM" + b"\x28\x00\x00\x00" * 20, bytes(range(256))],
    "bool": [False, True],
}


def hang_search(obligation, repo):
    """Small-scope native calls of the function a `decreases#` obligation belongs to, built from its annotations, each under a 3 s alarm."""
    import importlib
    import inspect
    import itertools
    try:
        fileq = obligation.split("/", 1)[1].split("/decreases")[0]
        fname, q = fileq.split("::")
    except Exception:  # noqa
        return None
    hits = glob.glob(os.path.join(repo, "sharepoint2text", "**", fname), recursive=True)
    if not hits:
        return None
    modname = os.path.relpath(hits[0], repo)[:-3].replace(os.sep, ".")
    try:
        obj = importlib.import_module(modname)
        for part in q.split("."):
            obj = getattr(obj, part)
        sig = inspect.signature(obj)
    except Exception:  # noqa
        return None
    pools = []
    for name, prm in sig.parameters.items():
        if name in ("self", "cls"):
            return None
        a_ = prm.annotation
        ann = a_ if isinstance(a_, str) else (a_.__name__ if isinstance(a_, type) and not getattr(a_, "__args__", None) else str(a_))
        ann = str(ann).replace("typing.", "").replace("List", "list")
        if ann not in POOLS:
            return None
        pools.append(POOLS[ann])
    signal.signal(signal.SIGALRM, _alarm)
    tried = 0
    for args in itertools.islice(itertools.product(*pools), 400):
        tried += 1
        signal.alarm(3)
        try:
            r = obj(*[a.copy() if isinstance(a, list) else a for a in args])
            if inspect.isgenerator(r):
                for _ in r:
                    pass
        except _Timeout:
            return {"reproduced": True, "target": f"{modname}.{q}", "inputs": {"args": [repr(a)[:80] for a in args]}, "expected": "terminates",
                    "observed": "no return within 3 s"}
        except Exception:  # noqa
            pass
        finally:
            signal.alarm(0)
    return {"reproduced": False, "note": f"{tried} annotation-driven calls of {q} returned"}


def hang_probe(repo, seed):
    """Hostile inputs through the extractors in CHILD processes with a hard timeout: a SIGALRM handler is not a reliable way out of
    a spinning loop (observed: CPython 3.12 did not run the handler in a `while` loop that `continue`s from an except block)."""
    import subprocess
    import sys
    import tempfile
    from sharepoint2text.parsing import router
    cases = [(l, b) for (l, b) in inputs(seed, repo) if l.startswith(("rtf:", "zip:", "mbox:", "tar", "empty", "garbage"))]
    code = ("import sys, io, importlib\n"
            "sys.path.insert(0, sys.argv[1])\n"
            "import logging; logging.disable(logging.CRITICAL)\n"
            "f = getattr(importlib.import_module(sys.argv[2]), sys.argv[3])\n"
            "data = open(sys.argv[4], 'rb').read()\n"
            "try:\n"
            "    for _ in f(io.BytesIO(data), sys.argv[5]):\n"
            "        pass\n"
            "except Exception:\n"
            "    pass\n")
    seen = set()
    with tempfile.TemporaryDirectory() as d:
        for label, data in cases:
            kind = label.split(":")[0]
            for k, (modpath, fn) in router._EXTRACTOR_REGISTRY.items():
                if (modpath, fn) in seen and kind in ("empty", "garbage"):
                    continue
                if kind in ("rtf", "zip", "mbox") and not k.startswith(kind[:3]):
                    continue
                if kind.startswith("tar") and k not in ("tar", "tgz", "txz", "gz"):
                    continue
                seen.add((modpath, fn))
                pth = os.path.join(d, "in.bin")
                with open(pth, "wb") as fh:
                    fh.write(data)
                try:
                    subprocess.run([sys.executable, "-c", code, repo, modpath, fn, pth, f"x.{k}"], timeout=45, capture_output=True, cwd=repo)
                except subprocess.TimeoutExpired:
                    return {"reproduced": True, "target": f"{modpath}.{fn}", "inputs": {"case": label, "as": k, "bytes": data[:80].decode("latin-1")},
                            "expected": "terminates", "observed": "no result within 45 s (child process killed)"}
    return None


def find(req):
    repo = os.environ.get("VERIF_REPO", "/repo")
    if "/decreases#" in (req.get("obligation") or ""):
        r = hang_search(req["obligation"], repo)
        if r is not None and r.get("reproduced"):
            return r
        r = hang_probe(repo, int(os.environ.get("VERIF_SEED", "0") or 0))
        if r is not None:
            return r
    from sharepoint2text.parsing import router
    from sharepoint2text.parsing.exceptions import ExtractionError
    import importlib
    seed = int(os.environ.get("VERIF_SEED", "0") or 0)
    target_fn = (req.get("function") or "")
    signal.signal(signal.SIGALRM, _alarm)
    tried = 0
    extractors = []
    for k, (modpath, fn) in router._EXTRACTOR_REGISTRY.items():
        f = getattr(importlib.import_module(modpath), fn)
        if f not in [e[1] for e in extractors]:
            extractors.append((k, f))
    if "::main" not in target_fn:
        for label, data in inputs(seed, repo):
            for k, f in extractors:
                if target_fn and "::read_" in target_fn and f.__name__ not in target_fn:
                    continue
                tried += 1
                signal.alarm(20)
                bio = io.BytesIO(data)
                try:
                    for _ in f(bio, f"x.{k}"):
                        pass
                    for _ in f(io.BytesIO(data)):          # path is optional: the documented call without a path
                        pass
                    if bio.closed:
                        signal.alarm(0)
                        return {"reproduced": True, "target": f"{f.__module__}.{f.__name__}", "inputs": {"case": label, "as": k},
                                "expected": "the caller's stream is left open (callers rewind it afterwards: e-mail attachments, archive members)",
                                "observed": "file_like.closed is True after the results were consumed"}
                except ExtractionError:
                    pass
                except _Timeout:
                    signal.alarm(0)
                    return {"reproduced": True, "target": f.__name__, "inputs": {"case": label, "as": k}, "expected": "terminates",
                            "observed": "no result within 20 s"}
                except Exception as e:  # noqa
                    signal.alarm(0)
                    return {"reproduced": True, "target": f"{f.__module__}.{f.__name__}", "inputs": {"case": label, "as": k, "bytes_hex_prefix": data[:64].hex()},
                            "expected": "ExtractionError family", "observed": f"{type(e).__name__}: {str(e)[:120]}"}
                finally:
                    signal.alarm(0)
    # read_file on real files: extractor results or the ExtractionError family (an input that yields nothing yields nothing)
    import tempfile
    import sharepoint2text
    if not target_fn or "read_file" in target_fn or "out-of-subset" in (req.get("obligation") or ""):
        with tempfile.TemporaryDirectory() as d:
            small = [(l, b) for (l, b) in inputs(seed, repo) if len(b) < 20000][:40]
            for label, data in small:
                for ext in ("zip", "tar", "mbox", "txt", "docx", "pdf", "rtf", "eml"):
                    if ":" in label and label.split(":")[0] in ("zip", "mbox", "rtf") and not ext.startswith(label.split(":")[0][:3]):
                        continue
                    pth = os.path.join(d, f"f.{ext}")
                    with open(pth, "wb") as fh:
                        fh.write(data)
                    tried += 1
                    signal.alarm(20)
                    try:
                        for _ in sharepoint2text.read_file(pth):
                            pass
                    except ExtractionError:
                        pass
                    except _Timeout:
                        signal.alarm(0)
                        return {"reproduced": True, "target": "sharepoint2text.read_file", "inputs": {"case": label, "as": ext}, "expected": "terminates",
                                "observed": "no result within 20 s"}
                    except Exception as e:  # noqa
                        signal.alarm(0)
                        return {"reproduced": True, "target": "sharepoint2text.read_file", "inputs": {"case": label, "file_extension": ext, "bytes_hex_prefix": data[:64].hex()},
                                "expected": "results or the ExtractionError family", "observed": f"{type(e).__name__}: {str(e)[:120]}"}
                    finally:
                        signal.alarm(0)
    # CLI: exit 0 with output, or exit 1 with clean stdout and one stderr line
    from sharepoint2text import cli
    with tempfile.TemporaryDirectory() as d:
        cases = []
        p = os.path.join(d, "bad.docx")
        open(p, "wb").write(b"not a zip")
        cases.append([p, "--json"])
        cases.append([p])
        try:
            import datetime
            import openpyxl
            wb = openpyxl.Workbook()
            wb.active.append([1, datetime.timedelta(hours=1)])
            q = os.path.join(d, "dur.xlsx")
            wb.save(q)
            cases += [[q, "--json"], [q, "--json-unit"], [q]]
        except Exception:  # noqa
            pass
        t = os.path.join(d, "ok.txt")
        open(t, "w").write("hello")
        cases += [[t], [t, "--json"], [os.path.join(d, "missing.pdf")]]
        for argv in cases:
            tried += 1
            out, err = io.StringIO(), io.StringIO()
            with contextlib.redirect_stdout(out), contextlib.redirect_stderr(err):
                try:
                    rc = cli.main(argv)
                except BaseException as e:  # noqa
                    rc = f"raised {type(e).__name__}"
            o, e = out.getvalue(), err.getvalue()
            ok = (rc == 0 and o and not e) or (rc == 1 and o == "" and e.count("\n") == 1)
            if not ok:
                return {"reproduced": True, "target": "sharepoint2text/cli.py::main", "inputs": {"argv": [os.path.basename(a) for a in argv]},
                        "expected": "exit 0 with output, or exit 1 with empty stdout and one stderr line",
                        "observed": f"exit={rc} stdout_bytes={len(o)} stderr_lines={e.count(chr(10))}"}
    # in a fresh process (logging unconfigured): a failing input gives exactly one stderr line
    import subprocess
    import sys
    with tempfile.TemporaryDirectory() as d:
        g = os.path.join(d, "g.pdf")
        open(g, "wb").write(b"garbage not a pdf")
        p = subprocess.run([sys.executable, "-m", "sharepoint2text.cli", g], capture_output=True, text=True, cwd=repo, timeout=120)
        tried += 1
        if not (p.returncode == 1 and p.stdout == "" and p.stderr.count("\n") == 1):
            return {"reproduced": True, "target": "sharepoint2text/cli.py::main", "inputs": {"argv": ["g.pdf"], "content": "garbage not a pdf"},
                    "expected": "exit 1, empty stdout, one stderr line", "observed": f"exit={p.returncode} stdout_bytes={len(p.stdout)} stderr_lines={p.stderr.count(chr(10))}"}
    return {"reproduced": False, "note": f"{tried} native cases within the ExtractionError family / CLI contract"}


def rerun(stored):
    return find({"function": stored.get("target", "")})
