"""Native replay for C01: hostile bytes through every registered extractor, read_file,
the archive-member wrapper and the CLI; only the ExtractionError family may escape."""
import contextlib
import glob
import io
import os
import random
import signal


class _Timeout(BaseException):      # not an Exception: the extractors' own `except Exception` must not swallow the alarm
    pass


def _alarm(signum, frame):
    raise _Timeout()


def _container_mutations():
    """valid container shell, damaged compressed payload"""
    import lzma
    import tarfile
    import zipfile
    buf = io.BytesIO()
    with zipfile.ZipFile(buf, "w", zipfile.ZIP_DEFLATED) as z:
        z.writestr("a.txt", ("line of text %d\n" * 400) % tuple(range(400)))
    b = bytearray(buf.getvalue())
    for k in range(60, 160, 7):           # inside the deflate stream of the first member
        b[k] ^= 0x5A
    yield "zip:damaged-deflate-stream", bytes(b), "zip"
    raw = io.BytesIO()
    with tarfile.open(fileobj=raw, mode="w") as t:
        data = b"hello tar member\n" * 200
        ti = tarfile.TarInfo("a.txt")
        ti.size = len(data)
        t.addfile(ti, io.BytesIO(data))
    x = bytearray(lzma.compress(raw.getvalue()))
    for k in range(40, min(len(x) - 12, 140), 5):
        x[k] ^= 0xA5
    yield "tar.xz:damaged-lzma-stream", bytes(x), "tar.xz"
    import gzip
    g = bytearray(gzip.compress(raw.getvalue()))
    for k in range(30, min(len(g) - 8, 100), 3):
        g[k] ^= 0x3C
    yield "tar.gz:damaged-deflate-stream", bytes(g), "tar.gz"


def inputs(seed, repo):
    rnd = random.Random(seed)
    yield "empty", b""
    yield "garbage", b"garbage \x00\xff" * 40
    for label, data, _k in _container_mutations():
        yield label, data
    # hostile record content inside a valid shell
    for i, body in enumerate((b"hello \\'zz world", b"it\\'s", b"\\'}}", b"a\\u-1?b\\'4", b"{\\*\\x \\'q}" * 3, b"\\bin99999999 x", b"\\uc0\\u55357\\u56832")):
        yield f"rtf:hostile-escape-{i}", b"{\\rtf1\\ansi " + body + b"}"
    yield "zip:empty", b"PK\x05\x06" + b"\0" * 18
    yield "mbox:blank", b"\n\n"
    # well-formed mail shell, hostile header / part content (what the lenient mail parsers choke on)
    head = b"From: a@example.com\nTo: b@example.com\nDate: Sat, 27 Dec 2025 10:00:00 +0000\nMessage-ID: <1@example.com>\n"
    for i, subj in enumerate((b"caf\xe9 \xff\xfe", b"=?utf-8?b?////?=", b"=?x-unknown-charset?q?abc?=", b"=?utf-8?q?=ZZ?= \x00")):
        yield f"mbox:hostile-subject-{i}", b"From a@example.com Sat Dec 27 10:00:00 2025\n" + head + b"Subject: " + subj + b"\n\nbody\n"
        yield f"eml:hostile-subject-{i}", head + b"Subject: " + subj + b"\n\nbody\n"
    yield "mbox:8bit-message-id", b"From a@example.com Sat Dec 27 10:00:00 2025\nFrom: a@example.com\nSubject: s\nMessage-ID: <\xff\xe9@x>\n\nbody\n"
    for i, (cte, payload) in enumerate(((b"base64", b"A"), (b"base64", b"QUJDRA=x=\n====A"), (b"quoted-printable", b"=ZZ=\n=4"), (b"x-unknown", b"data"), (b"base64", b"\xff\xfe\x00"))):
        part = (b"--B\nContent-Type: text/plain\n\nhello\n--B\nContent-Type: application/octet-stream; name=\"a.bin\"\n"
                b"Content-Disposition: attachment; filename=\"a.bin\"\nContent-Transfer-Encoding: " + cte + b"\n\n" + payload + b"\n--B--\n")
        mime = head + b"Subject: s\nMIME-Version: 1.0\nContent-Type: multipart/mixed; boundary=\"B\"\n\n" + part
        yield f"eml:hostile-attachment-{i}", mime
        yield f"mbox:hostile-attachment-{i}", b"From a@example.com Sat Dec 27 10:00:00 2025\n" + mime
    files = sorted(glob.glob(os.path.join(repo, "sharepoint2text/tests/resources/*/*")))
    files = [f for f in files if os.path.isfile(f) and os.path.getsize(f) < 400_000]
    rnd.shuffle(files)
    for f in files[:14]:
        data = open(f, "rb").read()
        name = os.path.basename(f)
        yield f"whole:{name}", data
        yield f"truncated:{name}", data[: max(1, len(data) // 3)]
        b = bytearray(data)
        for _ in range(8):
            b[rnd.randrange(len(b))] ^= 1 << rnd.randrange(8)
        yield f"bitflips:{name}", bytes(b)


POOLS = {
    "list[str]": [[], ["1"], ["1", "2"], ["1.5", "2.5", "3.5"], ["x", "1", "2", "3"], ["-", "12", "(3)"], ["a", "b", "c", "d"], ["1", "2", "3", "4", "5"]],
    "int": [0, 1, 2, 3, 7],
    "str": ["", "a", "1 2 3", "Revenue 1.5 2.5 3.5", "x  12  13", "\\u1234?", "{\\rtf1 a}"],
    "bytes": [b"", b"\x00" * 64, b"\x89PNG\r\n\x1a\n" * 3, b"BM" + b"\x28\x00\x00\x00" * 20, bytes(range(256))],
    "bool": [False, True],
}


_LAST_HANG = {}


def promote_to_file(repo, fname, found):
    """a hang reproduced by calling the helper directly on a byte string -> the same bytes carried by a structurally valid file through
    the registered extractors that reach the helper's module (the input a caller of read_file can actually supply).  -> finding | None"""
    labels = {pl: l for (l, pl) in record_payloads()}
    payloads = [("direct-call-witness:" + labels.get(bytes(a).lstrip(b"\x00"), labels.get(bytes(a), "bytes")), a)
                for a in _LAST_HANG.get("args", []) if isinstance(a, (bytes, bytearray)) and len(a) >= 8]
    if not payloads:
        return None
    done = set()
    for k, modpath, fn in reaching_extractors(repo, fname):
        if (modpath, fn) in done:
            continue
        try:
            rec = list(ole_record_cases(repo, k, payloads))
        except Exception:  # noqa
            rec = []
        if not rec:
            continue
        done.add((modpath, fn))
        r = batch_probe(repo, modpath, fn, f"x.{k}", rec, single_timeout=15, per_case=0.5)
        if r is not None:
            r["inputs"]["helper_witness"] = found.get("target")
            return r
    return None


def hang_search(obligation, repo):
    """Small-scope native calls of the function a `decreases#` obligation belongs to, built from its annotations, each under a 3 s alarm."""
    import importlib
    import inspect
    import itertools
    try:
        fileq = obligation.split("/", 1)[1].split("/decreases")[0]
        fname, q = fileq.split("::")
    except Exception:  # noqa
        return None
    hits = glob.glob(os.path.join(repo, "sharepoint2text", "**", fname), recursive=True)
    if not hits:
        return None
    modname = os.path.relpath(hits[0], repo)[:-3].replace(os.sep, ".")
    try:
        obj = importlib.import_module(modname)
        for part in q.split("."):
            obj = getattr(obj, part)
        sig = inspect.signature(obj)
    except Exception:  # noqa
        return None
    pools = []
    for name, prm in sig.parameters.items():
        if name in ("self", "cls"):
            return None
        a_ = prm.annotation
        ann = a_ if isinstance(a_, str) else (a_.__name__ if isinstance(a_, type) and not getattr(a_, "__args__", None) else str(a_))
        ann = str(ann).replace("typing.", "").replace("List", "list")
        if ann not in POOLS:
            return None
        pool = POOLS[ann]
        if ann == "bytes":
            # byte-string parameters of carving / record-walking helpers: record streams with boundary values in the length fields
            pool = pool + [pl for (_l, pl) in record_payloads()] + [b"\x00" * 7 + pl for (_l, pl) in record_payloads() if _l.startswith("png:")][:40]
        pools.append(pool)
    signal.signal(signal.SIGALRM, _alarm)
    tried = 0
    # every value of every pool once with the other parameters at their first value (so that a long pool is not cut off by the product
    # order), then the product
    plan, seen_plan = [], set()
    for k, pool in enumerate(pools):
        for v in pool:
            plan.append(tuple(v if j == k else pools[j][0] for j in range(len(pools))))
    plan = plan[:900] + list(itertools.islice(itertools.product(*pools), 400))
    for args in plan:
        key = repr(args)[:4000]
        if key in seen_plan:
            continue
        seen_plan.add(key)
        tried += 1
        signal.alarm(3)
        try:
            r = obj(*[a.copy() if isinstance(a, list) else a for a in args])
            if inspect.isgenerator(r):
                for _ in r:
                    pass
        except _Timeout:
            _LAST_HANG["args"] = list(args)
            return {"reproduced": True, "target": f"{modname}.{q}", "inputs": {"args": [repr(a)[:80] for a in args]}, "expected": "terminates",
                    "observed": "no return within 3 s"}
        except Exception:  # noqa
            pass
        finally:
            signal.alarm(0)
    return {"reproduced": False, "note": f"{tried} annotation-driven calls of {q} returned"}


# ------------------------------------------------------- 7z: valid shell, hostile header content --
def _7z_number(v):
    for k in range(8):
        if v < (1 << (7 * (k + 1))):
            first = ((0xFF << (8 - k)) & 0xFF) | (v >> (8 * k))
            return bytes([first]) + (v & ((1 << (8 * k)) - 1)).to_bytes(k, "little")
    return b"\xff" + v.to_bytes(8, "little")


def _7z_wrap(header, body=b""):
    """signature header with correct CRCs around an arbitrary header block: the parser accepts the shell and walks the content"""
    import struct
    import zlib
    start = struct.pack("<QQI", len(body), len(header), zlib.crc32(header) & 0xFFFFFFFF)
    return b"7z\xbc\xaf\x27\x1c\x00\x04" + struct.pack("<I", zlib.crc32(start) & 0xFFFFFFFF) + start + body + header


def _7z_header(names_block=None, names_size=None, n_files=2, props=None, with_streams=True):
    """kHeader [MainStreamsInfo (one copy-coded folder)] FilesInfo(names [, further properties]) kEnd"""
    import struct
    import zlib
    body = b"hello 7z\n" if with_streams else b""
    h = bytearray(b"\x01")
    if with_streams:
        h += b"\x04" + b"\x06" + _7z_number(0) + _7z_number(1) + b"\x09" + _7z_number(len(body)) + b"\x00"
        h += b"\x07\x0b" + _7z_number(1) + b"\x00" + _7z_number(1) + b"\x01\x00" + b"\x0c" + _7z_number(len(body)) + b"\x00"
        h += b"\x08\x0a\x01" + struct.pack("<I", zlib.crc32(body) & 0xFFFFFFFF) + b"\x00\x00"
    h += b"\x05" + _7z_number(n_files)
    if n_files >= 2:
        h += b"\x0e\x01" + bytes([0x40])           # second entry has no stream (a directory)
    if names_block is None:
        names_block = b"".join(n.encode("utf-16-le") + b"\x00\x00" for n in (["a.txt", "dir", "b.txt", "c.txt"][:n_files]))
    blk = b"\x00" + names_block
    h += b"\x11" + _7z_number(len(blk) if names_size is None else names_size) + blk
    for (pid, payload, size) in (props or ()):
        h += bytes([pid]) + _7z_number(len(payload) if size is None else size) + payload
    h += b"\x00\x00"
    return bytes(h), body


def sevenzip_cases():
    """(label, bytes): every case has a VALID signature header (CRCs recomputed), so SevenZipReader walks the hostile header"""
    u = lambda s: s.encode("utf-16-le")
    h, body = _7z_header()
    yield "7z:valid", _7z_wrap(h, body)
    for with_streams in (False, True):
        tag = "" if with_streams else "-headeronly"
        mk = lambda **kw: _7z_wrap(*_7z_header(with_streams=with_streams, **kw))
        yield f"7z:names-unterminated{tag}", mk(names_block=u("a.txt"), n_files=1)
        yield f"7z:names-last-unterminated{tag}", mk(names_block=u("a.txt") + b"\x00\x00" + u("dir"))
        yield f"7z:names-odd-length{tag}", mk(names_block=u("a.txt") + b"\x00", n_files=1)
        yield f"7z:names-empty-block{tag}", mk(names_block=b"", n_files=1)
        yield f"7z:names-fewer-than-files{tag}", mk(names_block=u("a") + b"\x00\x00", n_files=4)
        yield f"7z:names-size-too-large{tag}", mk(names_size=200)
        yield f"7z:names-size-zero{tag}", mk(names_size=0)
        yield f"7z:names-size-huge{tag}", mk(names_size=(1 << 62))
        yield f"7z:names-single-nul-bytes{tag}", mk(names_block=b"\x00" * 7, n_files=3)
        yield f"7z:names-lone-surrogates{tag}", mk(names_block=b"\x00\xd8" * 5 + b"\x00\x00", n_files=1)
        for pid in (0x0e, 0x0f, 0x10, 0x12, 0x13, 0x14, 0x15, 0x19, 0x18, 0x77):
            yield f"7z:prop-{pid:02x}-empty{tag}", mk(props=[(pid, b"", None)])
            yield f"7z:prop-{pid:02x}-size-beyond-end{tag}", mk(props=[(pid, b"\x01", 90)])
            yield f"7z:prop-{pid:02x}-all-ones{tag}", mk(props=[(pid, b"\xff" * 9, None)])
        yield f"7z:files-127{tag}", mk(n_files=127, names_block=u("a") + b"\x00\x00")
        yield f"7z:files-0{tag}", mk(n_files=0, names_block=b"")
    # structural mutants of the valid header: every truncation, and every byte set to 00 / 7f / ff / +1 (CRCs stay valid)
    for k in range(1, len(h)):
        yield f"7z:header-truncated-at-{k}", _7z_wrap(h[:k], body)
    for k in range(len(h)):
        for v in (0x00, 0x7F, 0xFF, (h[k] + 1) & 0xFF):
            if v != h[k]:
                b = bytearray(h)
                b[k] = v
                yield f"7z:header-byte-{k}-set-{v:02x}", _7z_wrap(bytes(b), body)


_BATCH = r"""
import sys, io, importlib, json, resource, faulthandler
if len(sys.argv) > 7:
    faulthandler.dump_traceback_later(float(sys.argv[7]), exit=True)          # confirmation run: say WHERE the call is stuck
try:
    resource.setrlimit(resource.RLIMIT_AS, (3 << 30, 3 << 30))      # hostile counts must not eat the machine: MemoryError instead
except Exception:
    pass
sys.path.insert(0, sys.argv[1])
import logging; logging.disable(logging.CRITICAL)
f = getattr(importlib.import_module(sys.argv[2]), sys.argv[3])
cases = json.load(open(sys.argv[4]))
first = int(sys.argv[6])
for i, (label, hx) in enumerate(cases):
    if i < first:
        continue
    print("START", i, flush=True)
    try:
        for _ in f(io.BytesIO(bytes.fromhex(hx)), sys.argv[5]):
            pass
    except Exception:
        pass
print("DONE", flush=True)
"""


def batch_probe(repo, modpath, fn, path_arg, cases, single_timeout=30, per_case=0.05):
    """Many small inputs through one extractor in ONE child process (the import cost is paid once); when the batch does not finish,
    the input it stopped at is confirmed alone under a hard timeout.  -> finding | None"""
    import json
    import subprocess
    import sys
    import tempfile
    cases = list(cases)
    with tempfile.TemporaryDirectory() as d:
        cp = os.path.join(d, "cases.json")
        json.dump([(l, b.hex()) for (l, b) in cases], open(cp, "w"))
        first = 0
        while first < len(cases):
            budget = 20 + per_case * (len(cases) - first)
            try:
                p = subprocess.run([sys.executable, "-c", _BATCH, repo, modpath, fn, cp, path_arg, str(first)], timeout=budget, capture_output=True, text=True, cwd=repo)
                out, finished = p.stdout, True
            except subprocess.TimeoutExpired as e:
                out = e.stdout.decode() if isinstance(e.stdout, bytes) else (e.stdout or "")
                finished = False
            started = [int(l.split()[1]) for l in out.splitlines() if l.startswith("START ")]
            if finished and "DONE" in out:
                return None
            if not started:
                return None          # the child did not even start (import failure): nothing to report here
            i = started[-1]
            label, data = cases[i]
            if not finished:
                one = os.path.join(d, "one.json")
                json.dump([(label, data.hex())], open(one, "w"))
                stuck, where = False, []
                try:
                    c1 = subprocess.run([sys.executable, "-c", _BATCH, repo, modpath, fn, one, path_arg, "0", str(max(2, single_timeout - 4))],
                                        timeout=single_timeout + 20, capture_output=True, text=True, cwd=repo)
                    if "DONE" not in (c1.stdout or "") and "Timeout (" in (c1.stderr or ""):
                        stuck = True
                        where = [l.strip() for l in c1.stderr.splitlines() if l.strip().startswith("File ")]
                except subprocess.TimeoutExpired:
                    stuck = True
                # a call stuck inside olefile's property parser is the RECORDED finding C01-olefile-property-vector-count-trusted (a loop of the
                # third-party parser over a count read from the stream, decided by its own bounded scope obligation on every run): it says nothing
                # about the loop this search was started for, so the search goes on behind that input
                if stuck and where and any("olefile" in w and ("_parse_property" in w or "getproperties" in w) for w in where[:4]):
                    stuck = False
                if stuck:
                    return {"reproduced": True, "target": f"{modpath}.{fn}", "inputs": {"case": label, "as": path_arg, "bytes": len(data), "hex": data.hex()[:400]},
                            "expected": "terminates (extraction results or an ExtractionError)",
                            "observed": f"no result within {max(2, single_timeout - 4)} s (child process stopped); innermost frames: " + " <- ".join(where[:3])[:400]}
            first = i + 1            # crashed (e.g. killed by the memory limit) or merely slow: go on behind it
    return None


def sevenzip_probe(repo):
    from sharepoint2text.parsing import router
    ent = router._EXTRACTOR_REGISTRY.get("7z")
    if not ent:
        return None
    return batch_probe(repo, ent[0], ent[1], "x.7z", sevenzip_cases())


# ------------------------------ directed corpus: fixture mutants through the extractors that reach a file --
def reaching_extractors(repo, fname):
    """registry entries (key, module, function) whose module imports -- transitively, inside the package -- the module stored in
    a file called `fname` (e.g. sevenzip.py -> the archive extractor)"""
    import ast
    mods = {}
    for path in glob.glob(os.path.join(repo, "sharepoint2text", "**", "*.py"), recursive=True):
        if os.sep + "tests" + os.sep in path:
            continue
        rel = os.path.relpath(path, repo)[:-3].replace(os.sep, ".")
        if rel.endswith(".__init__"):
            rel = rel[: -len(".__init__")]
        mods[rel] = path
    edges = {}
    for m, path in mods.items():
        out = set()
        try:
            tree = ast.parse(open(path).read())
        except Exception:  # noqa
            tree = None
        for n in (ast.walk(tree) if tree is not None else ()):
            if isinstance(n, ast.Import):
                for a in n.names:
                    out.add(a.name)
            elif isinstance(n, ast.ImportFrom):
                base = n.module or ""
                if n.level:
                    pkg = m.split(".") if path.endswith("__init__.py") else m.split(".")[:-1]
                    pkg = pkg[: len(pkg) - (n.level - 1)]
                    base = ".".join(pkg + ([n.module] if n.module else []))
                out.add(base)
                for a in n.names:
                    out.add(base + "." + a.name)
        edges[m] = {x for x in out if x in mods}
    targets = {m for m, path in mods.items() if os.path.basename(path) == fname}
    if not targets:
        return []
    from sharepoint2text.parsing import router

    def reaches(m):
        seen, todo = set(), [m]
        while todo:
            x = todo.pop()
            if x in targets:
                return True
            if x in seen:
                continue
            seen.add(x)
            todo.extend(edges.get(x, ()))
        return False
    out = []
    for k, (modpath, fn) in router._EXTRACTOR_REGISTRY.items():
        if reaches(modpath):
            out.append((k, modpath, fn))
    return out


def fixture_mutants(repo, key, seed=0, per_fixture=70):
    """(label, bytes): the smallest fixtures with extension `key`, whole / truncated at many points / bit flips / header bytes overwritten"""
    rnd = random.Random(seed * 7919 + sum(map(ord, key)))
    files = [f for f in glob.glob(os.path.join(repo, "sharepoint2text/tests/resources/**/*." + key), recursive=True)
             if os.path.isfile(f) and 20 <= os.path.getsize(f) < 150_000 and "password" not in f]
    for f in sorted(files, key=os.path.getsize)[:2]:
        data = open(f, "rb").read()
        name = os.path.basename(f)
        yield f"whole:{name}", data
        cuts = sorted({len(data) * i // 16 for i in range(1, 16)} | {len(data) - 1, len(data) - 2, len(data) - 10, len(data) - 100})
        for c in cuts:
            if 0 < c < len(data):
                yield f"truncated-at-{c}:{name}", data[:c]
        n = 0
        while n < per_fixture:
            b = bytearray(data)
            kind = n % 3
            if kind == 0:
                for _ in range(1 + n % 8):
                    b[rnd.randrange(len(b))] ^= 1 << rnd.randrange(8)
            elif kind == 1:
                lim = min(len(b), 1024)
                for _ in range(1 + n % 4):
                    b[rnd.randrange(lim)] = rnd.choice((0x00, 0xFF, 0x7F, 0x80, 0x01))
            else:
                i = rnd.randrange(len(b))
                j = min(len(b), i + rnd.choice((1, 2, 4, 8, 64)))
                b[i:j] = bytes([rnd.choice((0x00, 0xFF))]) * (j - i)
            n += 1
            yield f"mutant-{n}:{name}", bytes(b)


# ------------------- length-prefixed records: boundary values in every length field (embedded image carving) --
BOUNDARY32 = (0, 1, 4, 8, 12, 13, 0x7FFFFFFF, 0x80000000, 0x80000001, 0xFFFFFFFF, 0xFFFFFFF0, 0xFFFFFFF4, 0xFFFFFFF8, 0xFFFFFFFC, 0xFFFFFF00, 0xFFFF0000)
PNG_SIG = b"\x89PNG\r\n\x1a\n"


def record_payloads():
    """(label, bytes): record streams whose length fields take boundary values -- zero, one, header size, sign bit set, minus the
    header size (the cursor stands still), minus k records (the cursor cycles), huge.  PNG chunks (4-byte big-endian length, type,
    data, crc), JPEG segments (2-byte big-endian length including itself), DIB headers (little-endian sizes)."""
    import struct
    import zlib

    def chunk(typ, data):
        return struct.pack(">I", len(data)) + typ + data + struct.pack(">I", zlib.crc32(typ + data) & 0xFFFFFFFF)
    ihdr = chunk(b"IHDR", struct.pack(">IIBBBBB", 1, 1, 8, 0, 0, 0, 0))
    idat = chunk(b"IDAT", zlib.compress(b"\x00\x00"))
    iend = chunk(b"IEND", b"")
    tail = b"\x00" * 16
    # WELL-FORMED picture records (OfficeArt BLIP: 8-byte header, 16-byte UID + tag, then the image), each alone, twice and three times
    # in a row byte for byte, and next to a different one: what a de-duplicating / caching branch of a record walker is reached by
    # (a writer that stores one picture per use instead of one per distinct picture)
    png = PNG_SIG + ihdr + idat + iend
    jpeg = (b"\xff\xd8\xff\xe0" + struct.pack(">H", 16) + b"JFIF\x00\x01\x01\x00\x00\x01\x00\x01\x00\x00" +
            b"\xff\xc0" + struct.pack(">HBHHB", 11, 8, 1, 1, 1) + b"\x01\x11\x00" + b"\xff\xda" + struct.pack(">H", 8) + b"\x01\x01\x00\x00\x3f\x00" + b"\x00\xff\xd9")
    dib = struct.pack("<IiiHHIIiiII", 40, 1, 1, 1, 24, 0, 4, 0, 0, 0, 0) + b"\x00\x00\x00\x00"

    def blip(verinst, typ, image, uid_bytes=17):
        body = bytes(range(16)) * (uid_bytes // 16) + b"\xff" + image
        return struct.pack("<HHI", verinst, typ, len(body)) + body
    blips = [("png", blip(0x6E00, 0xF01E, png)), ("jpeg", blip(0x46A0, 0xF01D, jpeg)), ("dib", blip(0x7A80, 0xF01F, dib)),
             ("png-two-uids", blip(0x6E10, 0xF01E, png, 33)), ("emf", blip(0x3D40, 0xF01A, b"\x01\x00\x00\x00" + b"\x00" * 84))]
    for lab, rec in blips:
        yield f"blip:{lab}", rec
        yield f"blip:{lab}-twice-identical", rec + rec
        yield f"blip:{lab}-three-times-identical", rec + rec + rec
    yield "blip:png-jpeg-png", blips[0][1] + blips[1][1] + blips[0][1]
    for v in BOUNDARY32:
        for typ in (b"IHDR", b"IDAT", b"tEXt"):
            yield f"png:first-chunk-{typ.decode()}-length-{v:08x}", PNG_SIG + struct.pack(">I", v) + typ + b"\x00" * 13 + b"\x00\x00\x00\x00" + iend + tail
        yield f"png:second-chunk-length-{v:08x}", PNG_SIG + ihdr + struct.pack(">I", v) + b"IDAT" + b"\x00" * 8 + iend + tail
        yield f"png:iend-length-{v:08x}", PNG_SIG + ihdr + idat + struct.pack(">I", v) + b"IEND" + b"\x00" * 8 + tail
    for back in (12, 24, 12 + len(ihdr), 12 + len(ihdr) + len(idat)):          # jump back over k earlier chunks: a cycle
        v = (-back) & 0xFFFFFFFF
        yield f"png:chunk-length-minus-{back}", PNG_SIG + ihdr + idat + struct.pack(">I", v) + b"tEXt" + b"\x00" * 8 + iend + tail
    for v in (0, 1, 2, 3, 0x7FFF, 0x8000, 0xFFFE, 0xFFFF):
        for marker in (0xE0, 0xC0, 0xDB, 0xDA, 0xFE):
            yield f"jpeg:segment-{marker:02x}-length-{v:04x}", b"\xff\xd8\xff" + bytes([marker]) + struct.pack(">H", v) + b"JFIF\x00" + b"\x00" * 12 + b"\xff\xd9" + tail
    # OfficeArt / PowerPoint / BIFF-drawing records: 8-byte header (ver+instance u16, type u16, length u32 little-endian), atoms and
    # containers, behind one well-formed record so that a walker is already in step when it meets the hostile length
    good = struct.pack("<HHI", 0x0000, 0x0FA8, 4) + b"abcd"
    for v in BOUNDARY32:
        for verinst, typ in ((0x0000, 0x0FA8), (0x000F, 0x03E8), (0x6E00, 0xF01E), (0x46A0, 0xF01D)):
            yield f"rec8:record-{verinst:04x}-{typ:04x}-length-{v:08x}", good + struct.pack("<HHI", verinst, typ, v) + b"\x00" * 40 + good
    # BIFF records: 4-byte header (id u16, length u16 little-endian)
    bof = struct.pack("<HH", 0x0809, 4) + b"\x00\x06\x05\x00"
    for v in (0, 1, 4, 0x7FFF, 0x8000, 0xFFF8, 0xFFFC, 0xFFFF):
        for rid in (0x003C, 0x00EB, 0x0809):
            yield f"rec4:record-{rid:04x}-length-{v:04x}", bof + struct.pack("<HH", rid, v) + b"\x00" * 24 + bof
    for v in BOUNDARY32:
        yield f"dib:header-size-{v:08x}", struct.pack("<IiiHHII", v, 1, 1, 1, 24, 0, 4) + b"\x00" * 24
        yield f"dib:image-size-{v:08x}", struct.pack("<IiiHHII", 40, 1, 1, 1, 24, 0, v) + b"\x00" * 24
        yield f"bmp:file-size-{v:08x}", b"BM" + struct.pack("<IHHI", v, 0, 0, 54) + struct.pack("<IiiHHII", 40, 1, 1, 1, 24, 0, 4) + b"\x00" * 24


def ole_hosts(repo, key):
    """(fixture name, bytes, [(stream name, size)]) -- the smallest OLE fixtures of an extension and their regular (non-mini) streams"""
    try:
        import olefile
    except Exception:  # noqa
        return
    files = [f for f in glob.glob(os.path.join(repo, "sharepoint2text/tests/resources/**/*." + key), recursive=True)
             if os.path.isfile(f) and 512 <= os.path.getsize(f) < 200_000 and "password" not in f]
    for f in sorted(files, key=os.path.getsize)[:2]:
        data = open(f, "rb").read()
        try:
            if not olefile.isOleFile(io.BytesIO(data)):
                continue
            ole = olefile.OleFileIO(io.BytesIO(data))
            streams = [("/".join(e), ole.get_size("/".join(e))) for e in ole.listdir(streams=True, storages=False)]
            cutoff = getattr(ole, "minisectorcutoff", 4096)
            ole.close()
        except Exception:  # noqa
            continue
        streams = sorted([x for x in streams if x[1] >= cutoff], key=lambda x: -x[1])[:4]
        if streams:
            yield os.path.basename(f), data, streams


def ole_record_cases(repo, key, payloads=None):
    """a structurally valid OLE file (header, FAT, directory untouched; streams keep their size) whose stream CONTENT carries the
    hostile records: spliced in near the end and in the middle of each regular stream"""
    import olefile
    payloads = list(record_payloads()) if payloads is None else list(payloads)
    for name, data, streams in ole_hosts(repo, key):
        for sname, size in streams:
            try:
                ole = olefile.OleFileIO(io.BytesIO(data))
                content = ole.openstream(sname).read()
                ole.close()
            except Exception:  # noqa
                continue
            # one payload per file when the payloads were chosen by the caller (a witness to carry), otherwise packs of 12 laid out one
            # after the other on 4-byte boundaries: a scanning walker meets each of them, the file count stays small
            per = 1 if len(payloads) <= 4 else 12
            packs = []
            groups = [payloads[g:g + per] for g in range(0, len(payloads), per)]
            if per > 1:          # well-formed repeated records: one kind per file (small fixtures have room for it, and a finding names the kind)
                wf = [x for x in payloads if x[0].startswith("blip:")]
                rest = [x for x in payloads if not x[0].startswith("blip:")]
                groups = [wf[g:g + 3] for g in range(0, len(wf), 3)] + [rest[g:g + per] for g in range(0, len(rest), per)]
            for grp in groups:
                blob = b""
                for (_l, pl) in grp:
                    blob += pl + b"\x00" * ((-len(pl)) % 4 + 4)
                lab = grp[0][0] if len(grp) == 1 else f"{grp[0][0]} .. {grp[-1][0]} ({len(grp)} records)"
                packs.append((lab, blob))
            for where in ("end", "middle", "start"):            # "start": a walker that begins at offset 0 is in step with the records
                for label, pl in packs:
                    if len(pl) + 64 > len(content) // 2:
                        continue
                    at = len(content) - len(pl) if where == "end" else ((len(content) // 2) & ~3 if where == "middle" else 0)
                    new = content[:at] + pl + content[at + len(pl):]
                    buf = io.BytesIO(data)
                    try:
                        ole = olefile.OleFileIO(buf, write_mode=True)
                        ole.write_stream(sname, new)
                        ole.close()
                    except Exception:  # noqa
                        break
                    yield f"ole:{name}:{sname}@{where}:{label}", buf.getvalue()


def directed_probe(repo, fname, seed, budget=240.0):
    """hang search for a `decreases#` obligation of file `fname`: fixture mutants through every extractor that reaches the file"""
    import time
    t0 = time.time()
    done = set()
    for k, modpath, fn in reaching_extractors(repo, fname):
        if time.time() - t0 > budget:
            break
        cases = list(fixture_mutants(repo, k, seed))
        if not cases or (modpath, fn, cases[0][1][:64]) in done:
            continue
        done.add((modpath, fn, cases[0][1][:64]))
        r = batch_probe(repo, modpath, fn, f"x.{k}", cases, per_case=2.0)
        if r is not None:
            return r
        try:
            rec = list(ole_record_cases(repo, k))
        except Exception:  # noqa
            rec = []
        if rec:
            r = batch_probe(repo, modpath, fn, f"x.{k}", rec, per_case=0.5)
            if r is not None:
                return r
    return None


def hang_probe(repo, seed):
    """Hostile inputs through the extractors in CHILD processes with a hard timeout: a SIGALRM handler is not a reliable way out of
    a spinning loop (observed: CPython 3.12 did not run the handler in a `while` loop that `continue`s from an except block)."""
    import subprocess
    import sys
    import tempfile
    from sharepoint2text.parsing import router
    cases = [(l, b) for (l, b) in inputs(seed, repo) if l.startswith(("rtf:", "zip:", "mbox:", "eml:", "tar", "empty", "garbage"))]
    code = ("import sys, io, importlib\n"
            "sys.path.insert(0, sys.argv[1])\n"
            "import logging; logging.disable(logging.CRITICAL)\n"
            "f = getattr(importlib.import_module(sys.argv[2]), sys.argv[3])\n"
            "data = open(sys.argv[4], 'rb').read()\n"
            "try:\n"
            "    for _ in f(io.BytesIO(data), sys.argv[5]):\n"
            "        pass\n"
            "except Exception:\n"
            "    pass\n")
    seen = set()
    with tempfile.TemporaryDirectory() as d:
        for label, data in cases:
            kind = label.split(":")[0]
            for k, (modpath, fn) in router._EXTRACTOR_REGISTRY.items():
                if (modpath, fn) in seen and kind in ("empty", "garbage"):
                    continue
                if kind in ("rtf", "zip", "mbox", "eml") and not k.startswith(kind[:3]):
                    continue
                if kind.startswith("tar") and k not in ("tar", "tgz", "txz", "gz"):
                    continue
                seen.add((modpath, fn))
                pth = os.path.join(d, "in.bin")
                with open(pth, "wb") as fh:
                    fh.write(data)
                try:
                    subprocess.run([sys.executable, "-c", code, repo, modpath, fn, pth, f"x.{k}"], timeout=45, capture_output=True, cwd=repo)
                except subprocess.TimeoutExpired:
                    return {"reproduced": True, "target": f"{modpath}.{fn}", "inputs": {"case": label, "as": k, "bytes": data[:80].decode("latin-1")},
                            "expected": "terminates", "observed": "no result within 45 s (child process killed)"}
    return None


def cli_failure_causes(repo, d):
    """[(label, path)] one input file per CAUSE of a failed run -- the contract gives every cause the same outcome (exit 1, empty
    stdout, one stderr line), so a CLI that tells causes apart (exit code / stream per exception class) shows on one of these:
    resource limits (zip bomb ratios in every zip-based format, file over the size limit), protection (fixtures with a password),
    unsupported type, empty / garbage content per parser family, missing file, a directory"""
    import zipfile
    out = []

    def put(name, data):
        pth = os.path.join(d, name)
        with open(pth, "wb") as fh:
            fh.write(data)
        out.append((name, pth))
    buf = io.BytesIO()
    with zipfile.ZipFile(buf, "w", zipfile.ZIP_DEFLATED) as z:
        z.writestr("word/document.xml", b"\0" * (8 * 1024 * 1024))          # entry ratio ~ 1000 : 1
    for ext in ("zip", "docx", "xlsx", "pptx", "odt", "epub"):
        put(f"bomb.{ext}", buf.getvalue())
    for ext in ("docx", "pdf", "xls", "txt", "7z", "msg"):
        put(f"empty.{ext}", b"")
    put("unsupported.xyz", b"hello")
    put("noext", b"hello")
    for f in sorted(glob.glob(os.path.join(repo, "sharepoint2text/tests/resources/**/password_protected/*"), recursive=True), key=os.path.getsize)[:8]:
        if os.path.isfile(f) and os.path.getsize(f) < 2_000_000:
            put("protected-" + os.path.basename(f), open(f, "rb").read())
    try:
        for name in ("over-limit.txt", "over-limit.7z", "over-limit.zip"):
            pth = os.path.join(d, name)
            with open(pth, "wb") as fh:
                fh.truncate(100 * 1024 * 1024 + 1)                             # sparse: no data blocks written
            out.append((name, pth))
    except OSError:
        pass
    os.mkdir(os.path.join(d, "dir.docx"))
    out.append(("dir.docx (a directory)", os.path.join(d, "dir.docx")))
    return out


def fresh_cli_cases(repo):
    yield "g.pdf", b"garbage not a pdf", []
    pdfs = sorted(glob.glob(os.path.join(repo, "sharepoint2text/tests/resources/pdf/*.pdf")), key=os.path.getsize)
    for f in pdfs[:2]:
        data = open(f, "rb").read()
        yield "truncated_middle.pdf", data[: len(data) // 2], []
        yield "truncated_before_eof.pdf", data[: len(data) - 10], ["--json"]
    junk = b"garbage \x00\xff" * 40
    for ext in ("doc", "xls", "ppt", "msg", "docx", "xlsx", "eml", "mbox", "html", "rtf", "zip", "7z", "epub", "odt"):
        yield f"junk.{ext}", junk, []


def fresh_cli(repo, budget=90.0):
    """-> (finding | None, number of runs): `python -m sharepoint2text.cli <file>` per case in a fresh interpreter"""
    import subprocess
    import sys
    import tempfile
    import time
    n = 0
    t0 = time.time()
    env = dict(os.environ, PYTHONPATH=repo + os.pathsep + os.environ.get("PYTHONPATH", ""))
    with tempfile.TemporaryDirectory() as d:
        for name, data, flags in fresh_cli_cases(repo):
            if time.time() - t0 > budget:
                break
            g = os.path.join(d, name)
            with open(g, "wb") as fh:
                fh.write(data)
            try:
                p = subprocess.run([sys.executable, "-m", "sharepoint2text.cli", g] + flags, capture_output=True, text=True, cwd=repo, timeout=120, env=env)
            except subprocess.TimeoutExpired:
                return ({"reproduced": True, "target": "sharepoint2text/cli.py::main", "inputs": {"argv": [name] + flags, "content_hex_prefix": data[:48].hex(), "bytes": len(data)},
                         "expected": "terminates", "observed": "no exit within 120 s"}, n + 1)
            n += 1
            ok = (p.returncode == 0 and p.stdout) or (p.returncode == 1 and p.stdout == "" and p.stderr.count("\n") == 1)
            if not ok:
                return ({"reproduced": True, "target": "sharepoint2text/cli.py::main",
                         "inputs": {"argv": [name] + flags, "content_hex_prefix": data[:48].hex(), "bytes": len(data), "process": "fresh interpreter, logging unconfigured"},
                         "expected": "exit 0 with output, or exit 1 with empty stdout and exactly one stderr line",
                         "observed": f"exit={p.returncode} stdout_bytes={len(p.stdout)} stderr_lines={p.stderr.count(chr(10))} stderr={p.stderr[:300]!r}"}, n)
    return (None, n)


def _child(code, argv, timeout, repo):
    """run `code` in a fresh interpreter on the tree under test; -> 'hang' | 'ok' | 'error: ...'"""
    import subprocess
    import sys
    try:
        p = subprocess.run([sys.executable, "-c", code] + argv, timeout=timeout, capture_output=True, text=True, cwd=repo)
    except subprocess.TimeoutExpired:
        return "hang"
    return "ok" if p.returncode == 0 else "error: " + (p.stderr or "")[-300:]


_RX_PATTERN = r"""
import sys, json, importlib, re
sys.path.insert(0, sys.argv[1])
import logging; logging.disable(logging.CRITICAL)
h = json.load(open(sys.argv[2]))
text = h["text"].encode("latin-1", "replace") if h["bytes"] else h["text"]
rx = None
if h.get("name"):
    rx = getattr(importlib.import_module(h["module"]), h["name"], None)
if not isinstance(rx, re.Pattern):
    rx = re.compile(h["pattern"].encode("latin-1") if h["bytes"] else h["pattern"], h["flags"])
if h["mode"] == "search":
    for _ in rx.finditer(text):
        pass
elif h["mode"] == "match":
    rx.match(text)
else:
    rx.fullmatch(text)
"""

_RX_FUNCTION = r"""
import sys, json, importlib, inspect
sys.path.insert(0, sys.argv[1])
import logging; logging.disable(logging.CRITICAL)
h = json.load(open(sys.argv[2]))
obj = importlib.import_module(h["module"])
for part in h["qualname"].split("."):
    obj = getattr(obj, part)
arg = h["text"].encode("latin-1", "replace") if h["as_bytes"] else h["text"]
try:
    r = obj(arg)
    if inspect.isgenerator(r):
        for _ in r:
            pass
except Exception:
    pass
"""

_RX_EXTRACTOR = r"""
import sys, io, importlib
sys.path.insert(0, sys.argv[1])
import logging; logging.disable(logging.CRITICAL)
f = getattr(importlib.import_module(sys.argv[2]), sys.argv[3])
data = open(sys.argv[4], 'rb').read()
try:
    for _ in f(io.BytesIO(data), sys.argv[5]):
        pass
except Exception:
    pass
"""


TEXT_MEMBER_SUFFIXES = (".xml", ".xhtml", ".html", ".htm", ".opf", ".ncx", ".rels", ".txt", ".css", ".svg", ".vml", ".json", ".smil")


def container_member_cases(repo, ext, raw, max_members=40, fixtures=2):
    """ZIP-container formats (EPUB, OOXML, ODF ...): the smallest fixtures of the format with the hostile text placed in EACH
    text member in turn -- as the whole member, just before the member's last closing tag, and right after its first tag -- and once
    in all of them (parts the package's own index files name keep their role, only their content turns hostile)."""
    import zipfile
    files = sorted(glob.glob(os.path.join(repo, f"sharepoint2text/tests/resources/*/*.{ext}")), key=os.path.getsize)[:fixtures]
    for f in files:
        try:
            zin = zipfile.ZipFile(f)
            members = [(i, zin.read(i.filename)) for i in zin.infolist()]
        except Exception:  # noqa  (not a ZIP container)
            continue
        texty = [i.filename for i, b in members if i.filename.lower().endswith(TEXT_MEMBER_SUFFIXES) and len(b) < 200_000 and i.filename != "mimetype"]
        texty.sort(key=lambda n: (n.count("/") == 0 and n.startswith("["), len(n)))
        texty = texty[:max_members]

        def rebuild(change):
            out = io.BytesIO()
            with zipfile.ZipFile(out, "w") as z:
                for i, b in members:
                    nb = change(i.filename, b)
                    z.writestr(i.filename, nb, compress_type=zipfile.ZIP_STORED if i.filename == "mimetype" else zipfile.ZIP_DEFLATED)
            return out.getvalue()

        def inside(b):
            k = b.rfind(b"</")
            return b + raw if k < 0 else b[:k] + raw + b[k:]

        def after_first_tag(b):
            k = b.find(b">", b.find(b"<", b.find(b"?>") + 1 if b.lstrip().startswith(b"<?xml") else 0))
            return raw + b if k < 0 else b[:k + 1] + raw + b[k + 1:]

        base = os.path.basename(f)
        for name in texty:
            yield f"{base}: member {name} := hostile text", rebuild(lambda n, b, name=name: raw if n == name else b)
            yield f"{base}: hostile text before the last closing tag of member {name}", rebuild(lambda n, b, name=name: inside(b) if n == name else b)
            yield f"{base}: hostile text after the first tag of member {name}", rebuild(lambda n, b, name=name: after_first_tag(b) if n == name else b)
        yield f"{base}: hostile text before the last closing tag of every text member", rebuild(lambda n, b: inside(b) if n in texty else b)


def regex_probe(h, repo):
    """Replay of a `regex-eda-pump` obligation: the pumping text of the static witness, lengthened so that an exponential matcher
    cannot finish, (1) on the REAL compiled pattern object of the module, then (2) through the registered extractors of that module
    (raw text and format shells around it), then (3) through the module's functions that take one str / bytes argument and use the
    pattern -- each in a child process with a hard timeout.  Only (2) or (3) count as a reproduced failing input."""
    import ast
    import json
    import tempfile
    modname = h["file"][:-3].replace("/", ".")
    k = int(h["k"]) + 14
    text = h["prefix"] + h["pump"] * k + h["suffix"]
    with tempfile.TemporaryDirectory() as d:
        hp = os.path.join(d, "hint.json")
        json.dump(dict(h, module=modname, text=text), open(hp, "w"))
        r = _child(_RX_PATTERN, [repo, hp], 12, repo)
        if r != "hang":
            return {"reproduced": False, "note": f"pumping {h['pattern']!r:.80} with k={k} natively: {r}"}
        raw = text.encode("latin-1", "replace") if h["bytes"] else text.encode("utf-8")
        # (2) extractors registered from this module
        from sharepoint2text.parsing import router
        exts = [(kk, fn) for kk, (mp, fn) in router._EXTRACTOR_REGISTRY.items() if mp == modname]
        seen_fn = set()
        shells = [("raw", raw), ("line", b"\n" + raw + b"\n"), ("rtf", b"{\\rtf1\\ansi " + raw + b"}"),
                  ("html", b"<html><body><p>" + raw + b"</p></body></html>"),
                  ("mail", b"From: a@b.c\nTo: d@e.f\nSubject: s\n\n" + raw + b"\n")]
        # markup: the text in every syntactic position of a document (attribute values of head and body elements, title, comment,
        # processing instruction, CDATA), with either quote character around attribute values
        for q in (b'"', b"'"):
            if q in raw:
                continue
            shells.append(("markup-positions(" + q.decode() + ")",
                           b"<html><head><meta http-equiv=" + q + b"Content-Type" + q + b" content=" + q + raw + q + b"><meta name=" + q + b"description" + q +
                           b" content=" + q + raw + q + b"><meta charset=" + q + raw + q + b"><title>" + raw + b"</title><link rel=" + q + b"stylesheet" + q + b" href=" + q + raw + q +
                           b"></head><body><a href=" + q + raw + q + b" title=" + q + raw + q + b">x</a><img alt=" + q + raw + q + b" src=" + q + raw + q +
                           b"><!-- " + raw + b" --><?x " + raw + b"?><![CDATA[" + raw + b"]]><p class=" + q + raw + q + b">t</p></body></html>"))
            break
        for kk, fn in exts:
            if fn in seen_fn:
                continue
            seen_fn.add(fn)
            fixtures = sorted(glob.glob(os.path.join(repo, f"sharepoint2text/tests/resources/*/*.{kk}")), key=os.path.getsize)[:1]
            cases = list(shells) + [("after-fixture:" + os.path.basename(f), open(f, "rb").read() + b"\n" + raw + b"\n") for f in fixtures
                                    if os.path.getsize(f) < 200_000]
            for label, data in cases:
                pth = os.path.join(d, "in.bin")
                with open(pth, "wb") as fh:
                    fh.write(data)
                if _child(_RX_EXTRACTOR, [repo, modname, fn, pth, f"x.{kk}"], 40, repo) == "hang":
                    return {"reproduced": True, "target": f"{modname}.{fn}",
                            "inputs": {"shell": label, "as": kk, "bytes": len(data), "content": data[:160].decode("latin-1"),
                                       "pattern": h["pattern"], "line": h["line"], "pump": h["pump"], "times": k},
                            "expected": "terminates (extraction results or an ExtractionError)",
                            "observed": f"no result within 40 s (child process killed): exponential backtracking of the pattern at {h['file']}:{h['line']}"}
        # (2b) container formats: the hostile text inside each text member of the smallest fixtures of the format (one child per extractor)
        seen_fn = set()
        for kk, fn in exts:
            if fn in seen_fn:
                continue
            seen_fn.add(fn)
            try:
                cases = list(container_member_cases(repo, kk, raw))
            except Exception:  # noqa  (fixtures that cannot be re-packed: next level)
                cases = []
            if not cases:
                continue
            r = batch_probe(repo, modname, fn, f"x.{kk}", cases, single_timeout=40, per_case=0.1)
            if r is not None:
                r["inputs"].update({"pattern": h["pattern"], "line": h["line"], "pump": h["pump"], "times": k, "hostile_text": text[:160]})
                r["observed"] += f": exponential backtracking of the pattern at {h['file']}:{h['line']}"
                return r
        # (3) functions of the module that use the pattern and take a single str / bytes argument
        try:
            tree = ast.parse(open(os.path.join(repo, h["file"])).read())
        except Exception:  # noqa
            tree = None
        cands = []
        if tree is not None:
            def visit(node, prefix):
                for ch in ast.iter_child_nodes(node):
                    if isinstance(ch, ast.ClassDef):
                        continue          # methods need an instance: covered by the extractor level
                    if isinstance(ch, (ast.FunctionDef,)):
                        uses = any((isinstance(n, ast.Name) and n.id == h.get("name")) or (getattr(n, "lineno", None) == h["line"] and isinstance(n, ast.Call))
                                   for n in ast.walk(ch))
                        req = [a for a in ch.args.args[: len(ch.args.args) - len(ch.args.defaults)]]
                        if uses and len(req) == 1 and not ch.args.kwonlyargs:
                            ann = ast.unparse(req[0].annotation) if req[0].annotation is not None else ""
                            cands.append((prefix + ch.name, ann))
            visit(tree, "")
        for q, ann in cands:
            for as_bytes in ([True] if "bytes" in ann else [False] if "str" in ann else [h["bytes"], not h["bytes"]]):
                json.dump({"module": modname, "qualname": q, "text": text, "as_bytes": as_bytes}, open(hp, "w"))
                if _child(_RX_FUNCTION, [repo, hp], 30, repo) == "hang":
                    return {"reproduced": True, "target": f"{modname}.{q}",
                            "inputs": {"argument": ("bytes " if as_bytes else "str ") + repr(text[:120]), "length": len(text), "pattern": h["pattern"], "line": h["line"]},
                            "expected": "terminates", "observed": "no return within 30 s (child process killed): exponential backtracking"}
    return {"reproduced": False, "note": f"the compiled pattern hangs on {len(text)} characters, but no extractor / function of {modname} was driven into it"}


# ------------------------------------------------------------------ e-mail attachments --
def _mime_spellings(table):
    """declared types in every spelling a writer may use for a type of the table (RFC 2045: names are case-insensitive and may
    be followed by parameters), plus types the table does not hold"""
    keys = list(table)
    picks = keys[:3] + [k for k in keys if k in ("application/pdf", "text/plain", "text/html", "application/zip", "message/rfc822")]
    seen, out = set(), []
    for k in picks:
        main, _, sub = k.partition("/")
        for v in (k, k.upper(), k.title(), main.capitalize() + "/" + sub.upper(), k + "; name=report", k + ";", " " + k, k + " ", "\t" + k + "\r\n",
                  k + "; charset=utf-8", k.upper() + "; NAME=X", k + "\x00", k.replace("/", " / ")):
            if v not in seen:
                seen.add(v)
                out.append(v)
    mains = sorted({k.partition("/")[0] for k in keys if "/" in k})
    for v in [m + "/x-unknown-c01" for m in mains] + [m + "/" for m in mains[:2]] + ["application/x-unknown", "application/octet-stream", "", "/", "application",
                                                                                      "APPLICATION/OCTET-STREAM", "text", ";", "a/b;c=d"]:
        if v not in seen:
            seen.add(v)
            out.append(v)
    return out


ATT_NAMES = ("noext", "sample_pdf", "", "a.bin", "a.pdf", "A.PDF", "a.", ".pdf", "archive.tar.gz", "x.unknownext", "a b", "café", "a.txt")


def _consume_attachments(mail, ExtractionError, budget=20):
    """-> None | description of what escaped"""
    signal.alarm(budget)
    try:
        for _ in mail.iterate_supported_attachments():
            pass
    except ExtractionError:
        return None
    except _Timeout:
        return "no result within %d s" % budget
    except Exception as e:  # noqa
        return f"{type(e).__name__}: {str(e)[:120]}"
    finally:
        signal.alarm(0)
    return None


def _msg_variants(repo, table):
    """Outlook .msg fixtures with an attachment: the declared MIME type (PR_ATTACH_MIME_TAG, UTF-16) respelled in place at the same
    length (case changes, a blank / `;` over the last characters), the attachment's file names with and without their extension dot"""
    for f in sorted(glob.glob(os.path.join(repo, "sharepoint2text/tests/resources/*/*.msg"))):
        raw = open(f, "rb").read()
        u16 = lambda t: t.encode("utf-16-le")
        mimes = [k for k in table if raw.count(u16(k + "\x00"))]
        import re as _re
        names = sorted({m.group(0).decode("utf-16-le") for m in _re.finditer(rb"(?:[A-Za-z0-9_\-]\x00){2,24}\.\x00(?:[A-Za-z0-9]\x00){2,4}(?=\x00\x00)", raw)})
        try:
            from sharepoint2text.parsing import router as _router
            exts = {str(k).lower() for k in _router._EXTRACTOR_REGISTRY}
        except Exception:  # noqa
            exts = {"pdf", "docx", "pptx", "xlsx", "txt", "doc", "xls", "ppt"}
        names = [n for n in names if n.rsplit(".", 1)[-1].lower() in exts][:6]      # attachment file names, not message classes / host names
        for k in mimes:
            main, _, sub = k.partition("/")
            spell = [k.upper(), k.title(), main.capitalize() + "/" + sub.upper(), k[:-1] + ";", k[:-1] + " ", " " + k[:-1], k[:-2] + "; ", k]
            for sp in spell:
                for strip_ext in (True, False):
                    data = raw.replace(u16(k + "\x00"), u16(sp + "\x00"))
                    if strip_ext:
                        for nm in names:
                            data = data.replace(u16(nm), u16(nm.replace(".", "_")))
                    yield f"{os.path.basename(f)}: PR_ATTACH_MIME_TAG {k!r} -> {sp!r}" + ("; attachment names " + ", ".join(repr(n) + " -> " + repr(n.replace('.', '_')) for n in names) if strip_ext and names else ""), data


def _eml_variants(table):
    head = b"From: a@example.com\nTo: b@example.com\nDate: Sat, 27 Dec 2025 10:00:00 +0000\nMessage-ID: <1@example.com>\nSubject: s\nMIME-Version: 1.0\n"
    for sp in _mime_spellings(table):
        if any(ord(ch) < 32 for ch in sp):
            continue
        for nm in ATT_NAMES[:6]:
            disp = (b"Content-Disposition: attachment; filename=\"" + nm.encode("utf-8") + b"\"\n") if nm else b"Content-Disposition: attachment\n"
            part = (b"--B\nContent-Type: text/plain\n\nhello\n--B\nContent-Type: " + sp.encode("utf-8") + b"\n" + disp +
                    b"Content-Transfer-Encoding: base64\n\naGVsbG8gd29ybGQ=\n--B--\n")
            yield f"eml: attachment declared {sp!r}, file name {nm!r}", head + b"Content-Type: multipart/mixed; boundary=\"B\"\n\n" + part


def attachment_probe(repo):
    """Attachments through the real code: (1) .msg fixtures and synthetic .eml messages whose attachment declares its type in
    non-canonical spellings / has a file name without a usable extension -> extract -> consume iterate_supported_attachments();
    (2) function level: EmailContent with records built exactly as the extractors build them (flag = the real
    is_supported_mime_type(type)) over spellings x file names x payloads.  Only the ExtractionError family may escape."""
    import importlib
    import dataclasses
    from sharepoint2text.parsing.exceptions import ExtractionError
    try:
        from sharepoint2text.parsing import mime_types
        table = dict(mime_types.MIME_TYPE_MAPPING)
    except Exception:  # noqa
        mime_types, table = None, {"application/pdf": "pdf", "text/plain": "txt"}
    signal.signal(signal.SIGALRM, _alarm)
    tried = 0
    readers = []
    for modname, fn, gen in (("sharepoint2text.parsing.extractors.mail.msg_email_extractor", "read_msg_format_mail", lambda: _msg_variants(repo, table)),
                             ("sharepoint2text.parsing.extractors.mail.eml_email_extractor", "read_eml_format_mail", lambda: _eml_variants(table))):
        try:
            readers.append((getattr(importlib.import_module(modname), fn), gen))
        except Exception:  # noqa
            continue
    for f, gen in readers:
        try:
            for label, data in gen():
                tried += 1
                signal.alarm(20)
                try:
                    mails = list(f(io.BytesIO(data), "m." + ("msg" if "msg" in f.__name__ else "eml")))
                except ExtractionError:
                    continue
                except _Timeout:
                    return {"reproduced": True, "target": f.__name__, "inputs": {"case": label}, "expected": "terminates", "observed": "no result within 20 s"}, tried
                except Exception as e:  # noqa
                    return {"reproduced": True, "target": f"{f.__module__}.{f.__name__}", "inputs": {"case": label, "bytes_hex_prefix": data[:64].hex()},
                            "expected": "ExtractionError family", "observed": f"{type(e).__name__}: {str(e)[:120]}"}, tried
                finally:
                    signal.alarm(0)
                for m in mails:
                    if not hasattr(m, "iterate_supported_attachments"):
                        continue
                    esc = _consume_attachments(m, ExtractionError)
                    if esc:
                        atts = [(getattr(a, "filename", None), getattr(a, "mime_type", None), getattr(a, "is_supported_mime_type", None)) for a in getattr(m, "attachments", [])]
                        return {"reproduced": True, "target": f"{f.__module__}.{f.__name__} -> EmailContent.iterate_supported_attachments",
                                "inputs": {"case": label, "size": len(data), "attachments (filename, mime_type, is_supported_mime_type)": atts},
                                "expected": "attachment results, a skipped attachment, or the ExtractionError family", "observed": esc}, tried
        except Exception:  # noqa  (a generator that cannot build its documents: next family)
            continue
    # (2) records as the extractors build them
    try:
        dt = importlib.import_module("sharepoint2text.parsing.extractors.data_types")
        flag_fn = getattr(mime_types, "is_supported_mime_type")
        EA, EC = dt.EmailAttachment, dt.EmailContent
        ec_req = {f_.name for f_ in dataclasses.fields(EC) if f_.default is dataclasses.MISSING and f_.default_factory is dataclasses.MISSING}
        payloads = [b"", b"garbage \x00\xff" * 8, b"%PDF-1.4\n%%EOF\n", b"hello"]
        for sp in _mime_spellings(table) + [None]:
            for nm in ATT_NAMES:
                for pl in payloads[:2] if sp is None else payloads:
                    tried += 1
                    try:
                        flag = flag_fn(sp)
                    except Exception:  # noqa  (raised inside the extractors' own try: not this route)
                        continue
                    att = EA(filename=nm, mime_type=sp, data=io.BytesIO(pl), is_supported_mime_type=flag)
                    kw = {"attachments": [att]}
                    if "from_email" in ec_req:
                        kw["from_email"] = dt.EmailAddress()
                    mail = EC(**kw)
                    esc = _consume_attachments(mail, ExtractionError)
                    if esc:
                        return {"reproduced": True, "target": "EmailContent.iterate_supported_attachments (records built as the mail extractors build them)",
                                "inputs": {"filename": nm, "mime_type": sp, "is_supported_mime_type": f"is_supported_mime_type({sp!r}) == {flag!r}", "data_hex": pl[:32].hex()},
                                "expected": "attachment results, a skipped attachment, or the ExtractionError family", "observed": esc}, tried
    except Exception as e:  # noqa
        return None, tried
    return None, tried



def recursion_search(obligation, repo):
    """`decreases#recursion-*` / `decreases#mutual-recursion-*` (round 7): native calls of the recursive function on small FINITE trees -- ElementTree
    elements carrying the tag constants of its module at depth 1 and 2, nested lists / dicts / tuples, a dataclass instance -- with the other
    parameters at their defaults or simple values.  A RecursionError on a tree of depth <= 3 is unbounded recursion (the interpreter cut it)."""
    import dataclasses
    import importlib
    import inspect
    import itertools
    import re as _re
    import typing
    import xml.etree.ElementTree as ET
    try:
        fileq = obligation.split("/", 1)[1].split("/decreases")[0]
        fname, q = fileq.split("::")
    except Exception:  # noqa
        return None
    hits = glob.glob(os.path.join(repo, "sharepoint2text", "**", fname), recursive=True)
    if not hits:
        return None
    modname = os.path.relpath(hits[0], repo)[:-3].replace(os.sep, ".")
    try:
        mod = importlib.import_module(modname)
        src = open(hits[0]).read()
    except Exception:  # noqa
        return None
    tags = []
    for v in list(vars(mod).values()):
        for x in (v.values() if isinstance(v, dict) else v if isinstance(v, (list, tuple, set, frozenset)) else [v]):
            if isinstance(x, str) and 0 < len(x) < 120 and (x.startswith("{") or x.isidentifier()) and x not in tags:
                tags.append(x)
    local_names = sorted(set(_re.findall(r"[\"'}:]([A-Za-z][\w-]{0,30})[\"']", src)))
    for ns in [v for v in vars(mod).values() if isinstance(v, dict) and v and all(isinstance(k, str) and isinstance(u, str) for k, u in v.items())]:
        for uri in ns.values():
            if uri.startswith(("http", "urn:")):
                for nm in local_names:
                    t = "{%s}%s" % (uri, nm)
                    if t not in tags and len(tags) < 900:
                        tags.append(t)
    tags = tags[:900] or ["a", "b"]

    def tree(root_tag, inner):
        r = ET.Element(root_tag)
        r.text = "x"
        for t in inner:
            c = ET.SubElement(r, t)
            c.text, c.tail = "y", "z"
            ET.SubElement(c, inner[0]).text = "w"
        return r

    @dataclasses.dataclass
    class _D:
        a: object = None
        b: object = None
    chunks = [tags[i:i + 40] for i in range(0, len(tags), 40)][:12]
    firsts = [tree(ch[0], ch) for ch in chunks] + [tree(t, tags[:3]) for t in tags[:60]]
    firsts += [[1, [2, [3]]], {"a": {"b": [1, {"c": 2}]}}, (1, (2, (3,))), [[]], {"_type": "x", "k": [{"_type": "y"}]}, _D(a=[_D(b={"k": 1})], b=(1, 2)),
               "a;b", ["a", ["b"]], None, 0, ""]
    funcs = []
    for part_q in [p.strip() for p in q.split("+")]:
        obj, owner = mod, None
        try:
            for part in part_q.split("."):
                owner, obj = obj, getattr(obj, part)
        except Exception:  # noqa
            continue
        if inspect.isclass(owner):
            try:
                inst = owner.__new__(owner)
                obj = getattr(inst, part_q.split(".")[-1])
            except Exception:  # noqa
                continue
        funcs.append((part_q, obj))
    if not funcs:
        return {"reproduced": False, "note": f"{q} is not importable (nested function): no native call"}
    signal.signal(signal.SIGALRM, _alarm)
    tried = 0
    for part_q, obj in funcs:
        try:
            sig = inspect.signature(obj)
        except Exception:  # noqa
            continue
        names = [n for n in sig.parameters]
        if not names:
            continue
        others = []
        for n in names[1:]:
            p = sig.parameters[n]
            if p.kind in (p.VAR_POSITIONAL, p.VAR_KEYWORD):
                others.append([inspect.Parameter.empty])
            elif p.default is not inspect.Parameter.empty:
                others.append([p.default, True])
            else:
                others.append([[], "", True, 0, typing.Any])
        for first in firsts:
            for rest in itertools.islice(itertools.product(*others), 6):
                kw = {n: (list(v) if isinstance(v, list) else v) for n, v in zip(names[1:], rest) if v is not inspect.Parameter.empty}
                tried += 1
                signal.alarm(5)
                try:
                    r = obj(first, **kw)
                    if inspect.isgenerator(r):
                        for _ in r:
                            pass
                except RecursionError:
                    shown = ET.tostring(first)[:300].decode("ascii", "replace") if isinstance(first, ET.Element) else repr(first)[:200]
                    return {"reproduced": True, "target": f"{modname}.{part_q}", "inputs": {"first_argument": shown, "other_arguments": {k: repr(v)[:40] for k, v in kw.items()}},
                            "expected": "the recursion ends on a finite tree of depth <= 3",
                            "observed": "RecursionError: the function recursed until the interpreter's limit"}
                except _Timeout:
                    return {"reproduced": True, "target": f"{modname}.{part_q}", "inputs": {"first_argument": repr(first)[:200]}, "expected": "terminates",
                            "observed": "no return within 5 s"}
                except Exception:  # noqa
                    pass
                finally:
                    signal.alarm(0)
    return {"reproduced": False, "note": f"{tried} native calls of {q} on small finite trees returned"}


def find(req):
    repo = os.environ.get("VERIF_REPO", "/repo")
    hint = req.get("extra") or {}
    if isinstance(hint, dict) and hint.get("family") == "regex":
        return regex_probe(hint, repo)
    if (isinstance(hint, dict) and hint.get("family") == "attachments") or any(w in (req.get("obligation") or "") for w in ("EmailAttachment", "iterate_supported_attachments", "is_supported_mime_type")):
        r, n_att = attachment_probe(repo)
        if r is not None:
            return r
        return {"reproduced": False, "note": f"{n_att} attachment cases (msg / eml documents, records built as the extractors build them): only the ExtractionError family escaped"}
    if "/decreases#regex-" in (req.get("obligation") or ""):
        return {"reproduced": False, "note": "no pumping text (pattern not read by the static analysis)"}
    if "/decreases#recursion-" in (req.get("obligation") or "") or "/decreases#mutual-recursion-" in (req.get("obligation") or ""):
        try:
            r = recursion_search(req["obligation"], repo)
        except Exception as e:  # noqa
            r = {"reproduced": False, "note": f"recursion search failed: {type(e).__name__}: {e}"[:200]}
        if r is not None:
            return r
    if "/decreases#" in (req.get("obligation") or ""):
        _LAST_HANG.clear()
        r = hang_search(req["obligation"], repo)
        if r is not None and r.get("reproduced"):
            try:
                r2 = promote_to_file(repo, req["obligation"].split("/", 1)[1].split("::")[0], r)
            except Exception:  # noqa
                r2 = None
            return r2 or r
        ob = req["obligation"]
        archive_first = any(w in ob for w in ("sevenzip", "archive", "7z"))
        if archive_first:
            r = sevenzip_probe(repo)
            if r is not None:
                return r
        try:
            fname = ob.split("/", 1)[1].split("::")[0]
        except Exception:  # noqa
            fname = ""
        if fname.endswith(".py"):
            r = directed_probe(repo, fname, int(os.environ.get("VERIF_SEED", "0") or 0))
            if r is not None:
                return r
        r = hang_probe(repo, int(os.environ.get("VERIF_SEED", "0") or 0))
        if r is not None:
            return r
        if not archive_first:
            r = sevenzip_probe(repo)
            if r is not None:
                return r
    from sharepoint2text.parsing import router
    from sharepoint2text.parsing.exceptions import ExtractionError
    import importlib
    seed = int(os.environ.get("VERIF_SEED", "0") or 0)
    target_fn = (req.get("function") or "")
    signal.signal(signal.SIGALRM, _alarm)
    tried = 0
    extractors = []
    for k, (modpath, fn) in router._EXTRACTOR_REGISTRY.items():
        f = getattr(importlib.import_module(modpath), fn)
        if f not in [e[1] for e in extractors]:
            extractors.append((k, f))
    if "::main" not in target_fn:
        for label, data in inputs(seed, repo):
            for k, f in extractors:
                if target_fn and "::read_" in target_fn and f.__name__ not in target_fn:
                    continue
                for with_path in (True, False):      # path is optional: the documented call without a path is a call form of its own
                    tried += 1
                    signal.alarm(20)
                    bio = io.BytesIO(data)
                    try:
                        for _ in (f(bio, f"x.{k}") if with_path else f(bio)):
                            pass
                        if bio.closed:
                            signal.alarm(0)
                            return {"reproduced": True, "target": f"{f.__module__}.{f.__name__}", "inputs": {"case": label, "as": k},
                                    "expected": "the caller's stream is left open (callers rewind it afterwards: e-mail attachments, archive members)",
                                    "observed": "file_like.closed is True after the results were consumed"}
                    except ExtractionError:
                        pass
                    except _Timeout:
                        signal.alarm(0)
                        return {"reproduced": True, "target": f.__name__, "inputs": {"case": label, "as": k}, "expected": "terminates",
                                "observed": "no result within 20 s"}
                    except Exception as e:  # noqa
                        signal.alarm(0)
                        return {"reproduced": True, "target": f"{f.__module__}.{f.__name__}",
                                "inputs": {"case": label, "as": k, "call": "f(stream, path)" if with_path else "f(stream)  # no path", "bytes_hex_prefix": data[:64].hex()},
                                "expected": "ExtractionError family", "observed": f"{type(e).__name__}: {str(e)[:120]}"}
                    finally:
                        signal.alarm(0)
    # read_file on real files: extractor results or the ExtractionError family (an input that yields nothing yields nothing)
    import tempfile
    import sharepoint2text
    if not target_fn or "read_file" in target_fn or "out-of-subset" in (req.get("obligation") or ""):
        with tempfile.TemporaryDirectory() as d:
            small = [(l, b) for (l, b) in inputs(seed, repo) if len(b) < 20000][:40]
            for label, data in small:
                for ext in ("zip", "tar", "mbox", "txt", "docx", "pdf", "rtf", "eml"):
                    if ":" in label and label.split(":")[0] in ("zip", "mbox", "rtf") and not ext.startswith(label.split(":")[0][:3]):
                        continue
                    pth = os.path.join(d, f"f.{ext}")
                    with open(pth, "wb") as fh:
                        fh.write(data)
                    tried += 1
                    signal.alarm(20)
                    try:
                        for _ in sharepoint2text.read_file(pth):
                            pass
                    except ExtractionError:
                        pass
                    except _Timeout:
                        signal.alarm(0)
                        return {"reproduced": True, "target": "sharepoint2text.read_file", "inputs": {"case": label, "as": ext}, "expected": "terminates",
                                "observed": "no result within 20 s"}
                    except Exception as e:  # noqa
                        signal.alarm(0)
                        return {"reproduced": True, "target": "sharepoint2text.read_file", "inputs": {"case": label, "file_extension": ext, "bytes_hex_prefix": data[:64].hex()},
                                "expected": "results or the ExtractionError family", "observed": f"{type(e).__name__}: {str(e)[:120]}"}
                    finally:
                        signal.alarm(0)
    # CLI: exit 0 with output, or exit 1 with clean stdout and one stderr line
    from sharepoint2text import cli
    with tempfile.TemporaryDirectory() as d:
        cases = []
        p = os.path.join(d, "bad.docx")
        open(p, "wb").write(b"not a zip")
        cases.append([p, "--json"])
        cases.append([p])
        try:
            import datetime
            import openpyxl
            wb = openpyxl.Workbook()
            wb.active.append([1, datetime.timedelta(hours=1)])
            q = os.path.join(d, "dur.xlsx")
            wb.save(q)
            cases += [[q, "--json"], [q, "--json-unit"], [q]]
        except Exception:  # noqa
            pass
        t = os.path.join(d, "ok.txt")
        open(t, "w").write("hello")
        cases += [[t], [t, "--json"], [os.path.join(d, "missing.pdf")]]
        try:
            for _label, pth in cli_failure_causes(repo, d):
                cases.append([pth])
                if _label.startswith(("bomb.", "over-limit", "protected-")):
                    cases.append([pth, "--json"])
        except Exception:  # noqa
            pass
        for argv in cases:
            tried += 1
            out, err = io.StringIO(), io.StringIO()
            with contextlib.redirect_stdout(out), contextlib.redirect_stderr(err):
                try:
                    rc = cli.main(argv)
                except BaseException as e:  # noqa
                    rc = f"raised {type(e).__name__}"
            o, e = out.getvalue(), err.getvalue()
            ok = (rc == 0 and o and not e) or (rc == 1 and o == "" and e.count("\n") == 1)
            if not ok:
                return {"reproduced": True, "target": "sharepoint2text/cli.py::main", "inputs": {"argv": [os.path.basename(a) for a in argv]},
                        "expected": "exit 0 with output, or exit 1 with empty stdout and one stderr line",
                        "observed": f"exit={rc} stdout_bytes={len(o)} stderr_lines={e.count(chr(10))}"}
    # in a fresh process (logging unconfigured, as for the console script): a failing input gives exactly one stderr line.
    # Inputs on which third-party parsers LOG before the extraction fails (pypdf: truncated / garbage PDF; olefile, openpyxl,
    # mail parsers: garbage routed to them) -- any record that finds no handler up to the root logger is printed by logging.lastResort
    r = fresh_cli(repo)
    tried += r[1]
    if r[0] is not None:
        return r[0]
    return {"reproduced": False, "note": f"{tried} native cases within the ExtractionError family / CLI contract"}


def rerun(stored):
    return find({"function": stored.get("target", ""), "obligation": stored.get("obligation") or ""})
